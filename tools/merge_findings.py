#!/usr/bin/env python3
"""merge_findings.py <agent known_findings.json> [PROP ...]: copy entries (by sig) that /verif/known_findings.json lacks.
   merge_findings.py --fixed PROP SIG COMMIT "what" [also,...]   add a fixed entry
   merge_findings.py --known PROP SIG "what" [also,...]          add a known entry"""
import json, sys
P = '/verif/known_findings.json'
kf = json.load(open(P))
sigs = {f['sig'] for f in kf['findings']}
def add(f):
    if f['sig'] in sigs:
        print('exists:', f['sig']); return
    if f['status'] == 'fixed':
        f['record'] = f"fixed: property={f['property']} {f['commit']} {f['what']}"
    kf['findings'].append(f); sigs.add(f['sig']); print('added:', f['status'], f['sig'])
a = sys.argv[1:]
if a[0] == '--fixed':
    add({'property': a[1], 'also': a[5].split(',') if len(a) > 5 and a[5] else [], 'status': 'fixed', 'sig': a[2], 'what': a[4], 'commit': a[3]})
elif a[0] == '--known':
    add({'property': a[1], 'also': a[4].split(',') if len(a) > 4 and a[4] else [], 'status': 'known', 'sig': a[2], 'what': a[3]})
else:
    src = json.load(open(a[0])); props = set(a[1:])
    for f in src['findings']:
        if not props or f['property'] in props:
            f.setdefault('also', [])
            add(f)
json.dump(kf, open(P, 'w'), indent=1, ensure_ascii=False)
