#!/usr/bin/env python3
"""Regenerates MANIFEST.json from the table below (kept in one place so that it stays valid)."""
import json, subprocess, os
ROOT = os.path.dirname(os.path.dirname(os.path.abspath(__file__)))
CHECKS = json.load(open(os.path.join(ROOT, "manifest_checks.json")))
props = [json.loads(l) for l in open(os.path.join(ROOT, "properties.jsonl"))]
ids = [p["id"] for p in props]
hook_commits = subprocess.run(["git", "-C", "/repo", "log", "--format=%H %s"], capture_output=True, text=True).stdout.splitlines()
hooks = [l.split()[0] for l in hook_commits if "verif-hooks" in l]
checks = []
for pid in ids:
    c = CHECKS.get(pid)
    if not c or c.get("skip"):
        continue
    checks.append({
        "property_id": pid,
        "quick_cmd": f"./check {pid} quick",
        "thorough_cmd": f"./check {pid} thorough",
        "evidence_file": f"/verif/evidence/{pid}.json",
        "replay_cmd_template": f"./check {pid} --replay {{path}}",
        "engine": "vcheck",
        "level_claimed": {"category": c["level"], "text": c["text"], "design_ref": c["design_ref"]},
        "level_note": c["note"],
        "technique": c["technique"],
    })
na = [{"property_id": pid, "reason": CHECKS.get(pid, {}).get("na_reason", "check not built yet in this round (planned, see DESIGN.md §4); not claimed until it exists")}
      for pid in ids if pid not in [c["property_id"] for c in checks]]
m = {
    "version": 1,
    "setup_cmd": "./check --setup",
    "hooks": {
        "guard": "cargo feature verif-hooks",
        "enable": "harness/Cargo.toml: default feature `hooks` = allsorts/verif-hooks; every check is built that way (only the Miri sample in C14's thorough tier is additionally built without it)",
        "baseline_off_cmd": "cd /repo && cargo test --workspace --no-fail-fast --offline",
        "source_commits": hooks,
        "add_only": True,
    },
    "engines": [
        {"name": "vcheck", "path": "/verif/harness", "serves_properties": [c["property_id"] for c in checks],
         "kind_free_text": "Rust harness: sharded proptest runners (16 worker processes, fixed seeds, shrinking, replay files), deterministic enumerations, independent font encoders (fontgen) and reference decoders/semantics (refmodel); libFuzzer targets under /verif/fuzz for the byte-level properties in the thorough tier"}
    ],
    "checks": checks,
    "not_applicable": na,
    "notes": "All checks decide by generated-input search against an explicit oracle (property-based testing / fuzzing). Known findings and fixed defects: /verif/known_findings.json. Exit 2 = inconclusive (never a VIOLATION).",
}
json.dump(m, open(os.path.join(ROOT, "MANIFEST.json"), "w"), indent=1)
print("checks:", [c["property_id"] for c in checks], "n/a:", [n["property_id"] for n in na])
