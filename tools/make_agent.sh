#!/bin/bash
# make_agent.sh <name>: private copy of the harness for a build agent under /tmp/agents/<name>
# (VERIF_ROOT=/tmp/agents/<name>; harness copy without build output; known_findings copy)
set -eu
N="$1"; D=/tmp/agents/$N
mkdir -p $D/evidence $D/replays
rsync -a --exclude target --exclude 'fuzz/target' --exclude 'fuzz/corpus' --exclude 'fuzz/artifacts' /verif/harness/ $D/harness/
cp /verif/known_findings.json /verif/properties.jsonl /verif/DESIGN.md $D/
echo $D
