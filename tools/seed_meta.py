#!/usr/bin/env python3
"""seed_meta.py <seeded dir> <property> <detected_by> <result> <needs...>: write meta.json"""
import json, sys, os
d, prop, by, res = sys.argv[1:5]
needs = " ".join(sys.argv[5:])
demo = [f for f in os.listdir(d) if f.endswith('.rs')]
meta = {
 "property": prop,
 "breaks": open(os.path.join(d, 'README.md')).read().split('\n')[0:3] if os.path.exists(os.path.join(d,'README.md')) else [],
 "needs_to_manifest": needs,
 "demonstration": demo,
 "confirmed_by_lead": "tools/confirm_seed.sh: patch applies to the unchanged tree; `cargo test --workspace --no-fail-fast --offline` keeps all 688 baseline-stable tests passing (tools/baseline_compare.py); the demo test fails with the patch and passes without it",
 "ran": f"tools/run_seeded.sh (git -C /repo apply patch.diff; ./check {by} quick with VERIF_SEED=1,2; git -C /repo checkout -- .)",
 "detected_by": by,
 "result": res,
}
json.dump(meta, open(os.path.join(d, 'meta.json'), 'w'), indent=1)
