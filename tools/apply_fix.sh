#!/bin/bash
# apply_fix.sh <diff> [<msg file>] : apply a proposed fix to /repo as one "fix:" commit (suite is run separately)
set -u
D="$1"; M="${2:-${1%.diff}.msg}"
cd /repo || exit 2
[ -z "$(git status --porcelain -- src Cargo.toml)" ] || { echo "/repo dirty"; exit 2; }
git apply --check "$D" 2>/dev/null || git apply --check -3 "$D" || { echo "DOES NOT APPLY: $D"; exit 1; }
git apply -3 "$D" || exit 1
head -1 "$M" | grep -q '^fix: ' || { echo "msg must start with fix:"; git checkout -- .; exit 1; }
git add -A src && git commit -q -F "$M" && git log --oneline -1
