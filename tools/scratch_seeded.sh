#!/bin/bash
# scratch_seeded.sh <patch dir> <ID> [tier] [seeds...]
# Like run_seeded.sh but on a scratch checkout (/tmp/seedrun/repo) and a scratch copy of /verif,
# so that /repo is not disturbed while other work builds against it.
set -u
DIR="$1"; ID="$2"; TIER="${3:-quick}"; shift 3 2>/dev/null || shift $#
SEEDS="${*:-1 2}"
P="$DIR/patch.diff"; [ -f "$DIR/patch.rebased.diff" ] && P="$DIR/patch.rebased.diff"
S=${SEEDRUN_DIR:-/tmp/seedrun}
mkdir -p $S
if [ ! -d $S/repo ]; then git -C /repo worktree add -q --detach $S/repo HEAD || exit 2; fi
git -C $S/repo reset -q --hard; git -C $S/repo checkout -q --detach "$(git -C /repo rev-parse HEAD)" || exit 2
rsync -a --delete --exclude harness/target --exclude harness/fuzz/target --exclude replays --exclude evidence --exclude .git /verif/ $S/verif/
sed -i "s#path = \"/repo\"#path = \"$S/repo\"#" $S/verif/harness/Cargo.toml
export VERIF_REPO=$S/repo
cd $S/repo || exit 2
if git apply --check "$P" 2>/dev/null; then git apply "$P"; else git apply -3 "$P" >/dev/null 2>&1 || { echo "PATCH DOES NOT APPLY: $DIR"; git reset -q --hard; exit 2; }; git reset -q; fi
RES="MISSED"
for SD in $SEEDS; do
  OUT=$(cd $S/verif && VERIF_SEED=$SD ./check "$ID" "$TIER" 2>&1); RC=$?
  echo "$OUT" | grep -E "^(VIOLATION|  sig:|  msg:|HARNESS-ERROR|INCONCLUSIVE)" | cut -c1-300 | head -9
  echo "seed $SD: exit $RC"
  if [ $RC -eq 1 ]; then RES="DETECTED"; break; fi
done
git -C $S/repo checkout -- .
echo "RESULT $ID $DIR: $RES"
