#!/bin/bash
# sweep_watch.sh <nlanes> <tagA> <tagB> <suffix>: run every newly confirmed seeded change /verif/seeded/<ID>-<tag> (tag in
# tagA..tagB) against the quick tier of its property in scratch lanes (tools/scratch_seeded.sh; /repo untouched).
# Lane l serves the properties with number % nlanes == l. Ends when the confirmation of wave <suffix> is complete
# (36 keys in /tmp/confirm/queue_<suffix>.done) and everything confirmed has a result.
NL="$1"; TA="$2"; TB="$3"; SUF="$4"
export SEED_RESULTS=/tmp/confirm/seed_results_$SUF.txt; touch $SEED_RESULTS
for l in $(seq 0 $((NL-1))); do
  (
    export SEEDRUN_DIR=/tmp/seedrun$l
    while true; do
      did=0
      for n in $(seq 1 18); do
        [ $((n % NL)) -eq $l ] || continue
        id=$(printf "C%02d" $n)
        for t in $(seq $TA $TB); do
          d=$id-$t
          [ -f /verif/seeded/$d/patch.diff ] || continue
          grep -q "seeded/$d:" $SEED_RESULTS && continue
          OUT=$(/verif/tools/scratch_seeded.sh /verif/seeded/$d $id quick 1 2 2>&1)
          echo "$OUT" > /tmp/confirm/seedrun_$d.log
          echo "$OUT" | grep "^RESULT" >> $SEED_RESULTS
          echo "$OUT" | grep -q "^RESULT" || echo "RESULT $id /verif/seeded/$d: ERROR" >> $SEED_RESULTS
          did=1
        done
      done
      if [ $did -eq 0 ]; then
        [ "$(sort -u /tmp/confirm/queue_$SUF.done | wc -l)" -ge 36 ] && break
        sleep 30
      fi
    done
  ) &
done
wait
echo "sweep done" >> $SEED_RESULTS
