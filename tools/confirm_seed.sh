#!/bin/bash
# confirm_seed.sh <worktree> <k> <ID> : confirm mutation_k of a seed worktree myself, then store it
# under /verif/seeded/<ID>-<tag>/ . Steps: patch applies; full suite same stable passes as baseline;
# demo fails with the patch; demo passes without it.
set -u
WT="$1"; K="$2"; ID="$3"
M="$WT/mutation_$K"
DEMO=$(ls "$M"/*.rs 2>/dev/null | head -1)
[ -f "$M/patch.diff" ] && [ -n "$DEMO" ] || { echo "missing patch/demo in $M"; exit 2; }
DEMONAME=$(basename "$DEMO" .rs)
cd "$WT" || exit 2
git checkout -q -- src
cp "$DEMO" tests/$DEMONAME.rs
export CARGO_NET_OFFLINE=true
# without the patch: demo passes
cargo test --offline --test $DEMONAME > /tmp/confirm_${ID}_$K.nopatch.log 2>&1; RC0=$?
git apply --check "$M/patch.diff" || { echo "patch does not apply"; exit 2; }
git apply "$M/patch.diff"
cargo test --workspace --no-fail-fast --offline > /tmp/confirm_${ID}_$K.suite.log 2>&1
python3 /verif/tools/baseline_compare.py /tmp/confirm_${ID}_$K.suite.log > /tmp/confirm_${ID}_$K.cmp 2>&1; RCS=$?
cargo test --offline --test $DEMONAME > /tmp/confirm_${ID}_$K.patch.log 2>&1; RC1=$?
git checkout -q -- src
echo "confirm $ID mutation_$K: demo_without_patch_rc=$RC0 suite_baseline_rc=$RCS ($(head -1 /tmp/confirm_${ID}_$K.cmp)) demo_with_patch_rc=$RC1"
if [ $RC0 -eq 0 ] && [ $RCS -eq 0 ] && [ $RC1 -ne 0 ]; then
  N=$(ls -d /verif/seeded/$ID-* 2>/dev/null | wc -l); TAG=$((N+1))
  OUT=/verif/seeded/$ID-$TAG; mkdir -p $OUT
  cp "$M/patch.diff" $OUT/patch.diff; cp "$DEMO" $OUT/; cp "$M/README.md" $OUT/README.md 2>/dev/null
  echo "CONFIRMED -> $OUT"
else
  echo "NOT CONFIRMED"
fi
