#!/bin/bash
# seed_sweep.sh <lane> <dir:ID> ... : run seeded changes in scratch lane /tmp/seedrun<lane>; append results to ${SEED_RESULTS:-/tmp/confirm/seed_results.txt}
LANE="$1"; shift
export SEEDRUN_DIR=/tmp/seedrun$LANE
for x in "$@"; do d=${x%%:*}; id=${x##*:}
  OUT=$(/verif/tools/scratch_seeded.sh /verif/seeded/$d $id quick 1 2 2>&1)
  echo "$OUT" > /tmp/confirm/seedrun_$d.log
  echo "$OUT" | grep "^RESULT" >> ${SEED_RESULTS:-/tmp/confirm/seed_results.txt}
done
