#!/bin/bash
# coverage.sh [scale] : source-coverage measurement of /repo/src under the quick tier of every check.
# Builds the harness with -C instrument-coverage (nightly, its llvm-tools) into /tmp/covbuild, runs every property's quick
# tier (VERIF_SCALE, default 0.2) with a scratch VERIF_ROOT, merges the profiles and writes
#   /tmp/covrun/summary.txt      per-file line/function/region coverage of /repo/src
#   /tmp/covrun/uncovered_fns.txt  functions of /repo/src never executed by any check
# A measuring aid for directing generators (DESIGN §8.14); not part of any registered check.
set -u
SCALE="${1:-0.2}"
TB=$HOME/.rustup/toolchains/nightly-x86_64-unknown-linux-gnu/lib/rustlib/x86_64-unknown-linux-gnu/bin
OUT=/tmp/covrun; rm -rf $OUT; mkdir -p $OUT/prof $OUT/root/evidence $OUT/root/replays
cp /verif/known_findings.json /verif/properties.jsonl $OUT/root/
cd /verif/harness || exit 2
export CARGO_NET_OFFLINE=true
RUSTFLAGS="-C instrument-coverage" cargo +nightly build --release --offline --target-dir /tmp/covbuild > $OUT/build.log 2>&1 || { tail -20 $OUT/build.log; exit 2; }
BIN=/tmp/covbuild/release/vcheck
for n in $(seq 1 18); do
  id=$(printf "C%02d" $n)
  LLVM_PROFILE_FILE="$OUT/prof/$id-%p-%m.profraw" VERIF_ROOT=$OUT/root VERIF_SCALE=$SCALE VERIF_REPO=/repo VERIF_JOBS=${VERIF_JOBS:-8} \
    $BIN run $id --tier quick --seed 1 > $OUT/run-$id.log 2>&1
  echo "$id exit $?" >> $OUT/runs.txt
  $TB/llvm-profdata merge -sparse $OUT/prof/$id-*.profraw -o $OUT/$id.profdata 2>/dev/null && rm -f $OUT/prof/$id-*.profraw
done
$TB/llvm-profdata merge -sparse $OUT/C*.profdata -o $OUT/all.profdata
$TB/llvm-cov report $BIN -instr-profile=$OUT/all.profdata --ignore-filename-regex='(\.cargo|rustc|/verif/|/tmp/)' > $OUT/summary.txt 2>$OUT/cov.err
$TB/llvm-cov export $BIN -instr-profile=$OUT/all.profdata -format=text --ignore-filename-regex='(\.cargo|rustc|/verif/|/tmp/)' 2>>$OUT/cov.err \
  | python3 -c '
import json,sys
d=json.load(sys.stdin)
out=[]
for f in d["data"][0]["functions"]:
    if f["count"]==0 and any("/repo/src" in x for x in f["filenames"]):
        out.append((f["filenames"][0], f["regions"][0][0], f["name"]))
seen=set()
for fn,line,name in sorted(out):
    k=(fn,line)
    if k in seen: continue
    seen.add(k); print(f"{fn}:{line} {name[:160]}")
' > $OUT/uncovered_fns_raw.txt
echo done
