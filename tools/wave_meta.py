#!/usr/bin/env python3
"""wave_meta.py <needs.json> <tagbase> <results...>: write seeded/<ID>-<tagbase+k>/meta.json for one wave from the needs list
(keys "<ID>:<k>") and RESULT lines of tools/scratch_seeded.sh (later files override earlier ones; a result for another
check than the change's own property is recorded as detected_by that check)."""
import json, sys, os, re, subprocess
needs = json.load(open(sys.argv[1])); base = int(sys.argv[2])
res = {}
for f in sys.argv[3:]:
    if not os.path.exists(f): continue
    for l in open(f):
        m = re.match(r'RESULT (\S+) /verif/seeded/(\S+): (\S+)', l)
        if m:
            chk, d, r = m.groups()
            if r == 'DETECTED' or d not in res or res[d][1] != 'DETECTED':
                res[d] = (chk, r)
notes = json.load(open('/verif/tools/wave_notes.json')) if os.path.exists('/verif/tools/wave_notes.json') else {}
for key, need in needs.items():
    pid, k = key.split(':'); d = f"{pid}-{base+int(k)}"; path = f"/verif/seeded/{d}"
    if not os.path.isdir(path): continue
    chk, r = res.get(d, (pid, 'NOT RUN in this session (sweep unfinished)'))
    if d in notes: r = f"{r} — {notes[d]}"
    subprocess.run(['python3', '/verif/tools/seed_meta.py', path, pid, chk, r, need], check=True)
    m = json.load(open(f"{path}/meta.json"))
    m["confirmed_by_lead"] = "tools/confirm_par.sh -> tools/confirm_seed.sh in the agent's scratch worktree: patch applies; `cargo test --workspace --no-fail-fast --offline` keeps all 688 baseline-stable tests passing (tools/baseline_compare.py); the demo test fails with the patch and passes without it"
    m["ran"] = "tools/scratch_seeded.sh (scratch worktree of /repo HEAD + scratch copy of /verif: git apply patch; ./check <ID> quick with VERIF_SEED=1, then 2; discard)"
    json.dump(m, open(f"{path}/meta.json", 'w'), indent=1)
print(sorted((d, v[1]) for d, v in res.items()))
