#!/bin/bash
# run_seeded.sh <seeded dir with patch.diff> <ID> [tier] [seeds...]
# Applies the seeded change to /repo, runs the check of <ID>, restores /repo. Prints DETECTED / MISSED.
set -u
DIR="$1"; ID="$2"; TIER="${3:-quick}"; shift 3 2>/dev/null || shift $#
SEEDS="${*:-1 2}"
P="$DIR/patch.diff"; [ -f "$DIR/patch.rebased.diff" ] && P="$DIR/patch.rebased.diff"
cd /repo || exit 2
if [ -n "$(git status --porcelain -- src Cargo.toml)" ]; then echo "/repo has uncommitted changes; refusing"; exit 2; fi
git apply --check "$P" || { echo "PATCH DOES NOT APPLY: $DIR"; exit 2; }
git apply "$P"
RES="MISSED"
for S in $SEEDS; do
  OUT=$(cd /verif && VERIF_SEED=$S ./check "$ID" "$TIER" 2>&1); RC=$?
  echo "$OUT" | grep -E "^(VIOLATION|  sig:|HARNESS-ERROR|INCONCLUSIVE)" | head -8
  echo "seed $S: exit $RC"
  if [ $RC -eq 1 ]; then RES="DETECTED"; break; fi
done
git -C /repo checkout -- . 
echo "RESULT $ID $(basename "$DIR"): $RES"
