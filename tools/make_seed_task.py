#!/usr/bin/env python3
"""make_seed_task.py <ID> <suffix>: create worktree /tmp/seed/<ID>-<suffix> and write TASK.md there
(only the property's own text and anchors; nothing from /verif's machinery)."""
import json, sys, subprocess, os
pid, suf = sys.argv[1], sys.argv[2]
wt = f"/tmp/seed/{pid}-{suf}"
p = [json.loads(l) for l in open('/verif/properties.jsonl') if json.loads(l)['id'] == pid][0]
if not os.path.exists(wt):
    subprocess.run(["git", "-C", "/repo", "worktree", "add", "-q", "--detach", wt, "HEAD"], check=True)
tmpl = open('/verif/tools/seed_prompt.txt').read()
text = f"\"{p['title']}. {p['statement']} (Quantified over: {p['quantifier']['text']})\"\n\nRelevant code: {', '.join(p['anchors']['files'])}. (There is a cargo feature `verif-hooks` that adds assertions to read_unchecked_* in src/binary/read.rs; leave that feature's code alone.)"
extra = sys.argv[3] if len(sys.argv) > 3 else ""
task = tmpl.replace("WORKTREE", wt).replace("PROPERTY_TEXT", text) + ("\n" + extra + "\n" if extra else "")
open(os.path.join(wt, "TASK.md"), "w").write(task)
print(wt)
