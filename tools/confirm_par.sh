#!/bin/bash
# confirm_par.sh <suffix>: like confirm_queue.sh but one confirmation lane per worktree (lanes run in parallel;
# tags are allocated per property id, so lanes never collide). A worktree is picked up once its agent has left
# both mutation directories and a clean src/, and nothing under it changed for 3 minutes.
SUF="$1"; mkdir -p /tmp/confirm; DONE=/tmp/confirm/queue_$SUF.done; touch $DONE
for wt in /tmp/seed/*-$SUF; do
  (
    id=$(basename $wt | cut -d- -f1)
    while true; do
      if [ -f $wt/mutation_1/patch.diff ] && [ -f $wt/mutation_2/patch.diff ] && [ -f $wt/mutation_2/README.md ] && [ -f $wt/mutation_1/README.md ] \
         && [ -z "$(git -C $wt status --porcelain -- src)" ] \
         && [ -z "$(find $wt/mutation_1 $wt/mutation_2 $wt/tests $wt/src -newermt '-3 minutes' -print -quit 2>/dev/null)" ]; then break; fi
      sleep 30
    done
    for k in 1 2; do
      grep -q "^$id:$k$" $DONE && continue
      export CARGO_BUILD_JOBS=4
      /verif/tools/confirm_seed.sh $wt $k $id >> /tmp/confirm/lane_$id.log 2>&1
      echo "$id:$k" >> $DONE
    done
  ) &
done
wait
echo "all lanes done" >> /tmp/confirm/queue_$SUF.log
