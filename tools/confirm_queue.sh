#!/bin/bash
# confirm_queue.sh <suffix>: poll /tmp/seed/*-<suffix>/mutation_{1,2} and confirm each exactly once (sequentially).
# A mutation is picked up once its agent has left README.md + patch.diff and restored src/ (git diff empty).
SUF="$1"; LOG=/tmp/confirm/queue_$SUF.log; DONE=/tmp/confirm/queue_$SUF.done; touch $DONE
while true; do
  any=0
  for wt in /tmp/seed/*-$SUF; do
    id=$(basename $wt | cut -d- -f1)
    for k in 1 2; do
      key="$id:$k"
      grep -q "^$key$" $DONE && continue
      any=1
      [ -f $wt/mutation_$k/patch.diff ] && [ -f $wt/mutation_$k/README.md ] || continue
      # only when both mutations are there (agent finished) and src is clean
      [ -f $wt/mutation_2/README.md ] || continue
      [ -z "$(git -C $wt status --porcelain -- src)" ] || continue
      # the agent may still be wrapping up: wait until nothing under the worktree changed for 5 minutes
      [ -z "$(find $wt/mutation_1 $wt/mutation_2 $wt/tests $wt/src -newermt "-5 minutes" -print -quit 2>/dev/null)" ] || continue
      /verif/tools/confirm_seed.sh $wt $k $id >> $LOG 2>&1
      echo "$key" >> $DONE
    done
  done
  [ $any -eq 0 ] && break
  sleep 30
done
echo "queue done" >> $LOG
