#!/usr/bin/env python3
"""coverage_report.py <llvm-cov export json>: functions of /repo/src that no instantiation of which was executed,
and per-file line coverage, sorted by uncovered lines. (Used with tools/coverage.sh; a measuring aid, DESIGN §8.14.)"""
import json, sys, collections
d = json.load(open(sys.argv[1]))["data"][0]
fn = collections.defaultdict(lambda: [0, None, 0])  # (file,line) -> [count, name, regions]
for f in d["functions"]:
    file = f["filenames"][0]
    if "/repo/src" not in file: continue
    k = (file, f["regions"][0][0])
    fn[k][0] += f["count"]; fn[k][1] = f["name"]; fn[k][2] = max(fn[k][2], f["regions"][0][2] - f["regions"][0][0] + 1)
print("# files by uncovered lines")
rows = []
for f in d["files"]:
    if "/repo/src" not in f["filename"]: continue
    s = f["summary"]["lines"]
    rows.append((s["count"] - s["covered"], s["count"], s["percent"], f["filename"].split("/repo/")[1]))
tot = sum(r[1] for r in rows); unc = sum(r[0] for r in rows)
print(f"total lines {tot} uncovered {unc} ({100*(tot-unc)/tot:.1f} % covered)")
for r in sorted(rows, reverse=True)[:60]:
    print(f"{r[0]:6d} of {r[1]:6d} uncovered ({r[2]:5.1f} % covered) {r[3]}")
print("# functions never executed (all instantiations), longest first")
out = [(v[2], k[0].split('/repo/')[1], k[1], v[1]) for k, v in fn.items() if v[0] == 0]
import re
def dem(n):
    return n
for ln, file, line, name in sorted(out, reverse=True):
    print(f"{ln:4d} lines {file}:{line} {name[:120]}")
