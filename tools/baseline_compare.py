#!/usr/bin/env python3
"""Compare a `cargo test --workspace --no-fail-fast --offline` log with BASELINE.json stable_pass."""
import json, re, sys
log = open(sys.argv[1]).read().splitlines()
base = json.load(open('/root/.vp/BASELINE.json'))
stable = set(base['stable_pass'])
target = None
passed, failed = set(), set()
for l in log:
    m = re.match(r'\s*Running (unittests )?(\S+)', l)
    if m:
        p = m.group(2)
        if p.startswith('src/'):
            target = None
        else:
            target = re.sub(r'\.rs$', '', p.split('/')[-1])
        continue
    if 'Doc-tests' in l:
        target = '__doc__'
    m = re.match(r'test (\S+) \.\.\. (ok|FAILED|ignored)', l)
    if m and target != '__doc__':
        name = 'allsorts::' + (target + '::' if target else '') + m.group(1)
        (passed if m.group(2) == 'ok' else failed if m.group(2) == 'FAILED' else set()).add(name)
missing = sorted(stable - passed)
print(f"stable_pass={len(stable)} passed_now={len(passed & stable)} missing={len(missing)} failed_total={len(failed)}")
for m_ in missing[:40]:
    print("  MISSING/FAILED:", m_)
sys.exit(1 if missing else 0)
