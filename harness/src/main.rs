use std::path::PathBuf;
use vcheck::engine::{ctx::Mode, parent, Tier, NSHARDS};

fn usage() -> ! {
    eprintln!(
        "usage: vcheck run <ID> [--tier quick|thorough] [--seed N]\n       vcheck replay <file>\n       vcheck list\n       (internal) vcheck worker|single ..."
    );
    std::process::exit(2)
}

fn arg_val(args: &[String], name: &str) -> Option<String> {
    args.iter()
        .position(|a| a == name)
        .and_then(|i| args.get(i + 1).cloned())
}

fn main() {
    let args: Vec<String> = std::env::args().skip(1).collect();
    if args.is_empty() {
        usage();
    }
    let env_seed = std::env::var("VERIF_SEED")
        .ok()
        .and_then(|s| s.parse::<u64>().ok().or_else(|| s.parse::<i64>().ok().map(|v| v as u64)));
    let env_tier = std::env::var("VERIF_TIER").ok().and_then(|s| Tier::parse(&s));
    match args[0].as_str() {
        "list" => {
            for p in vcheck::props::all() {
                println!("{}", p.id());
            }
        }
        "run" => {
            let id = args.get(1).cloned().unwrap_or_else(|| usage());
            let prop = vcheck::props::find(&id).unwrap_or_else(|| {
                eprintln!("unknown property {}", id);
                std::process::exit(2)
            });
            let tier = arg_val(&args, "--tier")
                .and_then(|s| Tier::parse(&s))
                .or(env_tier)
                .unwrap_or(Tier::Quick);
            let seed = arg_val(&args, "--seed")
                .and_then(|s| s.parse().ok())
                .or(env_seed)
                .unwrap_or(0);
            let out = parent::run_parent(prop, tier, seed);
            std::process::exit(out.exit_code);
        }
        "worker" | "single" => {
            let id = args.get(1).cloned().unwrap_or_else(|| usage());
            let prop = vcheck::props::find(&id).unwrap_or_else(|| std::process::exit(2));
            let tier = arg_val(&args, "--tier")
                .and_then(|s| Tier::parse(&s))
                .unwrap_or(Tier::Quick);
            let seed = arg_val(&args, "--seed").and_then(|s| s.parse().ok()).unwrap_or(0);
            let pair = |s: String| -> (u64, u64) {
                let mut it = s.split(':');
                let a = it.next().and_then(|x| x.parse().ok()).unwrap_or(0);
                let b = it.next().and_then(|x| x.parse().ok()).unwrap_or(0);
                (a, b)
            };
            if args[0] == "worker" {
                let shard: u32 = arg_val(&args, "--shard").and_then(|s| s.parse().ok()).unwrap_or(0);
                let resume = arg_val(&args, "--resume").map(pair);
                let out = arg_val(&args, "--out").map(PathBuf::from);
                let marker = arg_val(&args, "--marker").map(PathBuf::from);
                let code = parent::worker_main(
                    prop,
                    tier,
                    seed,
                    Mode::Shard { shard, nshards: NSHARDS, resume },
                    false,
                    out.as_deref(),
                    marker.as_deref(),
                );
                std::process::exit(code);
            } else {
                let (ord, idx) = pair(arg_val(&args, "--case").unwrap_or_else(|| usage()));
                let code = parent::worker_main(
                    prop,
                    tier,
                    seed,
                    Mode::Single { section_ord: ord, index: idx },
                    true,
                    None,
                    None,
                );
                std::process::exit(code);
            }
        }
        "replay-bytes" => {
            // vcheck replay-bytes <target> <file>: classify a libFuzzer artefact (strict)
            let target = args.get(1).cloned().unwrap_or_else(|| usage());
            let file = args.get(2).cloned().unwrap_or_else(|| usage());
            let prop = vcheck::props::fuzz_target_property(&target).unwrap_or("?");
            let data = std::fs::read(&file).unwrap_or_else(|e| {
                eprintln!("cannot read {}: {}", file, e);
                std::process::exit(2)
            });
            vcheck::engine::panics::install_hook();
            match vcheck::props::fuzz_eval(&target, &data) {
                None => {
                    println!("replay-bytes: input not decodable for target {} (passes trivially)", target);
                }
                Some(Ok(())) => println!("replay-bytes: case passes"),
                Some(Err(f)) => {
                    let known = vcheck::engine::known::known_for(prop);
                    if known.contains_key(&f.sig) {
                        println!("replay-bytes: known finding {}", f.sig);
                    } else if f.sig.starts_with("harness-panic:") {
                        println!("HARNESS-ERROR: {} {}", f.sig, f.msg);
                        std::process::exit(2);
                    } else {
                        println!("VIOLATION property={} replay={}", prop, file);
                        println!("  sig: {}", f.sig);
                        println!("  msg: {}", f.msg);
                        std::process::exit(1);
                    }
                }
            }
        }
        "miri-c14" => {
            // vcheck miri-c14 <from> <to> <seed>: cases [from, to) of C14's section `ops` (same generator, same
            // per-case RNG seeds, same oracle as `vcheck run C14`), evaluated in-process and strictly. Meant to
            // be executed by `cargo +nightly miri run` in a build WITHOUT the bounds-assertion hook, so that an
            // out-of-bounds unchecked read is reported by Miri itself (harness/miri_c14.sh).
            // Building a proptest value tree costs Miri ~40 s per case, so the sample is decoded with C14's
            // structure-aware byte decoder (the one the libFuzzer target uses) from a byte tape that is a pure
            // function of (VERIF_SEED, index): SplitMix64 over the engine's per-case seed.
            use std::io::Write;
            let num = |i: usize| -> u64 { args.get(i).and_then(|s| s.parse().ok()).unwrap_or_else(|| usage()) };
            let (from, to, seed) = (num(1), num(2), num(3));
            vcheck::engine::panics::install_hook();
            let mut nontrivial = 0u64;
            for idx in from..to {
                println!("MIRI-CASE {}", idx);
                let _ = std::io::stdout().flush();
                let cs = vcheck::engine::ctx::case_seed_for("C14", seed, "miri-ops", idx);
                let mut x = u64::from_le_bytes(cs[..8].try_into().unwrap());
                let mut next = || {
                    x = x.wrapping_add(0x9E3779B97F4A7C15);
                    let mut z = x;
                    z = (z ^ (z >> 30)).wrapping_mul(0xBF58476D1CE4E5B9);
                    z = (z ^ (z >> 27)).wrapping_mul(0x94D049BB133111EB);
                    z ^ (z >> 31)
                };
                let len = 24 + (next() % 200) as usize;
                let mut tape = Vec::with_capacity(len + 8);
                while tape.len() < len {
                    tape.extend_from_slice(&next().to_le_bytes());
                }
                tape.truncate(len);
                let case = match vcheck::props::c14::case_from_bytes(&tape) {
                    Ok(c) => c,
                    Err(_) => continue,
                };
                let mut nt = false;
                let r = vcheck::engine::fuzz::eval_case(|rec| {
                    let r = vcheck::props::c14::check_case(&case, rec);
                    nt = rec.is_nontrivial();
                    r
                });
                if nt {
                    nontrivial += 1;
                }
                if let Err(f) = r {
                    println!("MIRI-FAIL {} sig={} msg={}", idx, f.sig, f.msg.replace('\n', " "));
                    std::process::exit(1);
                }
            }
            println!("MIRI-DONE cases={} nontrivial={}", to.saturating_sub(from), nontrivial);
        }
        "replay" => {
            let f = args.get(1).cloned().unwrap_or_else(|| usage());
            std::process::exit(parent::replay(&PathBuf::from(f)));
        }
        _ => usage(),
    }
}
