//! Access to the repository's fixture fonts (read at run time from $VERIF_REPO/tests).

use std::path::PathBuf;

pub fn tests_dir() -> PathBuf {
    PathBuf::from(super::panics::repo_root()).join("tests")
}

/// Read a fixture by path relative to `$VERIF_REPO/tests` (e.g. "fonts/opentype/Klei.otf").
/// Returns None for missing or emptied fixtures.
pub fn read(rel: &str) -> Option<Vec<u8>> {
    let b = std::fs::read(tests_dir().join(rel)).ok()?;
    if b.is_empty() {
        None
    } else {
        Some(b)
    }
}

/// All non-empty files under `$VERIF_REPO/tests/<rel_dir>` (recursively) whose extension is
/// one of `exts`, at most `max_len` bytes, sorted by path (deterministic).
pub fn list(rel_dir: &str, exts: &[&str], max_len: u64) -> Vec<String> {
    fn walk(dir: &std::path::Path, base: &std::path::Path, exts: &[&str], max_len: u64, out: &mut Vec<String>) {
        let mut entries: Vec<_> = match std::fs::read_dir(dir) {
            Ok(r) => r.filter_map(|e| e.ok()).collect(),
            Err(_) => return,
        };
        entries.sort_by_key(|e| e.path());
        for e in entries {
            let p = e.path();
            if p.is_dir() {
                walk(&p, base, exts, max_len, out);
            } else if let Some(ext) = p.extension().and_then(|x| x.to_str()) {
                if exts.iter().any(|x| x.eq_ignore_ascii_case(ext)) {
                    if let Ok(md) = p.metadata() {
                        if md.len() > 0 && md.len() <= max_len {
                            if let Ok(rel) = p.strip_prefix(base) {
                                out.push(rel.to_string_lossy().to_string());
                            }
                        }
                    }
                }
            }
        }
    }
    let base = tests_dir();
    let mut out = Vec::new();
    walk(&base.join(rel_dir), &base, exts, max_len, &mut out);
    out
}
