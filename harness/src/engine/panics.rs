//! Panic capture and panic-site signatures.

use std::cell::RefCell;
use std::collections::HashMap;
use std::sync::Mutex;

#[derive(Clone, Debug)]
pub struct PanicInfo {
    pub file: String,
    pub line: u32,
    pub msg: String,
}

thread_local! {
    static LAST: RefCell<Option<PanicInfo>> = const { RefCell::new(None) };
    static QUIET: RefCell<bool> = const { RefCell::new(false) };
}

pub fn install_hook() {
    let default = std::panic::take_hook();
    std::panic::set_hook(Box::new(move |info| {
        let (file, line) = info
            .location()
            .map(|l| (l.file().to_string(), l.line()))
            .unwrap_or_else(|| ("<unknown>".to_string(), 0));
        let msg = if let Some(s) = info.payload().downcast_ref::<&str>() {
            s.to_string()
        } else if let Some(s) = info.payload().downcast_ref::<String>() {
            s.clone()
        } else {
            "<non-string panic payload>".to_string()
        };
        let quiet = QUIET.with(|q| *q.borrow());
        LAST.with(|l| *l.borrow_mut() = Some(PanicInfo { file, line, msg }));
        if !quiet {
            default(info);
        }
    }));
}

pub fn set_quiet(q: bool) {
    QUIET.with(|c| *c.borrow_mut() = q);
}

pub fn take_last() -> Option<PanicInfo> {
    LAST.with(|l| l.borrow_mut().take())
}

pub fn repo_root() -> String {
    std::env::var("VERIF_REPO").unwrap_or_else(|_| "/repo".to_string())
}

pub fn harness_root() -> String {
    std::env::var("VERIF_HARNESS").unwrap_or_else(|_| env!("CARGO_MANIFEST_DIR").to_string())
}

static SRC_CACHE: Mutex<Option<HashMap<String, Option<Vec<String>>>>> = Mutex::new(None);

fn source_line(path: &str, line: u32) -> Option<String> {
    let mut g = SRC_CACHE.lock().unwrap();
    let map = g.get_or_insert_with(HashMap::new);
    let entry = map.entry(path.to_string()).or_insert_with(|| {
        std::fs::read_to_string(path)
            .ok()
            .map(|s| s.lines().map(|l| l.to_string()).collect())
    });
    entry
        .as_ref()
        .and_then(|ls| ls.get((line as usize).checked_sub(1)?).cloned())
}

/// Name of the enclosing `fn` of a line (nearest preceding line containing "fn ").
fn enclosing_fn(path: &str, line: u32) -> Option<String> {
    let g = SRC_CACHE.lock().unwrap();
    let ls = g.as_ref()?.get(path)?.as_ref()?;
    let mut i = (line as usize).min(ls.len());
    while i > 0 {
        i -= 1;
        let l = &ls[i];
        if let Some(p) = l.find("fn ") {
            let before = &l[..p];
            if before.trim_start().starts_with("//") {
                continue;
            }
            let rest = &l[p + 3..];
            let name: String = rest
                .chars()
                .take_while(|c| c.is_alphanumeric() || *c == '_')
                .collect();
            if !name.is_empty() {
                return Some(name);
            }
        }
    }
    None
}

pub enum Origin {
    /// panic inside the library under test (or one of its dependencies)
    Library,
    /// panic inside the verification harness itself: a harness bug, never a violation
    Harness,
}

/// Classify a panic and compute its signature:
/// `panic:<file relative to repo>:<enclosing fn>:<trimmed source text of the line>`.
pub fn signature(p: &PanicInfo) -> (Origin, String) {
    let f = p.file.as_str();
    let is_harness_path = |rel: &str| {
        rel.starts_with("src/engine/")
            || rel.starts_with("src/fontgen/")
            || rel.starts_with("src/refmodel/")
            || rel.starts_with("src/props/")
            || rel == "src/main.rs"
            || rel.starts_with("fuzz_targets/")
    };
    // path dependencies / the crate itself are compiled with relative paths
    if !f.starts_with('/') {
        if is_harness_path(f) {
            return (Origin::Harness, format!("harness-panic:{}:{}", f, p.line));
        }
        let full = format!("{}/{}", repo_root(), f);
        if let Some(text) = source_line(&full, p.line) {
            let func = enclosing_fn(&full, p.line).unwrap_or_default();
            return (
                Origin::Library,
                format!("panic:{}:{}:{}", f, func, text.trim()),
            );
        }
        return (Origin::Library, format!("panic:{}:{}", f, p.line));
    }
    let hr = harness_root();
    if let Some(rel) = f.strip_prefix(&format!("{}/", hr)) {
        return (Origin::Harness, format!("harness-panic:{}:{}", rel, p.line));
    }
    let rr = repo_root();
    if let Some(rel) = f.strip_prefix(&format!("{}/", rr)) {
        if let Some(text) = source_line(f, p.line) {
            let func = enclosing_fn(f, p.line).unwrap_or_default();
            return (
                Origin::Library,
                format!("panic:{}:{}:{}", rel, func, text.trim()),
            );
        }
    }
    // a dependency (registry path) or the standard library
    let short = match f.find("/registry/src/") {
        Some(i) => {
            let rest = &f[i + "/registry/src/".len()..];
            rest.splitn(2, '/').nth(1).unwrap_or(rest).to_string()
        }
        None => f.to_string(),
    };
    if let Some(text) = source_line(f, p.line) {
        (
            Origin::Library,
            format!("panic:dep:{}:{}", short, text.trim()),
        )
    } else {
        (Origin::Library, format!("panic:dep:{}:{}", short, p.line))
    }
}
