//! Per-process execution context: runs the cases of each section that belong to this shard.

use super::known::Finding;
use super::panics::{self, Origin};
use super::util::{fnv1a, mix64, truncate};
use super::{alloc, marker, CaseResult, Fail, SectionStat, ShardReport, Tier, ViolationRec};
use proptest::strategy::{Strategy, ValueTree};
use proptest::test_runner::{Config, RngAlgorithm, TestCaseError, TestError, TestRng, TestRunner};
use std::cell::RefCell;
use std::collections::{HashMap, HashSet};
use std::fmt::Debug;
use std::panic::{catch_unwind, AssertUnwindSafe};
use std::path::PathBuf;

const HASH_CAP: usize = 3_000_000;
const SAMPLES_PER_SECTION: usize = 2;
const MAX_DISTINCT_VIOLATIONS: usize = 6;

#[derive(Clone, Debug)]
pub enum Mode {
    /// run every case whose index ≡ shard (mod nshards); optionally resume at (section ordinal, index)
    Shard {
        shard: u32,
        nshards: u32,
        resume: Option<(u64, u64)>,
    },
    /// run exactly one case (replay, solo re-run of a suspected hang, pin-pointing an abort)
    Single { section_ord: u64, index: u64 },
}

/// What a case body records about the case it ran.
pub struct Rec {
    pub(crate) nontrivial: bool,
    pub(crate) classes: Vec<String>,
    pub(crate) hash: Option<u64>,
    pub(crate) want_sample: bool,
    pub(crate) sample: Option<String>,
    pub(crate) artefacts: Vec<(String, Vec<u8>)>,
    pub(crate) extra_evals: u64,
}

impl Rec {
    fn new(want_sample: bool) -> Rec {
        Rec {
            nontrivial: false,
            classes: Vec::new(),
            hash: None,
            want_sample,
            sample: None,
            artefacts: Vec::new(),
            extra_evals: 0,
        }
    }
    /// a recorder for libFuzzer targets / byte replays (nothing is accounted)
    pub fn for_fuzz() -> Rec {
        Rec::new(false)
    }
    /// mark the case as non-trivial by the property's stated rule
    pub fn nontrivial(&mut self) {
        self.nontrivial = true;
    }
    pub fn set_nontrivial(&mut self, b: bool) {
        self.nontrivial = b;
    }
    pub fn is_nontrivial(&self) -> bool {
        self.nontrivial
    }
    /// classification label (histogram in the evidence)
    pub fn class(&mut self, c: &str) {
        if self.classes.len() < 64 {
            self.classes.push(c.to_string());
        }
    }
    pub fn class_if(&mut self, cond: bool, c: &str) {
        if cond {
            self.class(c);
        }
    }
    /// content hash used for distinctness (default: hash of the Debug rendering of the case)
    pub fn hash_bytes(&mut self, b: &[u8]) {
        self.hash = Some(match self.hash {
            None => fnv1a(b),
            Some(h) => super::util::fnv1a_extend(h, b),
        });
    }
    pub fn hash_u64(&mut self, v: u64) {
        self.hash_bytes(&v.to_le_bytes());
    }
    /// a compact rendering of the case for the evidence file (only evaluated when wanted)
    pub fn sample(&mut self, f: impl FnOnce() -> String) {
        if self.want_sample && self.sample.is_none() {
            self.sample = Some(f());
        }
    }
    /// concrete artefact (font bytes, ...) stored in the replay file if this case fails
    pub fn artefact(&mut self, name: &str, bytes: &[u8]) {
        if self.artefacts.len() < 8 {
            self.artefacts.push((name.to_string(), bytes.to_vec()));
        }
    }
    /// arm the allocation guard (DESIGN §3.2) for the rest of this case
    pub fn guard_alloc(&mut self, input_len: usize) {
        alloc::arm(input_len);
    }
    /// the case performed `n` additional oracle evaluations (probes) beyond the case itself
    pub fn evaluations(&mut self, n: u64) {
        self.extra_evals += n;
    }
}

pub struct Ctx {
    pub prop: String,
    pub tier: Tier,
    pub seed: u64,
    pub mode: Mode,
    /// strict: known findings are not tolerated (replay)
    pub strict: bool,
    known: HashMap<String, Finding>,
    pub report: ShardReport,
    hashes: HashSet<u64>,
    section_ord: u64,
    replay_dir: PathBuf,
    viol_index: HashMap<String, usize>,
    /// Single mode: outcome of the one case
    pub single_outcome: Option<CaseResult>,
    pub single_found: bool,
    pub max_shrink_iters: u32,
    /// scale factor applied to every section's case count (VERIF_SCALE, default 1.0)
    scale: f64,
    /// where to flush a partial report (so that a worker death does not lose earlier results)
    partial_out: Option<PathBuf>,
    since_flush: std::cell::Cell<u64>,
}

/// measured: wall seconds of the unboosted quick tier on 16 idle cores -> multiplier
fn quick_boost(prop: &str) -> f64 {
    match prop {
        "C01" => 1.0,
        "C02" => 6.0,
        "C03" => 12.0,
        "C04" => 5.0,
        "C05" => 8.0,
        "C06" => 8.0,
        "C07" => 7.0,
        "C08" => 24.0,
        "C09" => 8.0,
        "C10" => 9.0,
        "C11" => 18.0,
        "C12" => 12.0,
        "C13" => 30.0,
        "C14" => 1.5,
        "C15" => 15.0,
        "C16" => 10.0,
        "C17" => 24.0,
        "C18" => 14.0,
        _ => 1.0,
    }
}

/// measured on a loaded machine: wall seconds of the unboosted thorough tier -> multiplier, aiming
/// at roughly 10-20 minutes of fixed work per property on 16 cores
fn thorough_boost(prop: &str) -> f64 {
    match prop {
        "C13" => 10.0,
        "C17" => 15.0,
        "C05" => 5.0,
        "C06" => 5.0,
        "C08" => 8.0,
        "C10" => 10.0,
        "C11" => 15.0,
        "C12" => 15.0,
        "C16" => 15.0,
        "C18" => 15.0,
        "C15" => 5.0,
        "C07" => 5.0,
        "C09" => 8.0,
        "C04" => 3.0,
        _ => 1.0,
    }
}

impl Ctx {
    pub fn new(prop: &str, tier: Tier, seed: u64, mode: Mode, strict: bool) -> Ctx {
        let known = if strict {
            HashMap::new()
        } else {
            super::known::known_for(prop)
        };
        let shard = match &mode {
            Mode::Shard { shard, .. } => *shard,
            _ => 0,
        };
        let scale = std::env::var("VERIF_SCALE")
            .ok()
            .and_then(|s| s.parse::<f64>().ok())
            .unwrap_or(1.0);
        Ctx {
            prop: prop.to_string(),
            tier,
            seed,
            mode,
            strict,
            known,
            report: ShardReport {
                shard,
                ..Default::default()
            },
            hashes: HashSet::new(),
            section_ord: 0,
            replay_dir: PathBuf::from(format!("{}/replays/{}", super::known::verif_root(), prop)),
            viol_index: HashMap::new(),
            single_outcome: None,
            single_found: false,
            max_shrink_iters: 600,
            scale,
            partial_out: std::env::var("VCHECK_PARTIAL_OUT").ok().map(PathBuf::from),
            since_flush: std::cell::Cell::new(0),
        }
    }

    pub fn thorough(&self) -> bool {
        self.tier == Tier::Thorough
    }

    /// pick the case count for the current tier
    pub fn cases(&self, quick: u64, thorough: u64) -> u64 {
        // The quick counts written in the property modules were sized on a machine shared with a
        // dozen other jobs. `quick_boost` scales them so that a quick run is roughly 30-60 s of
        // fixed work on 16 idle cores (never beyond the thorough count).
        let n = if self.thorough() { ((thorough as f64) * thorough_boost(&self.prop)).ceil() as u64 } else { ((quick as f64) * quick_boost(&self.prop)).ceil().min(thorough.max(quick) as f64) as u64 };
        ((n as f64) * self.scale).ceil() as u64
    }

    pub fn note(&mut self, s: impl Into<String>) {
        if self.report.notes.len() < 50 {
            self.report.notes.push(s.into());
        }
    }

    pub fn hashes(&self) -> &HashSet<u64> {
        &self.hashes
    }

    fn case_seed(&self, section: &str, index: u64) -> [u8; 32] {
        case_seed_for(&self.prop, self.seed, section, index)
    }

    fn indices(&self, ord: u64, total: u64) -> Vec<u64> {
        match &self.mode {
            Mode::Shard {
                shard,
                nshards,
                resume,
            } => {
                let (start_ord, start_idx) = resume.unwrap_or((0, 0));
                if ord < start_ord {
                    return Vec::new();
                }
                let from = if ord == start_ord { start_idx } else { 0 };
                (0..total)
                    .filter(|i| i % (*nshards as u64) == *shard as u64 && *i >= from)
                    .collect()
            }
            Mode::Single { section_ord, index } => {
                if *section_ord == ord && *index < total {
                    vec![*index]
                } else {
                    Vec::new()
                }
            }
        }
    }

    fn exec<V, F>(&self, ord: u64, idx: u64, value: &V, body: &F, want_sample: bool) -> (CaseResult, Rec, bool)
    where
        F: Fn(&V, &mut Rec) -> CaseResult,
    {
        let mut rec = Rec::new(want_sample);
        marker::begin(ord, idx, true);
        panics::set_quiet(true);
        panics::take_last();
        let r = catch_unwind(AssertUnwindSafe(|| body(value, &mut rec)));
        alloc::disarm();
        panics::set_quiet(false);
        marker::end();
        match r {
            Ok(x) => (x, rec, false),
            Err(_) => {
                let p = panics::take_last().unwrap_or(panics::PanicInfo {
                    file: "<unknown>".into(),
                    line: 0,
                    msg: "<no panic info>".into(),
                });
                let (origin, sig) = panics::signature(&p);
                let harness = matches!(origin, Origin::Harness);
                (
                    Err(Fail::new(
                        sig,
                        format!("panic at {}:{}: {}", p.file, p.line, truncate(&p.msg, 400)),
                    )),
                    rec,
                    harness,
                )
            }
        }
    }

    fn account_pass(&mut self, section: &str, rec: Rec, fallback_debug: impl FnOnce() -> String) {
        self.report.evaluations += 1 + rec.extra_evals;
        let st = self.report.sections.entry(section.to_string()).or_default();
        st.cases += 1;
        for c in &rec.classes {
            *self.report.classes.entry(c.clone()).or_insert(0) += 1;
        }
        if rec.nontrivial {
            st.nontrivial += 1;
            self.report.nontrivial += 1;
            let mut dbg: Option<String> = None;
            let h = match rec.hash {
                Some(h) => h,
                None => {
                    let d = fallback_debug();
                    let h = fnv1a(d.as_bytes());
                    dbg = Some(d);
                    h
                }
            };
            if self.hashes.len() < HASH_CAP {
                self.hashes.insert(h ^ mix64(fnv1a(section.as_bytes())));
            } else {
                self.report.hashes_capped = true;
            }
            if rec.want_sample {
                let s = rec
                    .sample
                    .or(dbg)
                    .unwrap_or_else(|| "<no rendering>".to_string());
                self.report
                    .samples
                    .push(format!("[{}] {}", section, truncate(&s, 700)));
            }
        }
    }

    fn want_sample(&self, section: &str) -> bool {
        let prefix = format!("[{}] ", section);
        self.report
            .samples
            .iter()
            .filter(|s| s.starts_with(&prefix))
            .count()
            < SAMPLES_PER_SECTION
    }

    /// Returns true if the failure is tolerated (known finding).
    fn tolerate(&mut self, f: &Fail) -> bool {
        if self.strict {
            return false;
        }
        if self.known.contains_key(&f.sig) {
            *self.report.tolerated.entry(f.sig.clone()).or_insert(0) += 1;
            true
        } else {
            false
        }
    }

    fn write_replay(
        &self,
        section: &str,
        ord: u64,
        index: u64,
        f: &Fail,
        shrunk_debug: &str,
        artefacts: &[(String, Vec<u8>)],
    ) -> String {
        let _ = std::fs::create_dir_all(&self.replay_dir);
        let name = format!("{:016x}.json", fnv1a(format!("{}|{}|{}|{}", f.sig, section, index, self.seed).as_bytes()));
        let path = self.replay_dir.join(name);
        let arte: serde_json::Map<String, serde_json::Value> = artefacts
            .iter()
            .map(|(k, v)| (k.clone(), serde_json::Value::String(hex::encode(v))))
            .collect();
        let j = serde_json::json!({
            "property": self.prop,
            "tier": self.tier.as_str(),
            "seed": self.seed,
            "section": section,
            "section_ord": ord,
            "index": index,
            "sig": f.sig,
            "msg": f.msg,
            "shrunk_case": truncate(shrunk_debug, 60_000),
            "artefacts_hex": arte,
            "how_to_replay": format!("/verif/check {} --replay <this file>", self.prop),
        });
        let _ = std::fs::write(&path, serde_json::to_string_pretty(&j).unwrap());
        path.to_string_lossy().to_string()
    }

    /// Write the report accumulated so far next to the final one. The parent merges it if this
    /// worker dies before finishing (abort, stack overflow, refused allocation, suspected hang).
    pub fn flush_partial(&self) {
        self.since_flush.set(0);
        if let Some(p) = &self.partial_out {
            let mut bytes = Vec::with_capacity(self.hashes.len() * 8);
            for h in &self.hashes {
                bytes.extend_from_slice(&h.to_le_bytes());
            }
            let tmp = p.with_extension("tmp");
            let _ = std::fs::write(p.with_extension("hashes"), bytes);
            if std::fs::write(&tmp, serde_json::to_vec(&self.report).unwrap_or_default()).is_ok() {
                let _ = std::fs::rename(&tmp, p);
            }
        }
    }

    fn tick_flush(&self) {
        let n = self.since_flush.get() + 1;
        self.since_flush.set(n);
        if n >= 2000 {
            self.flush_partial();
        }
    }

    fn record_violation(&mut self, section: &str, index: u64, f: &Fail, replay: String) {
        if let Some(&i) = self.viol_index.get(&f.sig) {
            self.report.violations[i].count += 1;
            return;
        }
        self.viol_index.insert(f.sig.clone(), self.report.violations.len());
        self.report.violations.push(ViolationRec {
            sig: f.sig.clone(),
            msg: f.msg.clone(),
            section: section.to_string(),
            index,
            replay,
            count: 1,
        });
        self.flush_partial();
    }

    fn harness_error(&mut self, section: &str, idx: u64, f: &Fail) {
        if self.report.harness_errors.len() < 10 {
            self.report
                .harness_errors
                .push(format!("section {} case {}: {} — {}", section, idx, f.sig, f.msg));
            self.flush_partial();
        }
    }

    /// A proptest-driven section: `total` cases over all shards, generated by `strat`, each
    /// checked by `body`. Cases are addressable by (section, index): the RNG of case i depends
    /// only on (VERIF_SEED, property, section, i).
    pub fn section<S, F>(&mut self, name: &str, total: u64, strat: S, body: F)
    where
        S: Strategy,
        S::Value: Debug,
        F: Fn(&S::Value, &mut Rec) -> CaseResult,
    {
        let ord = self.section_ord;
        self.section_ord += 1;
        let single = matches!(self.mode, Mode::Single { .. });
        for idx in self.indices(ord, total) {
            self.tick_flush();
            let config = Config {
                cases: 1,
                failure_persistence: None,
                max_shrink_iters: self.max_shrink_iters,
                max_shrink_time: 45_000,
                ..Config::default()
            };
            let rng = TestRng::from_seed(RngAlgorithm::ChaCha, &self.case_seed(name, idx));
            let mut runner = TestRunner::new_with_rng(config, rng);
            let tree = match strat.new_tree(&mut runner) {
                Ok(t) => t,
                Err(e) => {
                    self.harness_error(name, idx, &Fail::new("harness:strategy", format!("{}", e)));
                    continue;
                }
            };
            let value = tree.current();
            let want = self.want_sample(name);
            let (res, rec, harness) = self.exec(ord, idx, &value, &body, want);
            if single {
                self.single_found = true;
                self.single_outcome = Some(res.clone());
            }
            match res {
                Ok(()) => self.account_pass(name, rec, || format!("{:?}", value)),
                Err(f) if harness => self.harness_error(name, idx, &f),
                Err(f) => {
                    if self.tolerate(&f) {
                        self.report.evaluations += 1;
                        self.report.sections.entry(name.to_string()).or_default().cases += 1;
                        continue;
                    }
                    if self.viol_index.contains_key(&f.sig)
                        || self.viol_index.len() >= MAX_DISTINCT_VIOLATIONS
                        || single
                    {
                        let replay = if single {
                            String::new()
                        } else {
                            String::from("(duplicate)")
                        };
                        self.record_violation(name, idx, &f, replay);
                        continue;
                    }
                    // shrink, keeping the same failure signature
                    let sig = f.sig.clone();
                    let last_fail: RefCell<Option<(Fail, Vec<(String, Vec<u8>)>)>> =
                        RefCell::new(Some((f.clone(), rec.artefacts)));
                    let shrunk = {
                        let this = &*self;
                        let test = |v: S::Value| -> Result<(), TestCaseError> {
                            let (r, rec2, _) = this.exec(ord, idx, &v, &body, false);
                            match r {
                                Err(f2) if f2.sig == sig => {
                                    *last_fail.borrow_mut() = Some((f2.clone(), rec2.artefacts));
                                    Err(TestCaseError::fail(f2.sig))
                                }
                                _ => Ok(()),
                            }
                        };
                        runner.run_one(tree, test)
                    };
                    let (final_fail, shrunk_debug, artefacts) = match shrunk {
                        Err(TestError::Fail(_, v)) => {
                            // re-run on the minimal value to get its message and artefacts
                            let (r, rec3, _) = self.exec(ord, idx, &v, &body, false);
                            let dbg = format!("{:#?}", v);
                            match r {
                                Err(f3) if f3.sig == sig => (f3, dbg, rec3.artefacts),
                                _ => {
                                    let (lf, la) = last_fail.borrow_mut().take().unwrap();
                                    (lf, dbg, la)
                                }
                            }
                        }
                        _ => {
                            let (lf, la) = last_fail.borrow_mut().take().unwrap();
                            (lf, format!("{:#?}", value), la)
                        }
                    };
                    let replay = self.write_replay(name, ord, idx, &final_fail, &shrunk_debug, &artefacts);
                    self.record_violation(name, idx, &final_fail, replay);
                }
            }
        }
    }

    /// A deterministic enumeration section: items 0..total, no generator, no shrinking.
    pub fn enumerate<F>(&mut self, name: &str, total: u64, exhaustive: bool, body: F)
    where
        F: Fn(u64, &mut Rec) -> CaseResult,
    {
        let ord = self.section_ord;
        self.section_ord += 1;
        let single = matches!(self.mode, Mode::Single { .. });
        if exhaustive {
            self.report.sections.entry(name.to_string()).or_default().exhaustive = true;
        }
        for idx in self.indices(ord, total) {
            self.tick_flush();
            let want = self.want_sample(name);
            let b = |i: &u64, rec: &mut Rec| body(*i, rec);
            let (res, rec, harness) = self.exec(ord, idx, &idx, &b, want);
            if single {
                self.single_found = true;
                self.single_outcome = Some(res.clone());
            }
            match res {
                Ok(()) => self.account_pass(name, rec, || format!("item {}", idx)),
                Err(f) if harness => self.harness_error(name, idx, &f),
                Err(f) => {
                    if self.tolerate(&f) {
                        self.report.evaluations += 1;
                        self.report.sections.entry(name.to_string()).or_default().cases += 1;
                        continue;
                    }
                    let replay = if self.viol_index.contains_key(&f.sig) || single {
                        String::new()
                    } else {
                        self.write_replay(name, ord, idx, &f, &format!("enumeration item {}", idx), &rec.artefacts)
                    };
                    self.record_violation(name, idx, &f, replay);
                }
            }
        }
    }

    /// section stats accessor for properties that want to assert generator health
    pub fn section_stat(&self, name: &str) -> Option<&SectionStat> {
        self.report.sections.get(name)
    }
}

/// RNG seed of case `index` of `section`: depends only on (VERIF_SEED, property, section, index).
pub fn case_seed_for(prop: &str, seed: u64, section: &str, index: u64) -> [u8; 32] {
    let mut h = fnv1a(prop.as_bytes());
    h = super::util::fnv1a_extend(h, section.as_bytes());
    let a = mix64(h ^ mix64(seed));
    let b = mix64(a ^ mix64(index.wrapping_add(0x51ed)));
    let mut out = [0u8; 32];
    let mut x = b;
    for i in 0..4 {
        x = mix64(x.wrapping_add(i as u64));
        out[i * 8..i * 8 + 8].copy_from_slice(&x.to_le_bytes());
    }
    out
}
