//! Support for libFuzzer targets: the same case bodies as the proptest path, with in-target
//! tolerance of known findings (so campaigns do not rediscover one crash forever). A target
//! only ever *aborts* on an unknown failure; classification of the saved artefact is done by
//! replaying it through `vcheck replay-bytes` in strict mode.

use super::known::Finding;
use super::panics::{self, Origin};
use super::{CaseResult, Rec};
use std::collections::HashMap;
use std::panic::{catch_unwind, AssertUnwindSafe};
use std::sync::OnceLock;

static KNOWN: OnceLock<HashMap<String, Finding>> = OnceLock::new();

/// Call from `fuzz_target!(init: ...)`: replaces libFuzzer's abort-on-panic hook by the
/// recording hook and loads the known findings of `prop`.
pub fn init(prop: &str) {
    let _ = std::panic::take_hook();
    panics::install_hook();
    let strict = std::env::var("VERIF_STRICT").map(|v| v == "1").unwrap_or(false);
    let _ = KNOWN.set(if strict { HashMap::new() } else { super::known::known_for(prop) });
}

/// Run one case body; returns normally for pass / tolerated known finding, aborts otherwise.
pub fn run_case(f: impl FnOnce(&mut Rec) -> CaseResult) {
    let mut rec = Rec::for_fuzz();
    panics::set_quiet(true);
    panics::take_last();
    let r = catch_unwind(AssertUnwindSafe(|| f(&mut rec)));
    super::alloc::disarm();
    panics::set_quiet(false);
    let fail = match r {
        Ok(Ok(())) => return,
        Ok(Err(f)) => f,
        Err(_) => {
            let p = panics::take_last().unwrap_or(panics::PanicInfo {
                file: "<unknown>".into(),
                line: 0,
                msg: "<no panic info>".into(),
            });
            let (origin, sig) = panics::signature(&p);
            if matches!(origin, Origin::Harness) {
                eprintln!("HARNESS-ERROR in fuzz target: {} {}", sig, p.msg);
                std::process::abort();
            }
            super::Fail::new(sig, format!("panic at {}:{}: {}", p.file, p.line, p.msg))
        }
    };
    if KNOWN.get().map(|k| k.contains_key(&fail.sig)).unwrap_or(false) {
        return;
    }
    eprintln!("FUZZ-FAILURE sig={}", fail.sig);
    eprintln!("FUZZ-FAILURE msg={}", fail.msg);
    std::process::abort();
}

/// Strict, non-aborting evaluation (used by `vcheck replay-bytes`).
pub fn eval_case(f: impl FnOnce(&mut Rec) -> CaseResult) -> CaseResult {
    let mut rec = Rec::for_fuzz();
    panics::set_quiet(true);
    panics::take_last();
    let r = catch_unwind(AssertUnwindSafe(|| f(&mut rec)));
    super::alloc::disarm();
    panics::set_quiet(false);
    match r {
        Ok(x) => x,
        Err(_) => {
            let p = panics::take_last().unwrap_or(panics::PanicInfo {
                file: "<unknown>".into(),
                line: 0,
                msg: "<no panic info>".into(),
            });
            let (_, sig) = panics::signature(&p);
            Err(super::Fail::new(sig, format!("panic at {}:{}: {}", p.file, p.line, p.msg)))
        }
    }
}
