//! Parent process: spawns the shard workers, handles aborts / hangs, merges reports, writes
//! the evidence file and prints the VIOLATION / KNOWN-FINDING lines.

use super::ctx::{Ctx, Mode};
use super::known;
use super::marker;
use super::{Property, ShardReport, Tier, ViolationRec, NSHARDS};
use std::collections::{BTreeMap, HashSet};
use std::path::{Path, PathBuf};
use std::process::{Command, Stdio};
use std::time::{Duration, Instant};

const HANG_SUSPECT_MS: u64 = 20_000;
const HANG_CONFIRM_S: u64 = 120;
/// CPU seconds one case may consume in its solo re-run before it is reported as `hang:`
const HANG_CPU_S: u64 = 45;
const EXIT_HANG_SUSPECT: i32 = 42;
const MAX_RESPAWNS: usize = 12;
const WORKER_STACK: usize = 2 << 20;

fn run_dir(prop: &str) -> PathBuf {
    let base = std::env::var("VERIF_RUN_DIR")
        .unwrap_or_else(|_| format!("{}/harness/target/run", known::verif_root()));
    PathBuf::from(base).join(prop)
}

fn set_rlimits() {
    unsafe {
        let lim = libc::rlimit {
            rlim_cur: 10u64 << 30,
            rlim_max: 10u64 << 30,
        };
        libc::setrlimit(libc::RLIMIT_AS, &lim);
        let core = libc::rlimit {
            rlim_cur: 0,
            rlim_max: 0,
        };
        libc::setrlimit(libc::RLIMIT_CORE, &core);
    }
}

/// Entry point of a worker process. Returns the process exit code.
pub fn worker_main(
    prop: &'static dyn Property,
    tier: Tier,
    seed: u64,
    mode: Mode,
    strict: bool,
    out: Option<&Path>,
    marker_path: Option<&Path>,
) -> i32 {
    set_rlimits();
    if let Some(mp) = marker_path {
        if let Err(e) = marker::open(mp) {
            eprintln!("cannot open marker {}: {}", mp.display(), e);
        }
        // watchdog: suspects a hang, never decides
        std::thread::Builder::new()
            .name("watchdog".into())
            .stack_size(256 << 10)
            .spawn(|| loop {
                std::thread::sleep(Duration::from_millis(500));
                if let Some((state, started, _)) = marker::peek() {
                    if state == 1 && marker::now_ms().saturating_sub(started) > HANG_SUSPECT_MS {
                        // only if still the same case
                        if let Some((s2, st2, _)) = marker::peek() {
                            if s2 == 1 && st2 == started {
                                marker::set_state(3);
                                unsafe { libc::_exit(EXIT_HANG_SUSPECT) };
                            }
                        }
                    }
                }
            })
            .ok();
    }
    super::panics::install_hook();
    let is_single = matches!(mode, Mode::Single { .. });
    let handle = std::thread::Builder::new()
        .name("cases".into())
        .stack_size(WORKER_STACK)
        .spawn(move || {
            let mut ctx = Ctx::new(prop.id(), tier, seed, mode, strict);
            prop.run(&mut ctx);
            let hashes: Vec<u64> = ctx.hashes().iter().copied().collect();
            (ctx.report.clone(), hashes, ctx.single_found, ctx.single_outcome.clone())
        })
        .expect("spawn case thread");
    let (report, hashes, single_found, single_outcome) = match handle.join() {
        Ok(x) => x,
        Err(_) => {
            eprintln!("harness error: case thread panicked outside a case body");
            return 3;
        }
    };
    marker::done();
    if let Some(out) = out {
        let mut bytes = Vec::with_capacity(hashes.len() * 8);
        for h in &hashes {
            bytes.extend_from_slice(&h.to_le_bytes());
        }
        let _ = std::fs::write(out.with_extension("hashes"), bytes);
        if let Err(e) = std::fs::write(out, serde_json::to_vec(&report).unwrap()) {
            eprintln!("cannot write {}: {}", out.display(), e);
            return 3;
        }
    }
    if is_single {
        if !single_found {
            println!("SINGLE not-found");
            return 4;
        }
        match single_outcome {
            Some(Ok(())) => {
                println!("SINGLE pass");
                0
            }
            Some(Err(f)) => {
                println!("SINGLE fail sig={}", f.sig);
                println!("SINGLE msg={}", f.msg.replace('\n', " "));
                1
            }
            None => 4,
        }
    } else {
        0
    }
}

struct Running {
    shard: u32,
    child: std::process::Child,
    out: PathBuf,
    marker: PathBuf,
    stderr: PathBuf,
    respawns: usize,
}

fn spawn_worker(
    exe: &Path,
    prop: &str,
    tier: Tier,
    seed: u64,
    shard: u32,
    resume: Option<(u64, u64)>,
    dir: &Path,
    gen: usize,
) -> std::io::Result<Running> {
    let out = dir.join(format!("shard-{}-{}.json", shard, gen));
    let markerp = dir.join(format!("shard-{}-{}.marker", shard, gen));
    let stderr = dir.join(format!("shard-{}-{}.stderr", shard, gen));
    let mut cmd = Command::new(exe);
    cmd.arg("worker")
        .arg(prop)
        .arg("--tier")
        .arg(tier.as_str())
        .arg("--seed")
        .arg(seed.to_string())
        .arg("--shard")
        .arg(shard.to_string())
        .arg("--out")
        .arg(&out)
        .arg("--marker")
        .arg(&markerp);
    cmd.env("VCHECK_PARTIAL_OUT", out.with_extension("partial"));
    if let Some((o, i)) = resume {
        cmd.arg("--resume").arg(format!("{}:{}", o, i));
    }
    cmd.stdin(Stdio::null())
        .stdout(Stdio::null())
        .stderr(std::fs::File::create(&stderr)?);
    let child = cmd.spawn()?;
    Ok(Running {
        shard,
        child,
        out,
        marker: markerp,
        stderr,
        respawns: gen,
    })
}

fn tail(path: &Path, n: usize) -> String {
    let s = std::fs::read_to_string(path).unwrap_or_default();
    let lines: Vec<&str> = s.lines().collect();
    let start = lines.len().saturating_sub(n);
    lines[start..].join(" | ")
}

/// Run one case alone in a fresh process with a wall-clock limit. Returns
/// Some(exit status) or None when the limit expired.
fn run_single(
    exe: &Path,
    prop: &str,
    tier: Tier,
    seed: u64,
    ord: u64,
    idx: u64,
    limit: Duration,
    dir: &Path,
) -> (Option<std::process::ExitStatus>, String) {
    let outp = dir.join(format!("single-{}-{}.out", ord, idx));
    let errp = dir.join(format!("single-{}-{}.err", ord, idx));
    let child = Command::new(exe)
        .arg("single")
        .arg(prop)
        .arg("--tier")
        .arg(tier.as_str())
        .arg("--seed")
        .arg(seed.to_string())
        .arg("--case")
        .arg(format!("{}:{}", ord, idx))
        .stdin(Stdio::null())
        .stdout(std::fs::File::create(&outp).unwrap())
        .stderr(std::fs::File::create(&errp).unwrap())
        .spawn();
    let mut child = match child {
        Ok(c) => c,
        Err(_) => return (None, String::new()),
    };
    let t0 = Instant::now();
    loop {
        match child.try_wait() {
            Ok(Some(st)) => {
                let o = std::fs::read_to_string(&outp).unwrap_or_default();
                return (Some(st), format!("{} || {}", o.replace('\n', " | "), tail(&errp, 4)));
            }
            Ok(None) => {
                if t0.elapsed() > limit {
                    let _ = child.kill();
                    let _ = child.wait();
                    return (None, String::new());
                }
                // CPU time is independent of how loaded the machine is: one case that burns more
                // than HANG_CPU_S seconds of processor time (typical cases: milliseconds) is out of
                // proportion to its input whatever the wall clock says
                if let Some(cpu) = proc_cpu_seconds(child.id()) {
                    if cpu > HANG_CPU_S as f64 {
                        let _ = child.kill();
                        let _ = child.wait();
                        return (None, format!("cpu:{:.0}", cpu));
                    }
                }
                std::thread::sleep(Duration::from_millis(50));
            }
            Err(_) => return (None, String::new()),
        }
    }
}

/// user + system CPU time of a process in seconds (from /proc/<pid>/stat), all threads
fn proc_cpu_seconds(pid: u32) -> Option<f64> {
    let st = std::fs::read_to_string(format!("/proc/{}/stat", pid)).ok()?;
    let rest = &st[st.rfind(')')? + 1..];
    let f: Vec<&str> = rest.split_whitespace().collect();
    // after the command name: state is f[0]; utime and stime are fields 14 and 15 of the line,
    // i.e. f[11] and f[12] here
    let ut: f64 = f.get(11)?.parse().ok()?;
    let stt: f64 = f.get(12)?.parse().ok()?;
    let hz = unsafe { libc::sysconf(libc::_SC_CLK_TCK) } as f64;
    if hz <= 0.0 {
        return None;
    }
    Some((ut + stt) / hz)
}

pub struct Outcome {
    pub exit_code: i32,
}

pub struct FuzzStats {
    pub executions: u64,
    pub corpus: u64,
    pub note: String,
}

/// The `vcheck run` command.
pub fn run_parent(prop: &'static dyn Property, tier: Tier, seed: u64) -> Outcome {
    let t0 = Instant::now();
    let id = prop.id();
    let exe = std::env::current_exe().expect("current_exe");
    let dir = run_dir(id);
    let _ = std::fs::remove_dir_all(&dir);
    std::fs::create_dir_all(&dir).expect("run dir");
    let jobs: usize = std::env::var("VERIF_JOBS")
        .ok()
        .and_then(|s| s.parse().ok())
        .unwrap_or_else(|| {
            std::thread::available_parallelism()
                .map(|n| n.get())
                .unwrap_or(4)
        })
        .max(1);

    let mut pending: Vec<(u32, Option<(u64, u64)>, usize)> =
        (0..NSHARDS).map(|s| (s, None, 0usize)).collect();
    pending.reverse();
    let mut running: Vec<Running> = Vec::new();
    let mut reports: Vec<ShardReport> = Vec::new();
    let mut all_hashes: Vec<u64> = Vec::new();
    let mut extra_violations: Vec<ViolationRec> = Vec::new();
    let mut inconclusive: Vec<String> = Vec::new();
    let mut slow_cases: Vec<String> = Vec::new();
    let mut confirmed_hangs: std::collections::HashMap<u64, u32> = std::collections::HashMap::new();
    let mut hang_reruns: std::collections::HashMap<u64, u32> = std::collections::HashMap::new();

    let replay_dir = PathBuf::from(format!("{}/replays/{}", known::verif_root(), id));

    while !pending.is_empty() || !running.is_empty() {
        while running.len() < jobs && !pending.is_empty() {
            let (s, resume, gen) = pending.pop().unwrap();
            match spawn_worker(&exe, id, tier, seed, s, resume, &dir, gen) {
                Ok(r) => running.push(r),
                Err(e) => inconclusive.push(format!("cannot spawn worker {}: {}", s, e)),
            }
        }
        let mut i = 0;
        let mut progressed = false;
        while i < running.len() {
            let st = running[i].child.try_wait();
            match st {
                Ok(Some(status)) => {
                    progressed = true;
                    let r = running.swap_remove(i);
                    let ok = status.success();
                    if ok {
                        match std::fs::read(&r.out)
                            .ok()
                            .and_then(|b| serde_json::from_slice::<ShardReport>(&b).ok())
                        {
                            Some(rep) => {
                                if let Ok(hb) = std::fs::read(r.out.with_extension("hashes")) {
                                    for c in hb.chunks_exact(8) {
                                        all_hashes.push(u64::from_le_bytes(c.try_into().unwrap()));
                                    }
                                }
                                reports.push(rep);
                            }
                            None => inconclusive.push(format!("shard {}: unreadable report", r.shard)),
                        }
                        continue;
                    }
                    // abnormal termination: keep what the worker had flushed before it died
                    // (violations are flushed as they happen; pass counts up to the last flush)
                    {
                        let pp = r.out.with_extension("partial");
                        if let Some(rep) = std::fs::read(&pp)
                            .ok()
                            .and_then(|b| serde_json::from_slice::<ShardReport>(&b).ok())
                        {
                            if let Ok(hb) = std::fs::read(pp.with_extension("hashes")) {
                                for c in hb.chunks_exact(8) {
                                    all_hashes.push(u64::from_le_bytes(c.try_into().unwrap()));
                                }
                            }
                            reports.push(rep);
                        }
                    }
                    let ms = marker::read_file(&r.marker);
                    let err_tail = tail(&r.stderr, 6);
                    let code = status.code();
                    match ms {
                        Some(m) if m.state == 1 || m.state == 3 => {
                            let (ord, idx) = (m.section_ord, m.index);
                            let hang = code == Some(EXIT_HANG_SUSPECT) || m.state == 3;
                            if hang {
                                *hang_reruns.entry(ord).or_insert(0) += 1;
                            }
                            if hang && (confirmed_hangs.get(&ord).copied().unwrap_or(0) >= 2 || hang_reruns[&ord] > 10) {
                                // this section already has two confirmed hangs (the run fails
                                // anyway): do not spend another HANG_CONFIRM_S on every suspect
                                slow_cases.push(format!(
                                    "section {} index {}: further hang suspect, not re-run alone (section already has confirmed hangs or more than 10 suspects)",
                                    ord, idx
                                ));
                            } else if hang {
                                // confirm alone, without parallel load pressure on its clock
                                let (st, info) = run_single(
                                    &exe,
                                    id,
                                    tier,
                                    seed,
                                    ord,
                                    idx,
                                    Duration::from_secs(HANG_CONFIRM_S),
                                    &dir,
                                );
                                match st {
                                    None => {
                                        *confirmed_hangs.entry(ord).or_insert(0) += 1;
                                        let f = super::Fail::new(
                                            format!("hang:section{}", ord),
                                            if info.starts_with("cpu:") {
                                                format!(
                                                    "case (section {}, index {}) consumed more than {} s of CPU time when run alone (out of proportion: typical cases take milliseconds)",
                                                    ord, idx, HANG_CPU_S
                                                )
                                            } else {
                                                format!(
                                                    "case (section {}, index {}) did not terminate within {} s when run alone",
                                                    ord, idx, HANG_CONFIRM_S
                                                )
                                            },
                                        );
                                        extra_violations.push(origin_violation(&replay_dir, id, tier, seed, ord, idx, &f));
                                    }
                                    Some(s) if s.code() == Some(1) => {
                                        let f = super::Fail::new(
                                            parse_single_sig(&info).unwrap_or_else(|| format!("slow-fail:section{}", ord)),
                                            format!("slow case failed when re-run alone: {}", info),
                                        );
                                        extra_violations.push(origin_violation(&replay_dir, id, tier, seed, ord, idx, &f));
                                    }
                                    Some(_) => slow_cases.push(format!("section {} index {} (> {} ms under load, finished alone)", ord, idx, HANG_SUSPECT_MS)),
                                }
                            } else {
                                let kind = if m.refused_alloc > 0 {
                                    format!("size-field allocation of {} bytes", m.refused_alloc)
                                } else if err_tail.contains("overflowed its stack") {
                                    "stack overflow".to_string()
                                } else if err_tail.contains("memory allocation of") {
                                    "allocation failure (address-space limit)".to_string()
                                } else {
                                    format!("abnormal termination ({:?})", status)
                                };
                                if kind.starts_with("allocation failure") {
                                    inconclusive.push(format!(
                                        "shard {} section {} index {}: {} — sandbox limit, not an oracle: {}",
                                        r.shard, ord, idx, kind, err_tail
                                    ));
                                } else {
                                    let sigkind = if m.refused_alloc > 0 {
                                        "alloc-guard"
                                    } else if kind == "stack overflow" {
                                        "stack-overflow"
                                    } else {
                                        "abort"
                                    };
                                    let f = super::Fail::new(
                                        format!("{}:section{}", sigkind, ord),
                                        format!("worker died in case (section {}, index {}): {}; stderr: {}", ord, idx, kind, err_tail),
                                    );
                                    extra_violations.push(origin_violation(&replay_dir, id, tier, seed, ord, idx, &f));
                                }
                            }
                            if r.respawns + 1 < MAX_RESPAWNS {
                                pending.push((r.shard, Some((ord, idx + 1)), r.respawns + 1));
                            } else {
                                inconclusive.push(format!("shard {}: too many respawns, remaining cases skipped", r.shard));
                            }
                        }
                        _ => {
                            inconclusive.push(format!(
                                "shard {} exited with {:?} outside a case: {}",
                                r.shard, status, err_tail
                            ));
                        }
                    }
                }
                Ok(None) => {
                    i += 1;
                }
                Err(e) => {
                    let r = running.swap_remove(i);
                    inconclusive.push(format!("shard {}: wait error {}", r.shard, e));
                }
            }
        }
        if !progressed {
            std::thread::sleep(Duration::from_millis(20));
        }
    }

    // ---- merge
    let mut evaluations = 0u64;
    let mut classes: BTreeMap<String, u64> = BTreeMap::new();
    let mut sections: BTreeMap<String, super::SectionStat> = BTreeMap::new();
    let mut tolerated: BTreeMap<String, u64> = BTreeMap::new();
    let mut violations: Vec<ViolationRec> = Vec::new();
    let mut samples: Vec<String> = Vec::new();
    let mut harness_errors: Vec<String> = Vec::new();
    let mut notes: Vec<String> = Vec::new();
    let mut capped = false;
    reports.sort_by_key(|r| r.shard);
    for r in &reports {
        evaluations += r.evaluations;
        capped |= r.hashes_capped;
        for (k, v) in &r.classes {
            *classes.entry(k.clone()).or_insert(0) += v;
        }
        for (k, v) in &r.sections {
            let e = sections.entry(k.clone()).or_default();
            e.cases += v.cases;
            e.nontrivial += v.nontrivial;
            e.exhaustive |= v.exhaustive;
        }
        for (k, v) in &r.tolerated {
            *tolerated.entry(k.clone()).or_insert(0) += v;
        }
        for v in &r.violations {
            if let Some(e) = violations.iter_mut().find(|e| e.sig == v.sig) {
                e.count += v.count;
                if e.replay.is_empty() || e.replay == "(duplicate)" {
                    e.replay = v.replay.clone();
                }
            } else {
                violations.push(v.clone());
            }
        }
        harness_errors.extend(r.harness_errors.iter().cloned());
        for n in &r.notes {
            if !notes.contains(n) {
                notes.push(n.clone());
            }
        }
    }
    for v in extra_violations {
        if let Some(e) = violations.iter_mut().find(|e| e.sig == v.sig) {
            e.count += 1;
        } else {
            violations.push(v);
        }
    }
    // samples: round-robin over shards, at most 10
    {
        let mut seen_sections: BTreeMap<String, usize> = BTreeMap::new();
        for r in &reports {
            for s in &r.samples {
                let sec = s.split(']').next().unwrap_or("").to_string();
                let c = seen_sections.entry(sec).or_insert(0);
                if *c < 2 && samples.len() < 12 {
                    samples.push(s.clone());
                    *c += 1;
                }
            }
        }
    }
    all_hashes.sort_unstable();
    all_hashes.dedup();
    let distinct = all_hashes.len() as u64;
    let _ = HashSet::<u64>::new();

    let known_all = known::load();
    let known_here: Vec<&known::Finding> = known_all
        .findings
        .iter()
        .filter(|f| (f.property == id || f.also.iter().any(|a| a == id)) && f.status == "known")
        .collect();

    // ---- optional fuzz statistics handed over by the check script
    let fuzz: Option<serde_json::Value> = std::env::var("VERIF_FUZZ_STATS")
        .ok()
        .and_then(|p| std::fs::read_to_string(p).ok())
        .and_then(|s| serde_json::from_str(&s).ok());

    // ---- optional statistics of a run of the same check in a second build configuration
    // (C10 thorough: harness + allsorts rebuilt against flate2's pure-Rust backend)
    let extra: Option<serde_json::Value> = std::env::var("VERIF_EXTRA_STATS")
        .ok()
        .and_then(|p| std::fs::read_to_string(p).ok())
        .and_then(|s| serde_json::from_str(&s).ok());

    let wall = t0.elapsed().as_secs_f64();
    let backend = if cfg!(feature = "rustz") && !cfg!(feature = "zlib") { "flate2 rust_backend (miniz_oxide)" } else { "flate2 zlib" };
    let mut coverage = serde_json::json!({
        "evaluations": evaluations,
        "distinct_nontrivial": distinct,
        "rule": prop.rule(),
        "samples": samples,
        "classes": classes,
        "sections": sections.iter().map(|(k, v)| (k.clone(), serde_json::json!({"cases": v.cases, "nontrivial": v.nontrivial, "exhaustive": v.exhaustive}))).collect::<serde_json::Map<_, _>>(),
        "tolerated_known_findings": tolerated,
        "distinct_nontrivial_is_lower_bound": capped,
        "slow_cases": slow_cases,
        "shards": NSHARDS,
        "shards_reported": reports.len(),
        "notes": notes,
        "build": format!("release, opt-level=2, debug-assertions=on, overflow-checks=on, allsorts features: outline + {} + {} + prince", backend, if cfg!(feature = "hooks") { "verif-hooks" } else { "NO verif-hooks" }),
    });
    if let Some(x) = extra {
        let key = if x.get("miri").is_some() { "miri_sample" } else { "second_build" };
        coverage[key] = x;
    }
    if let Some(f) = fuzz {
        coverage["fuzz"] = f;
    }
    let evidence = serde_json::json!({
        "property_id": id,
        "tier": tier.as_str(),
        "seed": seed,
        "level": prop.level(),
        "coverage": coverage,
        "assumptions": prop.assumptions(),
        "wall_s": wall,
        "violations": violations.len(),
        "violation_details": violations.iter().map(|v| serde_json::json!({"sig": v.sig, "msg": super::util::truncate(&v.msg, 1500), "section": v.section, "index": v.index, "replay": v.replay, "count": v.count})).collect::<Vec<_>>(),
        "inconclusive": inconclusive,
        "harness_errors": harness_errors,
    });
    let evdir = format!("{}/evidence", known::verif_root());
    let _ = std::fs::create_dir_all(&evdir);
    let evpath = format!("{}/{}.json", evdir, id);
    if let Err(e) = std::fs::write(&evpath, serde_json::to_string_pretty(&evidence).unwrap()) {
        eprintln!("cannot write evidence {}: {}", evpath, e);
    }

    // ---- report
    println!(
        "{} {} seed={} evaluations={} distinct_nontrivial={} wall={:.1}s",
        id,
        tier.as_str(),
        seed,
        evaluations,
        distinct,
        wall
    );
    for (k, v) in &sections {
        println!("  section {:<28} cases={:<9} nontrivial={}", k, v.cases, v.nontrivial);
    }
    for f in &known_here {
        let n = tolerated.get(&f.sig).copied().unwrap_or(0);
        println!(
            "KNOWN-FINDING: property={} {} [sig {}; attributed cases this run: {}]",
            id, f.what, f.sig, n
        );
    }
    for e in harness_errors.iter().take(8) {
        println!("HARNESS-ERROR: {}", e);
    }
    if harness_errors.len() > 8 {
        println!("HARNESS-ERROR: ... and {} more", harness_errors.len() - 8);
    }
    for e in &inconclusive {
        println!("INCONCLUSIVE: {}", e);
    }
    for v in &violations {
        println!("VIOLATION property={} replay={}", id, v.replay);
        println!("  sig: {}", v.sig);
        println!("  msg: {}", super::util::truncate(&v.msg, 1200));
        println!("  first at section={} index={} occurrences={}", v.section, v.index, v.count);
    }
    let exit_code = if !violations.is_empty() {
        1
    } else if !harness_errors.is_empty() || !inconclusive.is_empty() || reports.is_empty() {
        2
    } else {
        0
    };
    Outcome { exit_code }
}

fn parse_single_sig(info: &str) -> Option<String> {
    let i = info.find("SINGLE fail sig=")?;
    let rest = &info[i + "SINGLE fail sig=".len()..];
    let end = rest.find(" | ").unwrap_or(rest.len());
    Some(rest[..end].to_string())
}

fn origin_violation(
    replay_dir: &Path,
    id: &str,
    tier: Tier,
    seed: u64,
    ord: u64,
    idx: u64,
    f: &super::Fail,
) -> ViolationRec {
    let _ = std::fs::create_dir_all(replay_dir);
    let name = format!(
        "{:016x}.json",
        super::util::fnv1a(format!("{}|{}|{}|{}", f.sig, ord, idx, seed).as_bytes())
    );
    let path = replay_dir.join(name);
    let j = serde_json::json!({
        "property": id,
        "tier": tier.as_str(),
        "seed": seed,
        "section_ord": ord,
        "index": idx,
        "sig": f.sig,
        "msg": f.msg,
        "shrunk_case": "(process-level failure: not shrunk; the case is regenerated from seed/section/index)",
    });
    let _ = std::fs::write(&path, serde_json::to_string_pretty(&j).unwrap());
    ViolationRec {
        sig: f.sig.clone(),
        msg: f.msg.clone(),
        section: format!("#{}", ord),
        index: idx,
        replay: path.to_string_lossy().to_string(),
        count: 1,
    }
}

/// `vcheck replay <file>`: regenerate the recorded case in a fresh process, strict mode.
pub fn replay(file: &Path) -> i32 {
    let j: serde_json::Value = match std::fs::read_to_string(file)
        .ok()
        .and_then(|s| serde_json::from_str(&s).ok())
    {
        Some(j) => j,
        None => {
            eprintln!("cannot read replay file {}", file.display());
            return 2;
        }
    };
    let id = j["property"].as_str().unwrap_or("");
    let tier = Tier::parse(j["tier"].as_str().unwrap_or("quick")).unwrap_or(Tier::Quick);
    let seed = j["seed"].as_u64().unwrap_or(0);
    let ord = j["section_ord"].as_u64().unwrap_or(0);
    let idx = j["index"].as_u64().unwrap_or(0);
    let want_sig = j["sig"].as_str().unwrap_or("").to_string();
    let exe = std::env::current_exe().expect("current_exe");
    let dir = run_dir(&format!("{}-replay", id));
    let _ = std::fs::create_dir_all(&dir);
    let (st, info) = run_single(&exe, id, tier, seed, ord, idx, Duration::from_secs(HANG_CONFIRM_S), &dir);
    match st {
        None => {
            println!("VIOLATION property={} replay={}", id, file.display());
            println!("  (case did not terminate within {} s)", HANG_CONFIRM_S);
            1
        }
        Some(s) if s.code() == Some(0) => {
            println!("replay: case passes (recorded sig: {})", want_sig);
            0
        }
        Some(s) if s.code() == Some(1) => {
            println!("VIOLATION property={} replay={}", id, file.display());
            println!("  {}", info);
            1
        }
        Some(s) if s.code() == Some(4) => {
            println!("replay: case not found (harness changed since the replay was written?)");
            2
        }
        Some(s) => {
            println!("VIOLATION property={} replay={}", id, file.display());
            println!("  process died: {:?} {}", s, info);
            1
        }
    }
}
