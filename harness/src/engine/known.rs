//! known_findings.json: read-only at run time.

use serde::{Deserialize, Serialize};
use std::collections::HashMap;

#[derive(Clone, Debug, Serialize, Deserialize)]
pub struct Finding {
    pub property: String,
    /// other properties whose checks can run into the same failure (same signature)
    #[serde(default)]
    pub also: Vec<String>,
    /// "known" (tolerated, reported as KNOWN-FINDING) or "fixed" (suppresses nothing)
    pub status: String,
    /// exact failure signature this entry is keyed on
    pub sig: String,
    pub what: String,
    #[serde(default)]
    pub commit: Option<String>,
    /// the one-line record required by the task interface
    #[serde(default)]
    pub record: Option<String>,
}

#[derive(Clone, Debug, Default, Serialize, Deserialize)]
pub struct KnownFile {
    #[serde(default)]
    pub findings: Vec<Finding>,
}

pub fn verif_root() -> String {
    std::env::var("VERIF_ROOT").unwrap_or_else(|_| "/verif".to_string())
}

pub fn load() -> KnownFile {
    let p = format!("{}/known_findings.json", verif_root());
    match std::fs::read_to_string(&p) {
        Ok(s) => serde_json::from_str(&s).unwrap_or_else(|e| {
            eprintln!("warning: cannot parse {}: {}", p, e);
            KnownFile::default()
        }),
        Err(_) => KnownFile::default(),
    }
}

/// signature -> finding, for the `known` entries of one property
pub fn known_for(prop: &str) -> HashMap<String, Finding> {
    load()
        .findings
        .into_iter()
        .filter(|f| (f.property == prop || f.also.iter().any(|a| a == prop)) && f.status == "known")
        .map(|f| (f.sig.clone(), f))
        .collect()
}
