//! Shared engine: sharded proptest execution, panic capture, allocation guard, marker file,
//! known-finding matching, evidence and replay files. See DESIGN.md §3.

pub mod alloc;
pub mod ctx;
pub mod fixtures;
pub mod fuzz;
pub mod known;
pub mod marker;
pub mod panics;
pub mod parent;
pub mod util;

pub use ctx::{Ctx, Mode, Rec};

use serde::{Deserialize, Serialize};

pub const NSHARDS: u32 = 16;

#[derive(Clone, Copy, Debug, PartialEq, Eq)]
pub enum Tier {
    Quick,
    Thorough,
}

impl Tier {
    pub fn as_str(self) -> &'static str {
        match self {
            Tier::Quick => "quick",
            Tier::Thorough => "thorough",
        }
    }
    pub fn parse(s: &str) -> Option<Tier> {
        match s {
            "quick" => Some(Tier::Quick),
            "thorough" => Some(Tier::Thorough),
            _ => None,
        }
    }
}

/// A property failure. `sig` is the stable signature used to match known findings and to
/// de-duplicate; `msg` is the human readable explanation.
#[derive(Clone, Debug, Serialize, Deserialize)]
pub struct Fail {
    pub sig: String,
    pub msg: String,
}

impl Fail {
    pub fn new(sig: impl Into<String>, msg: impl Into<String>) -> Fail {
        Fail {
            sig: sig.into(),
            msg: msg.into(),
        }
    }
}

pub type CaseResult = Result<(), Fail>;

/// Convenience: fail with a signature unless the condition holds.
#[macro_export]
macro_rules! ensure {
    ($cond:expr, $sig:expr, $($fmt:tt)+) => {
        if !($cond) {
            return Err($crate::engine::Fail::new($sig, format!($($fmt)+)));
        }
    };
}

pub trait Property: Sync + Send {
    fn id(&self) -> &'static str;
    /// "exploration" or "fault_enumeration"
    fn level(&self) -> &'static str {
        "exploration"
    }
    /// How cases are generated and what makes one non-trivial / distinct.
    fn rule(&self) -> String;
    fn assumptions(&self) -> Vec<String> {
        Vec::new()
    }
    /// Run all sections. The engine decides which cases of each section this process executes.
    fn run(&self, ctx: &mut Ctx);
}

#[derive(Clone, Debug, Default, Serialize, Deserialize)]
pub struct ViolationRec {
    pub sig: String,
    pub msg: String,
    pub section: String,
    pub index: u64,
    pub replay: String,
    pub count: u64,
}

#[derive(Clone, Debug, Default, Serialize, Deserialize)]
pub struct SectionStat {
    pub cases: u64,
    pub nontrivial: u64,
    pub exhaustive: bool,
}

/// What one worker (one shard) reports back to the parent.
#[derive(Clone, Debug, Default, Serialize, Deserialize)]
pub struct ShardReport {
    pub shard: u32,
    pub evaluations: u64,
    pub nontrivial: u64,
    pub hashes_capped: bool,
    pub classes: std::collections::BTreeMap<String, u64>,
    pub sections: std::collections::BTreeMap<String, SectionStat>,
    pub tolerated: std::collections::BTreeMap<String, u64>,
    pub violations: Vec<ViolationRec>,
    pub samples: Vec<String>,
    pub harness_errors: Vec<String>,
    pub notes: Vec<String>,
}
