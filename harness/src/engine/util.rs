pub fn fnv1a(data: &[u8]) -> u64 {
    let mut h: u64 = 0xcbf29ce484222325;
    for b in data {
        h ^= *b as u64;
        h = h.wrapping_mul(0x100000001b3);
    }
    h
}

pub fn fnv1a_extend(mut h: u64, data: &[u8]) -> u64 {
    for b in data {
        h ^= *b as u64;
        h = h.wrapping_mul(0x100000001b3);
    }
    h
}

/// splitmix64 finaliser: good avalanche for deriving seeds
pub fn mix64(mut z: u64) -> u64 {
    z = z.wrapping_add(0x9e3779b97f4a7c15);
    z = (z ^ (z >> 30)).wrapping_mul(0xbf58476d1ce4e5b9);
    z = (z ^ (z >> 27)).wrapping_mul(0x94d049bb133111eb);
    z ^ (z >> 31)
}

pub fn truncate(s: &str, max: usize) -> String {
    if s.len() <= max {
        s.to_string()
    } else {
        let mut end = max;
        while !s.is_char_boundary(end) {
            end -= 1;
        }
        format!("{}…[{} bytes]", &s[..end], s.len())
    }
}

/// Map an index from a generated u16/u32 monotonically onto 0..len (shrinks towards 0).
pub fn pick(len: usize, r: u32) -> usize {
    if len == 0 {
        0
    } else {
        ((r as u64 * len as u64) >> 32) as usize
    }
}
