//! A small shared-memory file that survives the death of the worker: which case is running,
//! since when, and whether the allocation guard refused a request.

use std::sync::atomic::{AtomicPtr, AtomicU64, Ordering};

// layout (u64 each): [0]=state (0 idle, 1 in case, 2 done, 3 hang-suspect) [1]=section ordinal
// [2]=case index [3]=refused alloc size [4]=case start (unix ms) [5]=cases started
const WORDS: usize = 8;
static PTR: AtomicPtr<AtomicU64> = AtomicPtr::new(std::ptr::null_mut());

pub fn open(path: &std::path::Path) -> std::io::Result<()> {
    use std::os::unix::io::AsRawFd;
    let f = std::fs::OpenOptions::new()
        .read(true)
        .write(true)
        .create(true)
        .truncate(true)
        .open(path)?;
    f.set_len((WORDS * 8) as u64)?;
    let p = unsafe {
        libc::mmap(
            std::ptr::null_mut(),
            WORDS * 8,
            libc::PROT_READ | libc::PROT_WRITE,
            libc::MAP_SHARED,
            f.as_raw_fd(),
            0,
        )
    };
    if p == libc::MAP_FAILED {
        return Err(std::io::Error::last_os_error());
    }
    PTR.store(p as *mut AtomicU64, Ordering::SeqCst);
    Ok(())
}

fn word(i: usize) -> Option<&'static AtomicU64> {
    let p = PTR.load(Ordering::Relaxed);
    if p.is_null() {
        None
    } else {
        Some(unsafe { &*p.add(i) })
    }
}

pub fn now_ms() -> u64 {
    std::time::SystemTime::now()
        .duration_since(std::time::UNIX_EPOCH)
        .map(|d| d.as_millis() as u64)
        .unwrap_or(0)
}

pub fn begin(section_ord: u64, index: u64, stamp: bool) {
    if let Some(w) = word(1) {
        w.store(section_ord, Ordering::Relaxed);
        word(2).unwrap().store(index, Ordering::Relaxed);
        word(3).unwrap().store(0, Ordering::Relaxed);
        if stamp {
            word(4).unwrap().store(now_ms(), Ordering::Relaxed);
        }
        word(5).unwrap().fetch_add(1, Ordering::Relaxed);
        word(0).unwrap().store(1, Ordering::SeqCst);
    }
}

pub fn end() {
    if let Some(w) = word(0) {
        w.store(0, Ordering::SeqCst);
    }
}

pub fn done() {
    if let Some(w) = word(0) {
        w.store(2, Ordering::SeqCst);
    }
}

pub fn set_state(s: u64) {
    if let Some(w) = word(0) {
        w.store(s, Ordering::SeqCst);
    }
}

pub fn note_alloc(sz: usize) {
    if let Some(w) = word(3) {
        w.store(sz as u64, Ordering::SeqCst);
    }
}

/// (state, started_ms, cases_started)
pub fn peek() -> Option<(u64, u64, u64)> {
    let s = word(0)?.load(Ordering::SeqCst);
    Some((
        s,
        word(4).unwrap().load(Ordering::Relaxed),
        word(5).unwrap().load(Ordering::Relaxed),
    ))
}

#[derive(Debug, Clone, Copy)]
pub struct MarkerState {
    pub state: u64,
    pub section_ord: u64,
    pub index: u64,
    pub refused_alloc: u64,
}

/// Read a marker file written by a (possibly dead) worker.
pub fn read_file(path: &std::path::Path) -> Option<MarkerState> {
    let b = std::fs::read(path).ok()?;
    if b.len() < WORDS * 8 {
        return None;
    }
    let w = |i: usize| u64::from_le_bytes(b[i * 8..i * 8 + 8].try_into().unwrap());
    Some(MarkerState {
        state: w(0),
        section_ord: w(1),
        index: w(2),
        refused_alloc: w(3),
    })
}
