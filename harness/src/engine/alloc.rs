//! Counting / guarding global allocator (DESIGN §3.2). While a case is armed, a *fresh*
//! allocation request larger than the limit is refused (null) after recording the size in
//! the marker; std then aborts via handle_alloc_error, which the parent process observes.

use std::alloc::{GlobalAlloc, Layout, System};
use std::sync::atomic::{AtomicUsize, Ordering};

pub struct GuardAlloc;

static LIMIT: AtomicUsize = AtomicUsize::new(usize::MAX);
static REFUSED: AtomicUsize = AtomicUsize::new(0);
static PEAK_REQ: AtomicUsize = AtomicUsize::new(0);

unsafe impl GlobalAlloc for GuardAlloc {
    unsafe fn alloc(&self, layout: Layout) -> *mut u8 {
        let sz = layout.size();
        if sz > LIMIT.load(Ordering::Relaxed) {
            REFUSED.store(sz, Ordering::SeqCst);
            super::marker::note_alloc(sz);
            return std::ptr::null_mut();
        }
        if sz > PEAK_REQ.load(Ordering::Relaxed) {
            PEAK_REQ.store(sz, Ordering::Relaxed);
        }
        System.alloc(layout)
    }
    unsafe fn dealloc(&self, ptr: *mut u8, layout: Layout) {
        System.dealloc(ptr, layout)
    }
    unsafe fn alloc_zeroed(&self, layout: Layout) -> *mut u8 {
        let sz = layout.size();
        if sz > LIMIT.load(Ordering::Relaxed) {
            REFUSED.store(sz, Ordering::SeqCst);
            super::marker::note_alloc(sz);
            return std::ptr::null_mut();
        }
        if sz > PEAK_REQ.load(Ordering::Relaxed) {
            PEAK_REQ.store(sz, Ordering::Relaxed);
        }
        System.alloc_zeroed(layout)
    }
    unsafe fn realloc(&self, ptr: *mut u8, layout: Layout, new_size: usize) -> *mut u8 {
        // amortised growth is not a "size field" allocation: never refused here
        System.realloc(ptr, layout, new_size)
    }
}

/// Arm the guard for a case whose input is `input_len` bytes long.
pub fn arm(input_len: usize) {
    let lim = std::cmp::max(64usize << 20, input_len.saturating_mul(1024));
    REFUSED.store(0, Ordering::SeqCst);
    LIMIT.store(lim, Ordering::SeqCst);
}

pub fn disarm() {
    LIMIT.store(usize::MAX, Ordering::SeqCst);
}

pub fn refused() -> usize {
    REFUSED.load(Ordering::SeqCst)
}

pub fn take_peak() -> usize {
    PEAK_REQ.swap(0, Ordering::Relaxed)
}
