//! C08 — subsetting preserves the character mapping of retained glyphs.
//!
//! Source mapping S = the subtable the documented preference order selects, read by the
//! independent reader `refmodel::cmap` (characters derived per encoding). A font (fixture or a
//! generated `BasicFont` whose cmap stresses the writer) is subset through `subset::subset` and
//! `subset::prince::subset` (Unrestricted, MacRoman, MacRomanCmap(array), Omit). The output cmap
//! is read by the same independent reader and must equal {c -> new_id(S[c]) : S[c] retained}
//! exactly (nothing dropped, nothing invented), restricted to Mac Roman characters for the
//! MacRoman target; `Font::lookup_glyph_index` on the reloaded subset must agree.

use crate::engine::util::{mix64, pick};
use crate::engine::{fixtures, CaseResult, Ctx, Fail, Property, Rec};
use crate::fontgen::basic::{os2_v4, BasicFont};
use crate::fontgen::cmap::{self as enc, Chooser};
use crate::fontgen::sfnt::{build_sfnt, find_table, parse_directory, OTTO, TTF};
use crate::props::c06::{self, RecModel};
use crate::refmodel::cmap::{self as rm, Enc};
use allsorts::binary::read::ReadScope;
use allsorts::font::{Font, MatchingPresentation};
use allsorts::font_data::FontData;
use allsorts::subset::prince::PrinceCmapTarget;
use proptest::prelude::*;
use std::collections::{BTreeMap, BTreeSet, HashMap};
use std::sync::{Arc, Mutex, OnceLock};

pub struct C08;

fn fail(kind: &str, msg: String) -> Fail {
    Fail::new(format!("C08:{}", kind), msg)
}

/// A character as the subsetter's documentation distinguishes them: a Unicode scalar value, or
/// a code of a Windows Symbol subtable (outside Unicode).
#[derive(Clone, Copy, Debug, PartialEq, Eq, PartialOrd, Ord)]
pub enum Ch {
    Uni(u32),
    Sym(u32),
}

// ---------------------------------------------------------------------------------------------
// source fonts

#[derive(Clone, Copy, Debug, PartialEq, Eq)]
pub enum Flavour {
    Ttf,
    Cff,
    Cff2,
    Other,
}

#[derive(Debug)]
pub struct Source {
    pub name: String,
    pub bytes: Vec<u8>,
    pub flavour: Flavour,
    pub num_glyphs: u16,
    /// OS/2.usFirstCharIndex, None without OS/2
    pub first_char: Option<u16>,
    pub enc: Enc,
    pub format: u16,
    pub platform_encoding: (u16, u16),
    /// the selected subtable: code -> glyph (glyph != 0), by the independent reader
    pub table: BTreeMap<u32, u16>,
}

/// Independent view of a bare sfnt: selected cmap subtable, glyph count, flavour.
/// Err(reason) when the font is not usable as a subsetting source for this check.
pub fn read_source(name: &str, bytes: Vec<u8>) -> Result<Source, String> {
    let (flav, dir) = parse_directory(&bytes).ok_or("no sfnt directory")?;
    let has = |t: &[u8; 4]| dir.iter().any(|e| &e.tag == t);
    let flavour = if has(b"glyf") && has(b"loca") {
        Flavour::Ttf
    } else if has(b"CFF ") {
        Flavour::Cff
    } else if has(b"CFF2") {
        Flavour::Cff2
    } else {
        Flavour::Other
    };
    let _ = flav;
    let maxp = find_table(&bytes, b"maxp").ok_or("no maxp")?;
    if maxp.len() < 6 {
        return Err("short maxp".into());
    }
    let num_glyphs = u16::from_be_bytes([maxp[4], maxp[5]]);
    let first_char = find_table(&bytes, b"OS/2").and_then(|t| t.get(64..66)).map(|b| u16::from_be_bytes([b[0], b[1]]));
    let cmap = find_table(&bytes, b"cmap").ok_or("no cmap")?;
    let recs = rm::records(cmap).ok_or("bad cmap header")?;
    let (k, e) = rm::select(&recs).ok_or("no supported cmap record")?;
    let st = rm::subtable(cmap, recs[k].offset).ok_or("selected subtable has an unsupported format")?;
    let table = st.mappings(400_000).ok_or("selected subtable is malformed")?;
    let format = st.format;
    let pe = (recs[k].platform, recs[k].encoding);
    Ok(Source { name: name.to_string(), flavour, num_glyphs, first_char, enc: e, format, platform_encoding: pe, table, bytes })
}

/// is `c` in allsorts' Mac Roman set (Mac OS Roman minus the fifteen codes it leaves undefined
/// by design)? U+00A4 / U+20AC (code 0xDB) are answered by `disputed`.
fn mac_set_code(c: u32) -> Option<u8> {
    match rm::mac_roman_encode(c) {
        Some(b) if !rm::mac_roman_pdf_excluded(b) => Some(b),
        _ => None,
    }
}

#[derive(Default, Debug)]
pub struct SourceChars {
    /// character -> old glyph id (non-zero)
    pub map: BTreeMap<Ch, u16>,
    /// characters about which nothing is asserted
    pub disputed: BTreeSet<Ch>,
    /// Big5: characters with two codes, both mapped; `map` holds the glyph of the canonical code.
    /// Asserted only when that glyph is retained (if only the other code's glyph is retained the
    /// subsetter keeps the character for it: the same open question as a lone non-canonical code)
    pub twins: BTreeSet<Ch>,
    pub notes: BTreeSet<&'static str>,
}

/// The characters the source's selected subtable maps, per encoding.
pub fn source_chars(src: &Source) -> Result<SourceChars, &'static str> {
    let mut out = SourceChars::default();
    match src.enc {
        Enc::Unicode => {
            for (c, g) in &src.table {
                if char::from_u32(*c).is_some() {
                    out.map.insert(Ch::Uni(*c), *g);
                } else {
                    out.notes.insert("source:non-scalar-code");
                }
            }
        }
        Enc::Symbol => {
            for (c, g) in &src.table {
                out.map.insert(Ch::Sym(*c), *g);
            }
        }
        Enc::MacRoman => {
            for (c, g) in &src.table {
                if *c > 255 {
                    // not a Mac OS Roman code: the subtable maps no character through it
                    out.notes.insert("source:mac-roman-code-above-255");
                    continue;
                }
                let b = *c as u8;
                if b == 0xDB {
                    out.disputed.insert(Ch::Uni(0x20AC));
                    out.disputed.insert(Ch::Uni(rm::MAC_ROMAN_DB_OLD));
                } else if rm::mac_roman_pdf_excluded(b) {
                    out.notes.insert("source:mac-roman-code-undefined-by-design");
                } else {
                    out.map.insert(Ch::Uni(rm::mac_roman_decode(b)), *g);
                }
            }
        }
        Enc::Big5 => {
            // a character is looked up under the code the encoder gives it
            for (code, g) in &src.table {
                if *code > 0xFFFF {
                    continue;
                }
                match rm::big5_decode(*code as u16) {
                    Some(v) if v.len() == 1 => {
                        let c = v[0];
                        if rm::big5_encode(c).map(u32::from) == Some(*code) {
                            out.map.insert(Ch::Uni(c as u32), *g);
                        } else if big5_twins().iter().any(|(o, k)| *o == *code && src.table.iter().any(|(c2, _)| c2 == k)) {
                            // the smaller of the two codes of a twice-encoded character whose
                            // canonical (larger) code is mapped too: lookups of the character use
                            // the canonical code, whose entry decides (asserted above)
                            out.notes.insert("source:big5-twin-codes-both-mapped");
                            out.twins.insert(Ch::Uni(c as u32));
                        } else {
                            // a second code of a character the encoder writes differently:
                            // the character itself is looked up under its canonical code
                            out.notes.insert("source:big5-non-canonical-code");
                            out.disputed.insert(Ch::Uni(c as u32));
                        }
                    }
                    Some(v) => {
                        out.notes.insert("source:big5-sequence-code");
                        for c in v {
                            out.disputed.insert(Ch::Uni(c as u32));
                        }
                    }
                    None => {
                        out.notes.insert("source:big5-invalid-code");
                    }
                }
            }
        }
    }
    Ok(out)
}

/// (other code, canonical code) of every character that has two Big5 codes and whose canonical
/// code (the one the encoder writes, hence the one a lookup of the character uses) is the larger
fn big5_twins() -> &'static Vec<(u32, u32)> {
    static T: std::sync::OnceLock<Vec<(u32, u32)>> = std::sync::OnceLock::new();
    T.get_or_init(|| {
        let mut by_char: BTreeMap<char, Vec<u32>> = BTreeMap::new();
        for code in 0x8140u32..=0xFEFE {
            if let Some(v) = rm::big5_decode(code as u16) {
                if v.len() == 1 {
                    by_char.entry(v[0]).or_default().push(code);
                }
            }
        }
        let mut out = Vec::new();
        for (c, codes) in by_char {
            if codes.len() == 2 {
                if let Some(canon) = rm::big5_encode(c).map(u32::from) {
                    if canon == codes[1] {
                        out.push((codes[0], canon));
                    }
                }
            }
        }
        out
    })
}

// ---------------------------------------------------------------------------------------------
// fixtures (cached per process; the cache is a pure function of the file)

pub fn fixture_names() -> &'static Vec<String> {
    static NAMES: OnceLock<Vec<String>> = OnceLock::new();
    NAMES.get_or_init(|| {
        let mut v = fixtures::list("fonts", &["ttf", "otf"], 700_000);
        v.extend(fixtures::list("aots", &["otf", "ttf"], 700_000).into_iter().filter(|n| n.contains("cmap")));
        v
    })
}

pub fn fixture(name: &str) -> Option<Arc<Result<Source, String>>> {
    static CACHE: OnceLock<Mutex<HashMap<String, Arc<Result<Source, String>>>>> = OnceLock::new();
    let cache = CACHE.get_or_init(|| Mutex::new(HashMap::new()));
    if let Some(s) = cache.lock().unwrap().get(name) {
        return Some(s.clone());
    }
    let bytes = fixtures::read(name)?;
    let s = Arc::new(read_source(name, bytes));
    cache.lock().unwrap().insert(name.to_string(), s.clone());
    Some(s)
}

// ---------------------------------------------------------------------------------------------
// generated sources

#[derive(Clone, Copy, Debug, PartialEq)]
pub enum SrcKind {
    WinBmp,
    WinFull,
    Uni03F4,
    Uni04F12,
    UniDense6,
    UniDense10,
    MacCharsOnly,
    Symbol,
    MacF0,
    MacF6,
    Big5F4,
    Big5F2,
}

#[derive(Clone, Debug)]
pub struct CRun {
    pool: u8,
    rnd: u32,
    len: u16,
    stride: u8,
    gpat: u8,
    g0: u16,
}

#[derive(Clone, Debug)]
pub struct ListSpec {
    style: u8,
    k: u16,
    picks: Vec<u32>,
    order: u8,
    seed: u32,
}

#[derive(Clone, Debug)]
pub enum Target {
    Plain,
    PrinceUnrestricted,
    PrinceMacRoman,
    PrinceOmit,
    PrinceMacRomanCmap(Vec<u8>),
}

#[derive(Clone, Debug)]
pub struct GenCase {
    n_glyphs: u16,
    kind: SrcKind,
    runs: Vec<CRun>,
    big5: Vec<(u8, u32, u16)>,
    layout: Vec<u32>,
    first_char: Option<u16>,
    list: ListSpec,
    target: Target,
}

#[derive(Clone, Debug)]
pub struct FixCase {
    font: u32,
    list: ListSpec,
    target: Target,
}

fn crun() -> impl Strategy<Value = CRun> {
    (
        0u8..8,
        any::<u32>(),
        prop_oneof![40 => 1u16..8, 30 => 8u16..60, 10 => 60u16..400, 1 => 33_000u16..40_000],
        prop_oneof![5 => Just(1u8), 1 => Just(2u8), 1 => Just(3u8), 2 => Just(4u8), 2 => Just(5u8), 2 => Just(6u8), 1 => Just(9u8)],
        0u8..5,
        any::<u16>(),
    )
        .prop_map(|(pool, rnd, len, stride, gpat, g0)| CRun { pool, rnd, len, stride, gpat, g0 })
}

fn list_spec() -> impl Strategy<Value = ListSpec> {
    (
        prop_oneof![3 => Just(0u8), 4 => Just(1u8), 2 => Just(2u8), 2 => Just(3u8), 2 => Just(4u8), 2 => Just(5u8)],
        any::<u16>(),
        proptest::collection::vec(any::<u32>(), 0..14),
        0u8..3,
        any::<u32>(),
    )
        .prop_map(|(style, k, picks, order, seed)| ListSpec { style, k, picks, order, seed })
}

fn target() -> impl Strategy<Value = Target> {
    prop_oneof![
        4 => Just(Target::Plain),
        2 => Just(Target::PrinceUnrestricted),
        4 => Just(Target::PrinceMacRoman),
        1 => Just(Target::PrinceOmit),
        1 => proptest::collection::vec(any::<u8>(), 256).prop_map(Target::PrinceMacRomanCmap),
    ]
}

fn gen_case() -> impl Strategy<Value = GenCase> {
    let kind = prop_oneof![
        5 => Just(SrcKind::WinBmp),
        4 => Just(SrcKind::WinFull),
        2 => Just(SrcKind::Uni03F4),
        2 => Just(SrcKind::Uni04F12),
        1 => Just(SrcKind::UniDense6),
        1 => Just(SrcKind::UniDense10),
        5 => Just(SrcKind::MacCharsOnly),
        4 => Just(SrcKind::Symbol),
        2 => Just(SrcKind::MacF0),
        2 => Just(SrcKind::MacF6),
        1 => Just(SrcKind::Big5F4),
        1 => Just(SrcKind::Big5F2),
    ];
    let n = prop_oneof![6 => 2u16..40, 1 => 40u16..250, 3 => 250u16..330, 1 => Just(600u16), 1 => 256u16..258];
    let first = prop_oneof![2 => Just(None), 3 => Just(Some(0x20u16)), 4 => Just(Some(0xF020u16)), 1 => Just(Some(0xF000u16)), 1 => Just(Some(0x21u16))];
    (
        n,
        kind,
        proptest::collection::vec(crun(), 1..7),
        proptest::collection::vec((any::<u8>(), any::<u32>(), any::<u16>()), 0..40),
        proptest::collection::vec(any::<u32>(), 0..40),
        first,
        list_spec(),
        target(),
    )
        .prop_map(|(n_glyphs, kind, runs, big5, layout, first_char, list, target)| GenCase { n_glyphs, kind, runs, big5, layout, first_char, list, target })
}

const BMP_BASES: [u32; 12] = [0x100, 0x370, 0x2000, 0x20AC, 0x2200, 0x3040, 0x4E00, 0xFB00, 0xFFF0, 0xFFFB, 0xD7F0, 0xE000];
const EDGE_BASES: [u32; 6] = [0, 1, 0xFFFD, 0xFFFE, 0xFFFF, 0xD7FF];
const ASTRAL_BASES: [u32; 6] = [0x10000, 0x1F600, 0x2F800, 0xE0100, 0x10FFF0, 0x10FFFF];

/// code -> glyph model of a generated source
fn gen_map(c: &GenCase) -> BTreeMap<u32, u16> {
    let n = c.n_glyphs.max(2);
    let gid = |r: &CRun, j: u32| -> u16 {
        let m = (n - 1) as u32;
        let v = match r.gpat {
            0 | 1 => r.g0 as u32 + j,
            2 => r.g0 as u32,
            3 => mix64(r.g0 as u64 * 65537 + j as u64) as u32 & 0xFFFFFF,
            _ => (r.g0 as u32 + 100_000).wrapping_sub(j),
        };
        1 + (v % m) as u16
    };
    let mut m = BTreeMap::new();
    let (max_code, pools): (u32, &[u8]) = match c.kind {
        SrcKind::WinBmp | SrcKind::Uni03F4 => (0xFFFF, &[0, 1, 2, 3, 4, 0, 3, 6]),
        SrcKind::WinFull | SrcKind::Uni04F12 => (0x10FFFF, &[0, 1, 2, 3, 4, 5, 5, 6]),
        SrcKind::UniDense6 => (0xFFFF, &[0, 1, 3, 3, 4, 0, 3, 6]),
        SrcKind::UniDense10 => (0x10FFFF, &[0, 1, 3, 5, 4, 5, 5, 6]),
        SrcKind::MacCharsOnly => (0xFFFF, &[0, 2, 2, 0, 2, 0, 2, 2]),
        SrcKind::Symbol => (0xFFFF, &[6, 6, 0, 6, 7, 6, 0, 7]),
        SrcKind::MacF0 => (0xFF, &[8, 8, 8, 8, 8, 8, 8, 8]),
        // a (1,0) format 6 subtable can list codes above 255: they are no Mac OS Roman codes, so no
        // character is mapped through them - and none may be in the subset either
        SrcKind::MacF6 => (0x1FF, &[8, 8, 8, 8, 8, 8, 9, 8]),
        SrcKind::Big5F4 | SrcKind::Big5F2 => {
            // glyph ids folded into the font
            let mut m: BTreeMap<u32, u16> = c06::big5_map(&c.big5).into_iter().map(|(k, g)| (k, 1 + g % (n - 1))).collect();
            // characters that Big5 encodes twice: both codes mapped, to different glyphs (the
            // character itself is looked up under the code the encoder gives it)
            let tw = big5_twins();
            for (sel, rnd, gid) in &c.big5 {
                if sel % 8 == 5 && (rnd >> 16) & 1 == 1 && !tw.is_empty() && n > 3 {
                    let (other, canon) = tw[pick(tw.len(), rnd.wrapping_mul(2654435761))];
                    let g1 = 1 + *gid % (n - 1);
                    let g2 = 1 + (g1 % (n - 1));
                    m.insert(other, g1);
                    m.insert(canon, g2);
                }
            }
            return m;
        }
    };
    let dense = matches!(c.kind, SrcKind::UniDense6 | SrcKind::UniDense10);
    let mut dense_base = None;
    for r in &c.runs {
        let pool = pools[(r.pool % 8) as usize];
        let mut base = match pool {
            0 => 0x20 + r.rnd % 0x5F,
            1 => 0xA0 + r.rnd % 0x60,
            2 => 0x80 + r.rnd % 0x80, // index into the Mac Roman table, resolved below
            3 => BMP_BASES[pick(BMP_BASES.len(), r.rnd)] + (r.rnd >> 4) % 16,
            4 => EDGE_BASES[pick(EDGE_BASES.len(), r.rnd)],
            5 => ASTRAL_BASES[pick(ASTRAL_BASES.len(), r.rnd)] + (r.rnd >> 4) % 4,
            6 => 0xF020 + r.rnd % 0xE0,
            7 => 0xF000 + r.rnd % 0x120,
            9 => 0x100 + r.rnd % 0x100,
            _ => r.rnd % 256,
        };
        if dense {
            match dense_base {
                None => dense_base = Some(base),
                Some(b) => base = (b + (r.rnd >> 8) % 400).min(max_code),
            }
        }
        // very long runs only where both the source and the output can hold them (format 12)
        let len = if dense {
            r.len.min(120)
        } else if r.len > 400 && c.kind != SrcKind::Uni04F12 {
            r.len % 400 + 1
        } else {
            r.len
        } as u32;
        let stride = if r.stride == 9 { 1 + (r.rnd >> 12) % 40 } else { r.stride as u32 };
        for j in 0..len {
            let code = if pool == 2 {
                // successive Mac Roman high characters (stride applies to the table index)
                let i = (base - 0x80 + j * stride) as usize;
                if i >= 128 {
                    break;
                }
                rm::MAC_ROMAN_HIGH[i]
            } else {
                match base.checked_add(j * stride) {
                    Some(v) if v <= max_code => v,
                    _ => break,
                }
            };
            if c.kind != SrcKind::Symbol && !matches!(c.kind, SrcKind::MacF0 | SrcKind::MacF6) && char::from_u32(code).is_none() {
                continue;
            }
            m.insert(code, gid(r, j));
        }
    }
    if c.kind == SrcKind::MacF0 {
        for g in m.values_mut() {
            *g = 1 + (*g - 1) % 255u16.min(n - 1);
        }
    }
    m
}

/// the complete generated font
fn gen_font(c: &GenCase) -> Vec<u8> {
    let map = gen_map(c);
    let mk = |p: u16, e: u16, f: u16, map: BTreeMap<u32, u16>| RecModel { platform: p, encoding: e, format: f, map, extra_leads: BTreeSet::new() };
    let bmp = || -> BTreeMap<u32, u16> { map.iter().filter(|(c, _)| **c <= 0xFFFF).map(|(c, g)| (*c, *g)).collect() };
    let recs: Vec<RecModel> = match c.kind {
        SrcKind::WinBmp | SrcKind::MacCharsOnly => vec![mk(3, 1, 4, map.clone())],
        SrcKind::WinFull => vec![mk(3, 10, 12, map.clone()), mk(3, 1, 4, bmp())],
        SrcKind::Uni03F4 => vec![mk(0, 3, 4, map.clone()), mk(1, 0, 0, BTreeMap::new())],
        SrcKind::Uni04F12 => vec![mk(0, 4, 12, map.clone())],
        SrcKind::UniDense6 => vec![mk(0, 3, 6, map.clone())],
        SrcKind::UniDense10 => vec![mk(0, 4, 10, map.clone())],
        SrcKind::Symbol => vec![mk(3, 0, 4, map.clone())],
        SrcKind::MacF0 => vec![mk(1, 0, 0, map.clone())],
        SrcKind::MacF6 => vec![mk(1, 0, 6, map.clone())],
        SrcKind::Big5F4 => vec![mk(3, 4, 4, map.clone())],
        SrcKind::Big5F2 => {
            let mut r = mk(3, 4, 2, map.clone());
            r.extra_leads = (0x81u8..=0xFE).collect();
            let leads = enc::format2_leads(&r.map, &r.extra_leads);
            r.map.retain(|c, _| *c >= 0x100 || !leads.contains(&(*c as u8)));
            vec![r]
        }
    };
    let mut ch = Chooser::new(&c.layout);
    let subs: Vec<Vec<u8>> = recs.iter().map(|r| c06::encode_record(r, &mut ch).bytes).collect();
    let records: Vec<(u16, u16, usize)> = recs.iter().enumerate().map(|(i, r)| (r.platform, r.encoding, i)).collect();
    let cmap = enc::cmap_table(&records, &subs, &mut ch);
    let mut bf = BasicFont::with_glyphs(c.n_glyphs.max(2));
    bf.long_loca = c.n_glyphs > 300;
    bf.extra.push((*b"cmap", cmap));
    if let Some(fc) = c.first_char {
        bf.extra.push((*b"OS/2", os2_v4(fc, 0xFFFF, 400)));
    }
    let mut tables = bf.tables();
    if c.first_char.is_none() {
        tables.retain(|t| &t.0 != b"OS/2");
    }
    build_sfnt(TTF, &tables)
}

/// `[0] ++ distinct ids`
fn glyph_list(spec: &ListSpec, n: u16, mapped: &[u16]) -> Vec<u16> {
    let n = n.max(1) as u32;
    let mut ids: Vec<u16> = Vec::new();
    match spec.style {
        0 => {
            for p in &spec.picks {
                ids.push((p % n) as u16);
            }
        }
        1 => {
            for (i, p) in spec.picks.iter().enumerate() {
                if !mapped.is_empty() && i % 4 != 3 {
                    ids.push(mapped[pick(mapped.len(), *p)]);
                } else {
                    ids.push((p % n) as u16);
                }
            }
        }
        2 => {
            let k = 1 + spec.k as u32 % n.min(700);
            ids.extend((0..k).map(|g| g as u16));
        }
        3 => {
            ids.extend((0..n.min(2000)).map(|g| g as u16));
        }
        5 => {
            for p in &spec.picks {
                ids.push((p % n) as u16);
            }
        }
        _ => {
            // cross 255/256: 250..300 glyphs when the font has them
            let k = (250 + spec.k as u32 % 60).min(n);
            let start = if n > k { spec.seed % (n - k) } else { 0 };
            ids.extend((start..start + k).map(|g| g as u16));
        }
    }
    if spec.style == 5 {
        // the 255/256 edge: a mapped glyph receives exactly new id 255, 256 or 257
        if let (true, Some(p)) = (n >= 259, spec.picks.first()) {
            let m = if mapped.is_empty() { 1 } else { mapped[pick(mapped.len(), *p)] };
            let at = 254 + (spec.k % 3) as usize;
            let mut out: Vec<u16> = vec![0];
            out.extend((1..n as u16).filter(|g| *g != m).take(at));
            out.push(m);
            if spec.order == 1 {
                // a few more glyphs behind it
                let have: BTreeSet<u16> = out.iter().copied().collect();
                out.extend((1..n as u16).filter(|g| !have.contains(g)).take(3));
            }
            return out;
        }
    }
    let mut seen = BTreeSet::new();
    ids.retain(|g| *g != 0 && seen.insert(*g));
    match spec.order {
        0 => ids.sort(),
        1 => {
            ids.sort();
            ids.reverse();
        }
        _ => ids.sort_by_key(|g| mix64(*g as u64 ^ ((spec.seed as u64) << 20))),
    }
    let mut out = vec![0u16];
    out.extend(ids);
    out
}

// ---------------------------------------------------------------------------------------------
// the check

struct Output {
    enc: Enc,
    format: u16,
    pe: (u16, u16),
    table: BTreeMap<u32, u16>,
    raw_f0: Option<Vec<u8>>,
}

fn read_output(out: &[u8]) -> Result<Option<Output>, Fail> {
    let cmap = match find_table(out, b"cmap") {
        Some(c) => c,
        None => return Ok(None),
    };
    let recs = rm::records(cmap).ok_or_else(|| fail("output-cmap-unreadable", "cmap header of the subset is malformed".into()))?;
    let (k, e) = rm::select(&recs).ok_or_else(|| fail("output-cmap-unreadable", format!("no usable record among {:?}", recs)))?;
    let st = rm::subtable(cmap, recs[k].offset).ok_or_else(|| fail("output-cmap-unreadable", "subtable format not readable".into()))?;
    let table = st.mappings(400_000).ok_or_else(|| fail("output-cmap-unreadable", format!("format {} subtable of the subset is malformed", st.format)))?;
    let raw_f0 = if st.format == 0 { st.data.get(6..262).map(|s| s.to_vec()) } else { None };
    Ok(Some(Output { enc: e, format: st.format, pe: (recs[k].platform, recs[k].encoding), table, raw_f0 }))
}

fn load_font(bytes: &[u8]) -> Result<Font<allsorts::font_data::DynamicFontTableProvider<'_>>, String> {
    let fd = ReadScope::new(bytes).read::<FontData<'_>>().map_err(|e| format!("{:?}", e))?;
    let prov = fd.table_provider(0).map_err(|e| format!("{:?}", e))?;
    Font::new(prov).map_err(|e| format!("{:?}", e))
}

fn run_subset(src: &Source, list: &[u16], target: &Target) -> Result<Result<Vec<u8>, String>, Fail> {
    let fd = ReadScope::new(&src.bytes)
        .read::<FontData<'_>>()
        .map_err(|e| fail("source-unreadable", format!("{}: {:?}", src.name, e)))?;
    let prov = fd.table_provider(0).map_err(|e| fail("source-unreadable", format!("{}: {:?}", src.name, e)))?;
    let r = match target {
        Target::Plain => allsorts::subset::subset(&prov, list),
        Target::PrinceUnrestricted => allsorts::subset::prince::subset(&prov, list, PrinceCmapTarget::Unrestricted, true),
        Target::PrinceMacRoman => allsorts::subset::prince::subset(&prov, list, PrinceCmapTarget::MacRoman, true),
        Target::PrinceOmit => allsorts::subset::prince::subset(&prov, list, PrinceCmapTarget::Omit, true),
        Target::PrinceMacRomanCmap(a) => {
            let mut arr = [0u8; 256];
            arr.copy_from_slice(&a[..256]);
            allsorts::subset::prince::subset(&prov, list, PrinceCmapTarget::MacRomanCmap(Box::new(arr)), true)
        }
    };
    Ok(r.map_err(|e| format!("{:?}", e)))
}

fn ch_str(c: &Ch) -> String {
    match c {
        Ch::Uni(v) => format!("U+{:04X}", v),
        Ch::Sym(v) => format!("symbol code {:#X}", v),
    }
}

pub fn check(src: &Source, list: &[u16], target: &Target, generated: bool, rec: &mut Rec) -> CaseResult {
    let prince = !matches!(target, Target::Plain);
    if prince && src.flavour != Flavour::Ttf {
        // prince::subset returns a bare CFF table for CFF sources: no cmap to examine
        rec.class("excluded:prince-cff-output-has-no-cmap");
        return Ok(());
    }
    let sc = match source_chars(src) {
        Ok(s) => s,
        Err(why) => {
            rec.class(&format!("excluded:{}", why));
            return Ok(());
        }
    };
    for n in &sc.notes {
        rec.class(n);
    }
    let new_id: HashMap<u16, u16> = list.iter().enumerate().map(|(i, g)| (*g, i as u16)).collect();
    let first_src = src.first_char.unwrap_or(0x20);

    // S restricted to the target's repertoire
    let mac_target = matches!(target, Target::PrinceMacRoman);
    let mut disputed = sc.disputed.clone();
    for c in &sc.twins {
        match sc.map.get(c) {
            Some(g) if new_id.contains_key(g) => rec.class("source:big5-twin:canonical-glyph-retained"),
            _ => {
                disputed.insert(*c);
            }
        }
    }
    let mut s_map: BTreeMap<Ch, u16> = BTreeMap::new();
    if mac_target && src.enc == Enc::Symbol {
        // a symbol font maps a character through the documented legacy rule
        for b in 0u32..256 {
            let c = rm::mac_roman_decode(b as u8);
            if b == 0xDB {
                disputed.insert(Ch::Uni(c));
                disputed.insert(Ch::Uni(rm::MAC_ROMAN_DB_OLD));
                continue;
            }
            if mac_set_code(c).is_none() {
                continue;
            }
            if let Some(code) = rm::symbol_code(c, first_src) {
                if let Some(g) = src.table.get(&code) {
                    s_map.insert(Ch::Uni(c), *g);
                }
            }
        }
    } else if mac_target {
        for (c, g) in &sc.map {
            if let Ch::Uni(v) = c {
                if *v == rm::MAC_ROMAN_DB_OLD || *v == 0x20AC {
                    disputed.insert(*c);
                } else if mac_set_code(*v).is_some() {
                    s_map.insert(*c, *g);
                }
            }
        }
    } else {
        s_map = sc.map.clone();
    }
    // expected output
    let mut exp: BTreeMap<Ch, u16> = BTreeMap::new();
    for (c, g) in &s_map {
        if let Some(n) = new_id.get(g) {
            if *n != 0 && !disputed.contains(c) {
                exp.insert(*c, *n);
            }
        }
    }
    rec.hash_bytes(src.name.as_bytes());
    rec.hash_bytes(&list.iter().flat_map(|g| g.to_be_bytes()).collect::<Vec<u8>>());
    rec.hash_bytes(format!("{:?}", target).as_bytes());

    let out = match run_subset(src, list, target)? {
        Ok(o) => o,
        Err(e) => {
            if matches!(target, Target::PrinceMacRomanCmap(_)) && list.len() > 256 {
                rec.class("error:supplied-array-with-more-than-256-glyphs");
                return Ok(());
            }
            if !generated {
                // fixtures may be unsupported for reasons outside this property (C07/C09)
                rec.class("excluded:fixture-subset-error");
                return Ok(());
            }
            if exp.len() > 8000 {
                rec.class("error:large-mapping-refused");
                return Ok(());
            }
            return Err(fail("subset-error", format!("{}: subset failed: {} ({} glyphs, {} expected mappings, target {:?})", src.name, e, list.len(), exp.len(), short(target))));
        }
    };
    rec.artefact("source", if src.bytes.len() <= 200_000 { &src.bytes } else { &[] });
    rec.artefact("subset", if out.len() <= 200_000 { &out } else { &[] });
    let is_sfnt = matches!(parse_directory(&out), Some((f, _)) if f == TTF || f == OTTO);
    if !is_sfnt {
        return Err(fail("output-not-sfnt", format!("{}: output is not an sfnt", src.name)));
    }
    let o = read_output(&out)?;
    match target {
        Target::PrinceOmit => {
            if o.is_some() {
                return Err(fail("omit-has-cmap", "Omit target: the subset has a cmap table".into()));
            }
            rec.class("target:omit");
            rec.set_nontrivial(!exp.is_empty());
            return Ok(());
        }
        Target::PrinceMacRomanCmap(a) => {
            let o = o.ok_or_else(|| fail("no-cmap", "supplied array: the subset has no cmap".into()))?;
            if o.pe != (1, 0) || o.format != 0 || o.raw_f0.as_deref() != Some(&a[..]) {
                return Err(fail("supplied-array-altered", format!("supplied array: output is ({},{}) format {} and differs from the array", o.pe.0, o.pe.1, o.format)));
            }
            rec.class("target:supplied-array");
            rec.set_nontrivial(a.iter().any(|b| *b != 0));
            return Ok(());
        }
        _ => {}
    }
    let o = o.ok_or_else(|| fail("no-cmap", format!("{}: the subset has no cmap table", src.name)))?;

    // output characters
    let mut got: BTreeMap<Ch, u16> = BTreeMap::new();
    for (code, g) in &o.table {
        let c = match o.enc {
            Enc::Unicode => {
                if char::from_u32(*code).is_none() {
                    return Err(fail("mapping-invented", format!("output maps the non-scalar code {:#X}", code)));
                }
                Ch::Uni(*code)
            }
            Enc::Symbol => Ch::Sym(*code),
            Enc::MacRoman => {
                if *code > 255 {
                    return Err(fail("mapping-invented", format!("Mac Roman output maps code {:#X}", code)));
                }
                let b = *code as u8;
                if b == 0xDB {
                    // currency sign or euro sign: whichever the source has
                    let cur = Ch::Uni(rm::MAC_ROMAN_DB_OLD);
                    let euro = Ch::Uni(0x20AC);
                    if disputed.contains(&cur) || disputed.contains(&euro) {
                        continue;
                    }
                    got.insert(if exp.contains_key(&euro) && !exp.contains_key(&cur) { euro } else { cur }, *g);
                    continue;
                }
                if rm::mac_roman_pdf_excluded(b) {
                    return Err(fail("mapping-invented", format!("Mac Roman output maps code {:#04X}, which is outside allsorts' Mac Roman set", b)));
                }
                Ch::Uni(rm::mac_roman_decode(b))
            }
            Enc::Big5 => return Err(fail("output-encoding", "the subset's cmap is Big5 encoded".into())),
        };
        got.insert(c, *g);
    }
    rec.class(&format!("emitted:({},{}) f{}", o.pe.0, o.pe.1, o.format));
    rec.class(&format!("source:{:?} ({},{}) f{}", src.enc, src.platform_encoding.0, src.platform_encoding.1, src.format));
    rec.class(match target {
        Target::Plain => "target:subset::subset",
        Target::PrinceUnrestricted => "target:prince-unrestricted",
        Target::PrinceMacRoman => "target:prince-macroman",
        _ => "target:other",
    });
    rec.class_if(list.len() > 256, "glyphs>256");
    rec.class_if(list.len() > 255 && o.format == 0, "glyphs>255,format-0");
    rec.class_if(exp.len() > 255, "mappings>255");
    rec.class_if(exp.len() > 32767, "mappings>32767");
    rec.class_if(exp.keys().any(|c| matches!(c, Ch::Uni(v) if *v > 0xFFFF)), "plane:astral");
    rec.class_if(exp.keys().any(|c| matches!(c, Ch::Uni(0xFFFF))), "char:U+FFFF");
    rec.class_if(exp.keys().any(|c| matches!(c, Ch::Uni(0))), "char:U+0000");
    rec.class_if(src.flavour != Flavour::Ttf, "source:cff");
    {
        // gaps between consecutive retained characters (what the format 4 writer reasons about)
        let codes: Vec<u32> = exp.keys().map(|c| match c { Ch::Uni(v) | Ch::Sym(v) => *v }).collect();
        let gaps: BTreeSet<u32> = codes.windows(2).map(|w| w[1] - w[0] - 1).collect();
        rec.class_if(gaps.contains(&3), "gap:3");
        rec.class_if(gaps.contains(&4), "gap:4");
        rec.class_if(gaps.contains(&5), "gap:5");
        let mut by_glyph: HashMap<u16, u32> = HashMap::new();
        for g in exp.values() {
            *by_glyph.entry(*g).or_insert(0) += 1;
        }
        rec.class_if(by_glyph.values().any(|n| *n >= 3), "glyph-with-3+-chars");
    }
    if mac_target && o.pe != (1, 0) {
        return Err(fail("macroman-target-encoding", format!("MacRoman target: output is ({},{}) format {}", o.pe.0, o.pe.1, o.format)));
    }

    // compare (both directions)
    if got != exp {
        // defect models: does a specific, already described deviation explain the whole output?
        let trunc = |m: &BTreeMap<Ch, u16>| -> BTreeMap<Ch, u16> { m.iter().filter(|(_, n)| **n & 0xFF != 0).map(|(c, n)| (*c, *n & 0xFF)).collect() };
        if o.format == 0 && list.len() > 256 && got == trunc(&exp) {
            let (c, n) = exp.iter().find(|(c, n)| got.get(c) != Some(n)).unwrap();
            return Err(fail(
                "format0-glyph-id-truncated",
                format!(
                    "{}: {} glyphs retained, every retained character is Mac Roman: the format 0 cmap maps {} to glyph {} instead of {} (new id truncated to 8 bits); target {}",
                    src.name, list.len(), ch_str(c), got.get(c).copied().unwrap_or(0), n, short(target)
                ),
            ));
        }
        if mac_target && src.enc == Enc::Symbol {
            // the inverse of the legacy symbol rule as cmap/subset.rs computes it: codes outside
            // F000..F0FF are first moved *up* by 0xF000
            let mut old: BTreeMap<Ch, u16> = BTreeMap::new();
            for (code, g) in &src.table {
                let c0 = if (0xF000..=0xF0FF).contains(code) { *code } else { *code + 0xF000 };
                if let Some(v) = (c0 + 0x20).checked_sub(first_src as u32) {
                    if let (Some(n), true) = (new_id.get(g), mac_set_code(v).is_some() || v == rm::MAC_ROMAN_DB_OLD) {
                        if *n != 0 && !disputed.contains(&Ch::Uni(v)) {
                            old.insert(Ch::Uni(v), *n);
                        }
                    }
                }
            }
            if got == old || (o.format == 0 && list.len() > 256 && got == trunc(&old)) {
                let c = exp.keys().chain(got.keys()).find(|c| got.get(c) != exp.get(c)).unwrap();
                return Err(fail(
                    "symbol-to-macroman-inverse-rule",
                    format!(
                        "{}: symbol cmap, usFirstCharIndex {:#X}, MacRoman target: Font::lookup_glyph_index's rule maps {} to new glyph {:?}, the subset maps it to {:?} (subset.rs inverts the rule for codes outside F000..F0FF by adding 0xF000)",
                        src.name, first_src, ch_str(c), exp.get(c), got.get(c)
                    ),
                ));
            }
        }
        for (c, n) in &exp {
            let other = got.get(c);
            if other != Some(n) {
                let kind = if other.is_none() { "mapping-lost" } else { "mapping-wrong-glyph" };
                return Err(fail(
                    kind,
                    format!(
                        "{}: {} maps to old glyph {} (new id {}), the subset's ({},{}) format {} cmap maps it to {:?}; target {}",
                        src.name, ch_str(c), s_map.get(c).copied().unwrap_or(0), n, o.pe.0, o.pe.1, o.format, other, short(target)
                    ),
                ));
            }
        }
        for (c, g) in &got {
            if !exp.contains_key(c) && !disputed.contains(c) {
                return Err(fail(
                    "mapping-invented",
                    format!(
                        "{}: the subset maps {} to glyph {}; the source maps it to old glyph {:?} which is {}; target {}",
                        src.name,
                        ch_str(c),
                        g,
                        s_map.get(c),
                        if s_map.get(c).map_or(false, |g| new_id.contains_key(g)) { "retained" } else { "not retained / not mapped" },
                        short(target)
                    ),
                ));
            }
        }
    }

    // the library itself on the reloaded subset
    let mut font = load_font(&out).map_err(|e| fail("subset-unloadable", format!("{}: Font::new on the subset: {}", src.name, e)))?;
    let first_out = find_table(&out, b"OS/2").and_then(|t| t.get(64..66)).map(|b| u16::from_be_bytes([b[0], b[1]])).unwrap_or(0x20);
    let mut probes: Vec<(char, u16)> = Vec::new();
    match o.enc {
        Enc::Unicode | Enc::MacRoman => {
            let in_domain = |v: u32| o.enc == Enc::Unicode || (mac_set_code(v).is_some() && v != rm::MAC_ROMAN_DB_OLD);
            let step = (exp.len() / 400).max(1);
            for (i, (c, n)) in exp.iter().enumerate() {
                if let Ch::Uni(v) = c {
                    if i % step == 0 {
                        probes.push((char::from_u32(*v).unwrap(), *n));
                    }
                    for d in [v.wrapping_sub(1), v + 1] {
                        if let Some(ch) = char::from_u32(d) {
                            if i % step == 0 && in_domain(d) && !disputed.contains(&Ch::Uni(d)) {
                                probes.push((ch, exp.get(&Ch::Uni(d)).copied().unwrap_or(0)));
                            }
                        }
                    }
                }
            }
            // characters of the source that were not retained
            for (c, _) in sc.map.iter().filter(|(c, _)| !exp.contains_key(c)).take(60) {
                if let Ch::Uni(v) = c {
                    if in_domain(*v) && !disputed.contains(c) {
                        probes.push((char::from_u32(*v).unwrap(), 0));
                    }
                }
            }
        }
        Enc::Symbol => {
            if first_out == first_src && first_src >= 0x20 {
                // the same legacy rule applies before and after
                for v in (0x20u32..0x100).chain(0xF020..0xF100) {
                    let ch = char::from_u32(v).unwrap();
                    let code = rm::symbol_code(v, first_src).unwrap();
                    probes.push((ch, exp.get(&Ch::Sym(code)).copied().unwrap_or(0)));
                }
            } else {
                rec.class("excluded:symbol-usFirstCharIndex-not-carried-over");
            }
        }
        Enc::Big5 => {}
    }
    for (ch, n) in &probes {
        let (g, _) = font.lookup_glyph_index(*ch, MatchingPresentation::NotRequired, None);
        if g != *n {
            return Err(fail(
                "lookup-on-subset",
                format!("{}: lookup_glyph_index(U+{:04X}) on the reloaded subset = {}, expected {} (output ({},{}) format {})", src.name, *ch as u32, g, n, o.pe.0, o.pe.1, o.format),
            ));
        }
    }
    rec.evaluations(probes.len() as u64 + exp.len() as u64);
    rec.set_nontrivial(!exp.is_empty());
    rec.sample(|| format!("{} ({:?} f{}), {} glyphs, target {}: {} retained mappings, emitted ({},{}) f{}", src.name, src.enc, src.format, list.len(), short(target), exp.len(), o.pe.0, o.pe.1, o.format));
    Ok(())
}

fn short(t: &Target) -> &'static str {
    match t {
        Target::Plain => "subset::subset",
        Target::PrinceUnrestricted => "prince Unrestricted",
        Target::PrinceMacRoman => "prince MacRoman",
        Target::PrinceOmit => "prince Omit",
        Target::PrinceMacRomanCmap(_) => "prince MacRomanCmap",
    }
}

pub fn check_gen(c: &GenCase, rec: &mut Rec) -> CaseResult {
    let bytes = gen_font(c);
    let src = match read_source("generated", bytes) {
        Ok(s) => s,
        Err(e) => panic!("generated source not readable by the reference reader: {}", e),
    };
    // self-check: the reader sees the model
    let model = {
        let mut m = gen_map(c);
        if c.kind == SrcKind::Big5F2 {
            let leads: BTreeSet<u8> = (0x81u8..=0xFE).collect();
            m.retain(|c, _| *c >= 0x100 || !leads.contains(&(*c as u8)));
        }
        m
    };
    assert_eq!(src.table, model, "refmodel reader and generator model disagree ({:?})", c.kind);
    rec.class(&format!("gen:{:?}", c.kind));
    let mut mapped: Vec<u16> = src.table.values().copied().collect();
    mapped.sort();
    mapped.dedup();
    let list = glyph_list(&c.list, src.num_glyphs, &mapped);
    check(&src, &list, &c.target, true, rec)
}

fn check_fix(c: &FixCase, rec: &mut Rec) -> CaseResult {
    let names = fixture_names();
    if names.is_empty() {
        rec.class("excluded:no-fixtures");
        return Ok(());
    }
    let name = &names[pick(names.len(), c.font)];
    let f = match fixture(name) {
        Some(f) => f,
        None => {
            rec.class("excluded:fixture-missing");
            return Ok(());
        }
    };
    let src = match &*f {
        Ok(s) => s,
        Err(_) => {
            rec.class("excluded:fixture-without-usable-cmap");
            return Ok(());
        }
    };
    if src.flavour == Flavour::Other {
        rec.class("excluded:fixture-without-outlines");
        return Ok(());
    }
    let mut mapped: Vec<u16> = src.table.values().copied().filter(|g| *g < src.num_glyphs).collect();
    mapped.sort();
    mapped.dedup();
    let list = glyph_list(&c.list, src.num_glyphs, &mapped);
    check(src, &list, &c.target, false, rec)
}

// ---------------------------------------------------------------------------------------------
// sources whose selected subtable has more than 65 536 mappings (deterministic)

const LARGE_ITEMS: u64 = 9;

fn check_large(i: u64, rec: &mut Rec) -> CaseResult {
    let n_glyphs = 40u16;
    let gid = |k: u32| -> u16 { 1 + (k.wrapping_mul(7) % (n_glyphs as u32 - 1)) as u16 };
    let (name, pe, sub): (&str, (u16, u16), Vec<u8>) = match i / 3 {
        0 => ("large:f10,first=0x20,numChars=70000", (0, 4), enc::format10_raw(0x20, &(0..70_000u32).map(gid).collect::<Vec<u16>>())),
        1 => ("large:f10,astral,numChars=66000", (3, 10), enc::format10_raw(0x10000, &(0..66_000u32).map(gid).collect::<Vec<u16>>())),
        _ => {
            // 70 000 single-code groups
            let groups: Vec<(u32, u32, u32)> = (0..70_000u32).map(|k| (0x3000 + k + (k / 50_000) * 0x1000, 0x3000 + k + (k / 50_000) * 0x1000, gid(k) as u32)).collect();
            let groups: Vec<(u32, u32, u32)> = groups.into_iter().filter(|g| char::from_u32(g.0).is_some()).collect();
            ("large:f12,70000-groups", (3, 10), enc::format12_raw(&groups))
        }
    };
    let target = match i % 3 {
        0 => Target::Plain,
        1 => Target::PrinceUnrestricted,
        _ => Target::PrinceMacRoman,
    };
    let dry = [0u32; 0];
    let mut ch = Chooser::new(&dry);
    let cmap = enc::cmap_table(&[(pe.0, pe.1, 0)], &[sub], &mut ch);
    let mut bf = BasicFont::with_glyphs(n_glyphs);
    bf.extra.push((*b"cmap", cmap));
    let src = match read_source(name, bf.build()) {
        Ok(s) => s,
        Err(e) => panic!("large source not readable by the reference reader: {}", e),
    };
    assert!(src.table.len() > 65_536, "large source has only {} mappings", src.table.len());
    rec.class(name);
    // three glyphs, among them the one of the very last entries
    let last = *src.table.values().last().unwrap();
    let mut list = vec![0u16, 3, 17, last];
    list.dedup();
    if i % 2 == 1 {
        list.swap(1, 2);
    }
    check(&src, &list, &target, true, rec)
}

impl Property for C08 {
    fn id(&self) -> &'static str {
        "C08"
    }
    fn rule(&self) -> String {
        "(font, glyph list [0]++distinct ids, target) triples: fixtures (tests/fonts, AOTS cmap fonts) and generated \
         fonts whose cmap stresses the writer (Mac Roman only / BMP / astral / symbol / Mac Roman and Big5 sources; \
         gaps 3/4/5; U+0000/FFFE/FFFF; consecutive / constant / scattered glyph runs; 250-330 and 600 glyph lists). \
         Source and output cmaps are read by refmodel::cmap. Non-trivial = at least one retained glyph that is mapped \
         (expected output mapping non-empty); distinct = hash of (font, list, target)"
            .into()
    }
    fn assumptions(&self) -> Vec<String> {
        vec![
            "new id of a requested glyph = its position in the glyph list (C07 checks the renumbering itself)".into(),
            "allsorts' Mac Roman set = Mac OS Roman minus fifteen codes left undefined by design; characters of code 0xDB (currency/euro) are not asserted".into(),
            "Big5 sources: a character is looked up under the WHATWG encoder's code; characters that also have a non-canonical code in the table are not asserted".into(),
            "symbol output is compared through Font::lookup_glyph_index only when usFirstCharIndex is the same before and after (TrueType subsets carry no OS/2 table)".into(),
            "subset errors are tolerated for fixtures, for supplied arrays with more than 256 glyphs and for more than 8000 retained mappings".into(),
        ]
    }
    fn run(&self, ctx: &mut Ctx) {
        let n = ctx.cases(24_000, 1_500_000);
        ctx.section("generated", n, gen_case(), |c, rec| check_gen(c, rec));
        ctx.enumerate("large-sources", LARGE_ITEMS, false, |i, rec| check_large(i, rec));
        let n = ctx.cases(6_000, 300_000);
        ctx.section(
            "fixtures",
            n,
            (any::<u32>(), list_spec(), target()).prop_map(|(font, list, target)| FixCase { font, list, target }),
            |c, rec| check_fix(c, rec),
        );
    }
}

// ---------------------------------------------------------------------------------------------
// libFuzzer decoder
//
// `case_from_bytes` maps fuzz bytes onto the `GenCase` domain of `gen_case()` (section `generated`):
// the same ranges and collection sizes, selectors with roughly the strategy's weights; `domain_violation`
// re-checks every decoded case. `Unstructured` yields the lower bound / zero once the input is exhausted
// and collections stop at their minimum size then, so every input is a case. 32-bit words that the
// model uses through `pick` (top bits) and `%` / `as u16` (low bits) are read from three bytes (top
// byte + low 16 bits); `CRun::rnd`, the Big5 words and the list seed, of which other bit fields are
// used too, are read in full. The Big5 items are only decoded for the two Big5 kinds (no other kind
// reads them; the strategy allows an empty list) and those kinds get a single default run (they read
// no runs). Layout: fixed-size header (kind, glyph count, OS/2, target, list style), list picks, runs,
// encoder layout words, Big5 items; the 256-byte array of `PrinceMacRomanCmap` is the rest of the input.

use arbitrary::Unstructured;

type UResult<T> = arbitrary::Result<T>;

/// any u32: top byte and low 16 bits from three bytes
fn fz_w32(u: &mut Unstructured<'_>) -> UResult<u32> {
    let a = u.arbitrary::<u8>()? as u32;
    let b = u.arbitrary::<u8>()? as u32;
    let c = u.arbitrary::<u8>()? as u32;
    Ok((a << 24) | (b << 8) | c)
}

/// `crun()`
fn fz_crun(u: &mut Unstructured<'_>) -> UResult<CRun> {
    const STRIDE: [u8; 16] = [1, 1, 1, 1, 1, 2, 3, 4, 4, 5, 5, 6, 6, 9, 1, 4];
    let h = u.arbitrary::<u8>()?;
    let pool = h & 7;
    let gpat = (h >> 3) % 5;
    let s = u.arbitrary::<u8>()?;
    let stride = STRIDE[(s & 15) as usize];
    let len = match s >> 4 {
        0..=7 => u.int_in_range(1u16..=7)?,
        8..=12 => u.int_in_range(8u16..=59)?,
        13 | 14 => u.int_in_range(60u16..=399)?,
        _ => u.int_in_range(33_000u16..=39_999)?,
    };
    let g0: u16 = u.arbitrary()?;
    let rnd: u32 = u.arbitrary()?;
    Ok(CRun { pool, rnd, len, stride, gpat, g0 })
}

/// Some(reason) if `c` is not a value of `gen_case()`.
fn domain_violation(c: &GenCase) -> Option<&'static str> {
    if !((2..330).contains(&c.n_glyphs) || c.n_glyphs == 600) {
        return Some("n_glyphs");
    }
    if !(1..7).contains(&c.runs.len()) {
        return Some("run count");
    }
    for r in &c.runs {
        if r.pool >= 8 || r.gpat >= 5 || ![1u8, 2, 3, 4, 5, 6, 9].contains(&r.stride) || !((1..400).contains(&r.len) || (33_000..40_000).contains(&r.len)) {
            return Some("run");
        }
    }
    if c.big5.len() >= 40 || c.layout.len() >= 40 {
        return Some("big5 / layout length");
    }
    if !matches!(c.first_char, None | Some(0x20) | Some(0xF020) | Some(0xF000) | Some(0x21)) {
        return Some("first_char");
    }
    if c.list.style > 5 || c.list.picks.len() >= 14 || c.list.order >= 3 {
        return Some("list spec");
    }
    if let Target::PrinceMacRomanCmap(a) = &c.target {
        if a.len() != 256 {
            return Some("supplied Mac Roman array length");
        }
    }
    None
}

/// bytes → a `GenCase` of `gen_case()` (section `generated`); total: every input is a case.
pub fn case_from_bytes(data: &[u8]) -> arbitrary::Result<GenCase> {
    const KIND: [SrcKind; 32] = [
        SrcKind::WinBmp, SrcKind::WinBmp, SrcKind::WinBmp, SrcKind::WinBmp, SrcKind::WinBmp,
        SrcKind::WinFull, SrcKind::WinFull, SrcKind::WinFull, SrcKind::WinFull,
        SrcKind::Uni03F4, SrcKind::Uni03F4, SrcKind::Uni04F12, SrcKind::Uni04F12,
        SrcKind::UniDense6, SrcKind::UniDense10,
        SrcKind::MacCharsOnly, SrcKind::MacCharsOnly, SrcKind::MacCharsOnly, SrcKind::MacCharsOnly, SrcKind::MacCharsOnly,
        SrcKind::Symbol, SrcKind::Symbol, SrcKind::Symbol, SrcKind::Symbol,
        SrcKind::MacF0, SrcKind::MacF0, SrcKind::MacF6, SrcKind::MacF6,
        SrcKind::Big5F4, SrcKind::Big5F2, SrcKind::Big5F4, SrcKind::Big5F2,
    ];
    const FIRST: [Option<u16>; 16] = [
        None, None, Some(0x20), Some(0x20), Some(0x20), Some(0xF020), Some(0xF020), Some(0xF020), Some(0xF020), Some(0xF000), Some(0x21),
        None, Some(0x20), Some(0xF020), Some(0xF020), Some(0xF000),
    ];
    const STYLE: [u8; 16] = [0, 0, 0, 1, 1, 1, 1, 2, 2, 3, 3, 4, 4, 5, 5, 1];
    let mut u = Unstructured::new(data);
    let u = &mut u;
    let kind = KIND[(u.arbitrary::<u8>()? & 31) as usize];
    let h = u.arbitrary::<u8>()?;
    let first_char = FIRST[(h & 15) as usize];
    let n_glyphs = match h >> 4 {
        0..=7 => u.int_in_range(2u16..=39)?,
        8 => u.int_in_range(40u16..=249)?,
        9..=12 => u.int_in_range(250u16..=329)?,
        13 => 600,
        _ => u.int_in_range(256u16..=257)?,
    };
    let t = u.arbitrary::<u8>()?;
    let target_sel = (t & 15) % 12;
    let style = STYLE[(u.arbitrary::<u8>()? & 15) as usize];
    let order = (t >> 4) % 3;
    let k: u16 = u.arbitrary()?;
    let seed: u32 = u.arbitrary()?;
    let np = u.int_in_range(0usize..=13)?;
    let mut picks = Vec::with_capacity(np);
    for _ in 0..np {
        if u.is_empty() {
            break; // 0..=13 picks
        }
        picks.push(fz_w32(u)?);
    }
    let big5_kind = matches!(kind, SrcKind::Big5F4 | SrcKind::Big5F2);
    let nr = if big5_kind { 1 } else { u.int_in_range(1usize..=6)? };
    let mut runs = Vec::with_capacity(nr);
    for i in 0..nr {
        if i >= 1 && u.is_empty() {
            break; // 1..=6 runs
        }
        runs.push(fz_crun(u)?);
    }
    let nl = u.int_in_range(0usize..=39)?;
    let mut layout = Vec::with_capacity(nl);
    for _ in 0..nl {
        if u.is_empty() {
            break; // 0..=39 layout words (the encoders read 0 when dry)
        }
        layout.push(fz_w32(u)?);
    }
    let mut big5 = Vec::new();
    if big5_kind {
        let nb = u.int_in_range(0usize..=39)?;
        for _ in 0..nb {
            if u.is_empty() {
                break; // 0..=39 items
            }
            let sel: u8 = u.arbitrary()?;
            let gid: u16 = u.arbitrary()?;
            let rnd: u32 = u.arbitrary()?;
            big5.push((sel, rnd, gid));
        }
    }
    let target = match target_sel {
        0..=3 => Target::Plain,
        4 | 5 => Target::PrinceUnrestricted,
        6..=9 => Target::PrinceMacRoman,
        10 => Target::PrinceOmit,
        _ => {
            let mut a = vec![0u8; 256];
            let n = u.len().min(256);
            let rest = u.bytes(n)?;
            a[..n].copy_from_slice(rest);
            Target::PrinceMacRomanCmap(a)
        }
    };
    let case = GenCase { n_glyphs, kind, runs, big5, layout, first_char, list: ListSpec { style, k, picks, order, seed }, target };
    if let Some(what) = domain_violation(&case) {
        panic!("C08 case_from_bytes left the domain of gen_case: {}", what);
    }
    Ok(case)
}
