//! C08 — not built yet.
use crate::engine::{Ctx, Property};

pub struct C08;

impl Property for C08 {
    fn id(&self) -> &'static str {
        "C08"
    }
    fn rule(&self) -> String {
        "not implemented".to_string()
    }
    fn run(&self, _ctx: &mut Ctx) {}
}
