// (included into c15_tt.rs) libFuzzer decoders for the TrueType-side sections: each `fz_*` maps the tape
// onto the domain of the strategy of the same name (same ranges; the dependent fix-ups are the
// strategy's, repeated)

use super::Tape;

fn fz_post(t: &mut Tape<'_>) -> PostM {
    let names = t.vec(0, 5, |t| {
        let len = match t.n(0, 7) {
            0..=2 => t.n(0, 11),
            3 => 0,
            4 => 255,
            5 => 254,
            6 => 256,
            _ => t.n(200, 255),
        };
        StrM { len, seed: t.n(0x21, 0x5F) as u8 }
    });
    let raw = t.vec(0, 19, |t| t.u16());
    let k = names.len() as u32;
    let mut idx: Vec<u16> = raw.iter().map(|r| ((*r as u32 * (258 + k)) >> 16) as u16).collect();
    if k > 0 {
        idx.push((257 + k) as u16);
    }
    let version = t.pick(&[0x0001_0000i32, 0x0002_5000, 0x0003_0000, 0x0002_0000, 0x0002_0000, 0x0002_0000]);
    let (italic, upos, uthick) = (t.b32() as i32, t.bi16(), t.bi16());
    let mem = [t.b32(), t.b32(), t.b32(), t.b32(), t.b32()];
    let unused_names = if t.chance(1, 4) { t.vec(1, 2, |t| StrM { len: t.n(0, 8), seed: t.n(0x21, 0x5F) as u8 }) } else { Vec::new() };
    PostM { version, italic, upos, uthick, mem, v2: if version == 0x0002_0000 { Some((idx, names)) } else { None }, unused_names }
}

fn fz_name(t: &mut Tape<'_>, big: bool) -> NameM {
    fn s(t: &mut Tape<'_>, big: bool) -> StrM {
        let len = if big {
            match t.n(0, 5) {
                0..=2 => t.n(0, 39),
                3 | 4 => t.pick(&[0u32, 1, 20000, 32767, 32768, 40000, 65534, 65535, 65536]),
                _ => t.n(10000, 29999),
            }
        } else {
            match t.n(0, 5) {
                0..=3 => t.n(0, 39),
                4 => 0,
                _ => t.n(200, 599),
            }
        };
        StrM { len, seed: t.u8() }
    }
    let mut recs = t.vec(0, 6, |t| NameRecM { ids: [t.b16(), t.b16(), t.b16(), t.b16()], s: s(t, big) });
    let langs = if t.chance(1, 3) { t.vec(1, 3, |t| s(t, big)) } else { Vec::new() };
    let gap = t.n(0, 11) as u16;
    let layout = (gap as usize + recs.len()) as u8 % 3;
    if layout == 1 && recs.len() >= 2 {
        let s0 = recs[0].s.clone();
        let last = recs.len() - 1;
        recs[last].s = s0;
    }
    NameM { recs, langs, gap: if gap > 4 { 0 } else { gap }, layout }
}

fn fz_loca(t: &mut Tape<'_>) -> LocaM {
    let mut offsets = t.vec(0, 9, |t| match t.n(0, 5) {
        0..=3 => t.n(0, 0xFFFF) * 2,
        4 => t.pick(&[0u32, 2, 0x1FFFC, 0x1FFFE, 0x20000, 0x20002, 0x1FFFF, 1, 3, 0xFFFF_FFFE, 0xFFFF_FFFF, 0x10000, 0xFFFE]),
        _ => t.u32(),
    });
    let short = t.bool();
    if t.bool() {
        offsets.sort();
    }
    LocaM { offsets, short }
}

fn fz_simple(t: &mut Tape<'_>, max_pts: usize) -> SimpleM {
    fn coord(t: &mut Tape<'_>) -> i16 {
        match t.n(0, 6) {
            0..=3 => t.i(-300, 299) as i16,
            4 | 5 => t.i(-16000, 15999) as i16,
            _ => t.pick(&[0i16, 255, 256, -255, -256, 1, -1]),
        }
    }
    let raw = t.vec(0, max_pts - 1, |t| (coord(t), coord(t), t.bool()));
    let sizes = t.vec(0, 5, |t| t.n(1, 5) as u16);
    let instr = t.vec(0, 4, |t| t.u8());
    let bbox = [t.bi16(), t.bi16(), t.bi16(), t.bi16()];
    let enc = t.u32();
    let mut pts = Vec::new();
    let (mut x, mut y) = (0i32, 0i32);
    for (dx, dy, on) in raw {
        x = (x + dx as i32).clamp(-16000, 16000);
        y = (y + dy as i32).clamp(-16000, 16000);
        pts.push((x as i16, y as i16, on));
    }
    let mut contours = Vec::new();
    let mut left = pts.len();
    for s in sizes {
        if left == 0 {
            break;
        }
        let c = (s as usize).min(left);
        contours.push(c as u16);
        left -= c;
    }
    if left > 0 {
        contours.push(left as u16);
    }
    SimpleM { bbox, contours, instr, pts, enc }
}

fn fz_composite(t: &mut Tape<'_>) -> CompM {
    let bbox = [t.bi16(), t.bi16(), t.bi16(), t.bi16()];
    let mut parts = t.vec(1, 4, |t| {
        let gid = t.b16();
        let args = match t.n(0, 3) {
            0 => ArgM::U8(t.u8(), t.u8()),
            1 => ArgM::I8(t.u8() as i8, t.u8() as i8),
            2 => ArgM::U16(t.b16(), t.b16()),
            _ => ArgM::I16(t.bi16(), t.bi16()),
        };
        let scale = match t.n(0, 4) {
            0 | 1 => ScaleM::None,
            2 => ScaleM::One(t.bi16()),
            3 => ScaleM::XY(t.bi16(), t.bi16()),
            _ => ScaleM::Matrix([t.bi16(), t.bi16(), t.bi16(), t.bi16()]),
        };
        let e = t.u16();
        let instr = t.bool();
        let reserved = if t.chance(1, 4) { t.u16() & 0xE010 } else { 0 };
        CompPartM { gid, args, scale, extra: e & EXTRA_MASK, instr, reserved }
    });
    let pattern = t.n(0, 7) as u8;
    let instr = if t.chance(5, 6) { t.vec(1, 5, |t| t.u8()) } else { Vec::new() };
    let n = parts.len();
    for (i, p) in parts.iter_mut().enumerate() {
        p.instr = match pattern {
            0 | 1 => false,
            2 => i == 0,
            3 => i == n / 2 && n > 2 || (n <= 2 && i == 0),
            4 => i + 1 == n,
            5 => true,
            _ => p.instr,
        };
    }
    let any = parts.iter().any(|p| p.instr);
    CompM { bbox, parts, instr: if any { instr } else { Vec::new() } }
}

fn fz_glyph(t: &mut Tape<'_>) -> GlyphM {
    if t.chance(5, 8) {
        GlyphM::Simple(fz_simple(t, 24))
    } else {
        GlyphM::Composite(fz_composite(t))
    }
}

fn fz_extreme(t: &mut Tape<'_>) -> SimpleM {
    fn c(t: &mut Tape<'_>) -> i16 {
        if t.chance(2, 3) {
            t.pick(&[i16::MIN, i16::MIN + 1, -1, 0, 1, i16::MAX - 1, i16::MAX])
        } else {
            t.u16() as i16
        }
    }
    let pts = t.vec(1, 4, |t| (c(t), c(t), t.bool()));
    SimpleM { bbox: [0; 4], contours: vec![pts.len() as u16], instr: vec![], pts, enc: 0 }
}

fn fz_glyf(t: &mut Tape<'_>) -> GlyfM {
    let mut glyphs = t.vec(1, 7, |t| match t.n(0, 7) {
        0 | 1 => GlyphM::Empty,
        2..=5 => GlyphM::Simple(fz_simple(t, 10)),
        _ => GlyphM::Composite(fz_composite(t)),
    });
    let short = t.bool();
    let pad = t.n(0, 3) as u8;
    let parse_mask = match t.n(0, 2) {
        0 => 0,
        1 => u32::MAX,
        _ => t.u32(),
    };
    let cut_tail = if t.chance(1, 4) { t.n(1, 3) as u8 } else { 0 };
    for g in glyphs.iter_mut() {
        if enc_glyph(g).is_empty() {
            *g = GlyphM::Empty;
        }
    }
    GlyfM { glyphs, short, pad, parse_mask, cut_tail }
}

fn fz_cmap_sub(t: &mut Tape<'_>) -> CmapSubM {
    match t.n(0, 11) {
        0 => CmapSubM::F0 { lang: t.b16(), gids: (0..256).map(|_| t.u8()).collect() },
        1..=4 => {
            let lang = t.b16();
            let raw = t.vec(0, 6, |t| (t.n(1, 299) as u16, t.n(0, 11) as u16, t.bi16(), t.bool(), (0..12).map(|_| t.b16()).collect::<Vec<u16>>()));
            let last_delta = t.bi16();
            let junk = t.vec(0, 2, |t| t.b16());
            let n = raw.len() + 1;
            let mut segs = Vec::new();
            let mut gia: Vec<u16> = Vec::new();
            let mut code = 0u32;
            for (i, (gap, len, delta, array, gids)) in raw.iter().enumerate() {
                let start = code + *gap as u32;
                let end = start + *len as u32;
                if end >= 0xFFF0 {
                    break;
                }
                code = end + 1;
                if *array {
                    let ro = 2 * (n - i) + 2 * gia.len();
                    gia.extend(gids.iter().take(*len as usize + 1));
                    segs.push((start as u16, end as u16, *delta, ro as u16));
                } else {
                    segs.push((start as u16, end as u16, *delta, 0));
                }
            }
            let n2 = segs.len() + 1;
            if n2 != n {
                for (i, s) in segs.iter_mut().enumerate() {
                    if s.3 != 0 {
                        s.3 = (s.3 as usize + 2 * (n2 - i) - 2 * (n - i)) as u16;
                    }
                }
            }
            segs.push((0xFFFF, 0xFFFF, last_delta, 0));
            gia.extend(junk);
            CmapSubM::F4 { lang, segs, gia }
        }
        5 | 6 => CmapSubM::F6 { lang: t.b16(), first: t.b16(), gids: t.vec(0, 19, |t| t.b16()) },
        7 | 8 => CmapSubM::F10 { lang: t.b32(), start: if t.bool() { t.b32() } else { t.n(0, 0x10_FFFF) }, gids: t.vec(0, 19, |t| t.b16()) },
        _ => {
            let lang = t.b32();
            let raw = t.vec(0, 7, |t| (t.n(0, 4999), t.n(0, 39), if t.bool() { t.n(0, 0xFFFE) } else { t.b32().min(0xFFFF_FF00) }));
            let mut groups = Vec::new();
            let mut code = 0u32;
            for (gap, len, gid) in raw {
                let start = code + gap;
                groups.push((start, start + len, gid));
                code = start + len + 1;
            }
            CmapSubM::F12 { lang, groups }
        }
    }
}

pub(crate) fn fuzz_section(i: usize, t: &mut Tape<'_>, rec: &mut Rec) -> CaseResult {
    match i {
        0 => check_post(&fz_post(t), rec),
        1 => check_name_owned(&fz_name(t, false), rec),
        2 => check_name_owned(&fz_name(t, true), rec),
        3 => check_name_borrowed(&fz_name(t, false), rec),
        4 => check_loca(&fz_loca(t), rec),
        5 => check_glyph(&fz_glyph(t), rec),
        6 => check_glyph_extreme(&fz_extreme(t), rec),
        7 => check_glyf(&fz_glyf(t), rec),
        8 => check_cmap_sub(&fz_cmap_sub(t), rec),
        _ => {
            let v = t.vec(0, 3, |t| {
                let p = match t.n(0, 3) {
                    0 => 0u16,
                    1 => 1,
                    2 => 3,
                    _ => t.b16(),
                };
                (p, t.b16(), fz_cmap_sub(t), t.chance(4, 10))
            });
            let mut out: Vec<(u16, u16, CmapSubM)> = Vec::new();
            for (p, e, s, dup) in v {
                let s = if dup && !out.is_empty() { out[out.len() - 1].2.clone() } else { s };
                out.push((p, e, s));
            }
            check_cmap_table(&out, rec)
        }
    }
}
