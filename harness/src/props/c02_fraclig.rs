//! C02 helper: generated "ligatures next to fractions" fonts. `Features::Mask` with FRAC makes
//! the default shaper cut the run into windows (the glyphs in front of a fraction, the fraction
//! `digits '/' digits`, the rest) and apply different lookup lists to them. Multi-glyph lookups do
//! not know about the windows: a ligature (directly, or nested in a (chained) context rule) whose
//! components are letters AND digits / the slash can start in one window and end in the next.
//!
//! A `FracLig` is a model: 1-4 ligatures over a small pool of letters, digits, '/', U+2044, a
//! combining mark and the space (each in its own lookup, registered under a default-on feature,
//! `frac` or `dlig`, reached directly or through a type 5 / type 6 lookup), an optional
//! one-to-many / deletion lookup, a `frac` feature (numerators, slash ligatures), and a text made
//! of a short prefix, the component string of one of the ligatures and a tail that mostly
//! continues with '/' digit. The GSUB is built with the encoders of c02.rs over the glyph set of
//! the synthetic fonts; nothing is asserted beyond the property's own clauses (no panic, glyph ids
//! below the glyph count: every substitute is a glyph of the font).

use proptest::prelude::*;
use std::collections::BTreeMap;

/// (character, glyph id in the synthetic glyph set); U+2044 gets glyph 59 in these fonts
pub const POOL: [(char, u16); 13] = [
    ('a', 1),
    ('b', 2),
    ('c', 3),
    ('f', 6),
    ('i', 9),
    ('0', 27),
    ('1', 28),
    ('2', 29),
    ('3', 30),
    ('/', 41),
    ('\u{2044}', 59),
    (' ', 40),
    ('\u{301}', 37),
];
const LETTERS: [u8; 5] = [0, 1, 2, 3, 4];
const DIGITS: [u8; 4] = [5, 6, 7, 8];
const SLASH: u8 = 9;
const OTHERS: [u8; 3] = [10, 11, 12];

/// features a ligature can be registered under: mostly on by default, `frac` (applied to the
/// fraction only) and `dlig` (off by default)
pub const LIG_FEATURES: [&[u8; 4]; 9] = [b"liga", b"liga", b"liga", b"ccmp", b"rlig", b"calt", b"clig", b"frac", b"dlig"];

#[derive(Clone, Debug)]
pub struct Lig {
    /// pool indices, 2..=5 components
    pub comps: Vec<u8>,
    pub feature: u8,
    /// 0, 1: the ligature lookup itself is in the feature; 2: a type 5 rule over the components
    /// applies it at position 0; 3: a type 6 rule (input = first component, lookahead = the rest)
    pub via: u8,
    /// lookup flag IgnoreMarks
    pub ignore_marks: bool,
}

#[derive(Clone, Debug)]
pub struct FracLig {
    pub ligs: Vec<Lig>,
    /// `ccmp`: pool glyph -> n copies of itself (0: deletion)
    pub multi: Option<(u8, u8)>,
    /// bit 0: `frac` also ligates numerator + slash and "1/2"; bit 1: `frac` ligates a numerator
    /// with a following letter
    pub frac: u8,
    pub pre: Vec<u8>,
    /// the component string of ligature `embed % ligs.len()` follows the prefix
    pub embed: Option<u8>,
    pub post: Vec<u8>,
}

fn glyph(i: u8) -> u16 {
    POOL[i as usize % POOL.len()].1
}

pub fn text_indices(m: &FracLig) -> Vec<u8> {
    let mut v: Vec<u8> = m.pre.clone();
    if let (Some(e), false) = (m.embed, m.ligs.is_empty()) {
        v.extend(m.ligs[e as usize % m.ligs.len()].comps.iter().copied());
    }
    v.extend(m.post.iter().copied());
    v.into_iter().map(|i| i % POOL.len() as u8).collect()
}

pub fn text(m: &FracLig) -> Vec<char> {
    text_indices(m).into_iter().map(|i| POOL[i as usize].0).collect()
}

/// (features sorted by tag, lookups) in the form `layout_table` of c02.rs takes
pub fn program(m: &FracLig) -> (Vec<([u8; 4], Vec<u16>)>, Vec<(u16, u16, Vec<Vec<u8>>)>) {
    let mut lookups: Vec<(u16, u16, Vec<Vec<u8>>)> = Vec::new();
    let mut feats: BTreeMap<[u8; 4], Vec<u16>> = BTreeMap::new();
    // frac: digits -> numerators 47..56
    lookups.push((1, 0, vec![super::single_subst(&(27..=36).collect::<Vec<u16>>(), 20)]));
    feats.entry(*b"frac").or_default().push(0);
    if m.frac & 1 != 0 {
        let i = lookups.len() as u16;
        lookups.push((4, 0, vec![super::ligature_subst(48, &[(vec![41], 57)]), super::ligature_subst(28, &[(vec![41, 29], 58)])]));
        feats.entry(*b"frac").or_default().push(i);
    }
    if m.frac & 2 != 0 {
        let i = lookups.len() as u16;
        lookups.push((4, 0, vec![super::ligature_subst(49, &[(vec![1], 57), (vec![2, 3], 58)])]));
        feats.entry(*b"frac").or_default().push(i);
    }
    if let Some((g, n)) = m.multi {
        let i = lookups.len() as u16;
        let g = glyph(g);
        lookups.push((2, 0, vec![super::multiple_subst(&[g], &vec![g; (n % 4) as usize])]));
        feats.entry(*b"ccmp").or_default().push(i);
    }
    for (k, l) in m.ligs.iter().enumerate().take(4) {
        let g: Vec<u16> = l.comps.iter().map(|c| glyph(*c)).collect();
        if g.len() < 2 {
            continue;
        }
        let out = 43 + k as u16;
        let lig_idx = lookups.len() as u16;
        lookups.push((4, if l.ignore_marks { 8 } else { 0 }, vec![super::ligature_subst(g[0], &[(g[1..].to_vec(), out)])]));
        let idx = match l.via % 4 {
            0 | 1 => lig_idx,
            2 => {
                lookups.push((5, 0, vec![super::context1(g[0], &g[1..], &[(0, lig_idx)])]));
                lig_idx + 1
            }
            _ => {
                let rest: Vec<&[u16]> = g[1..].iter().map(std::slice::from_ref).collect();
                lookups.push((6, 0, vec![super::chain3(&[], &[&g[..1]], &rest, &[(0, lig_idx)])]));
                lig_idx + 1
            }
        };
        feats.entry(*LIG_FEATURES[l.feature as usize % LIG_FEATURES.len()]).or_default().push(idx);
    }
    (feats.into_iter().collect(), lookups)
}

/// Classification of the model's text (for the evidence histogram; nothing is asserted from it):
/// .0: the text has `digits '/' digits` around its first '/' and the component string of one of
///     the ligatures starts in front of the fraction's first digit and ends behind it;
/// .1: as .0, and the ligature removes more glyphs than there are in front of the fraction.
pub fn straddles(m: &FracLig) -> (bool, bool) {
    let t = text_indices(m);
    let is_digit = |i: u8| DIGITS.contains(&i);
    let slash = match t.iter().position(|i| *i == SLASH) {
        Some(p) => p,
        None => return (false, false),
    };
    let mut s = slash;
    while s > 0 && is_digit(t[s - 1]) {
        s -= 1;
    }
    if s == slash || !t.get(slash + 1).map(|i| is_digit(*i)).unwrap_or(false) {
        return (false, false);
    }
    let mut any = false;
    let mut more = false;
    for l in &m.ligs {
        let c: Vec<u8> = l.comps.iter().map(|i| i % POOL.len() as u8).collect();
        for p in 0..s {
            if t[p..].starts_with(&c) && p + c.len() > s {
                any = true;
                more |= c.len() - 1 > s;
            }
        }
    }
    (any, more)
}

fn pick_of(v: &'static [u8]) -> impl Strategy<Value = u8> {
    (0..v.len()).prop_map(move |i| v[i])
}

pub fn strategy() -> impl Strategy<Value = FracLig> {
    let comp0 = prop_oneof![6 => pick_of(&LETTERS), 2 => pick_of(&DIGITS), 1 => Just(SLASH), 1 => pick_of(&OTHERS)];
    let comp_n = || prop_oneof![13 => pick_of(&DIGITS), 3 => pick_of(&LETTERS), 2 => Just(SLASH), 2 => pick_of(&OTHERS)];
    let lig = (comp0, proptest::collection::vec(comp_n(), 1..=4), 0u8..LIG_FEATURES.len() as u8, 0u8..4, proptest::bool::weighted(0.25)).prop_map(|(c0, rest, feature, via, ignore_marks)| {
        let mut comps = vec![c0];
        comps.extend(rest);
        Lig { comps, feature, via, ignore_marks }
    });
    let pre_char = prop_oneof![5 => pick_of(&LETTERS), 2 => pick_of(&OTHERS), 2 => pick_of(&DIGITS), 1 => Just(SLASH)];
    let text_char = || prop_oneof![5 => pick_of(&DIGITS), 2 => Just(SLASH), 2 => pick_of(&LETTERS), 1 => pick_of(&OTHERS)];
    let pre = prop_oneof![5 => Just(Vec::new()), 5 => proptest::collection::vec(pre_char, 1..=2)];
    let post = prop_oneof![
        4 => (pick_of(&DIGITS), proptest::collection::vec(text_char(), 0..4)).prop_map(|(d, rest)| {
            let mut v = vec![SLASH, d];
            v.extend(rest);
            v
        }),
        6 => proptest::collection::vec(text_char(), 0..=6),
    ];
    (
        proptest::collection::vec(lig, 1..=4),
        proptest::option::weighted(0.3, (0u8..POOL.len() as u8, 0u8..4)),
        0u8..4,
        pre,
        proptest::option::weighted(0.75, 0u8..4),
        post,
    )
        .prop_map(|(ligs, multi, frac, pre, embed, post)| FracLig { ligs, multi, frac, pre, embed, post })
}
