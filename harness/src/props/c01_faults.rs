//! C01 fault machinery: seeds, an independent reader of the container layouts (sfnt, TTC, WOFF,
//! WOFF2 — written from the specifications, never calling allsorts), and the fault operators.

use crate::engine::fixtures;
use crate::engine::util::pick;
use crate::fontgen::basic::BasicFont;
use crate::fontgen::buf::Buf;
use crate::fontgen::sfnt::{self, table_checksum};
use std::io::Write;
use std::sync::OnceLock;

// ------------------------------------------------------------------------------------------
// layout analysis

#[derive(Clone, Copy, Debug, PartialEq, Eq)]
pub enum Kind {
    Sfnt,
    Ttc,
    Woff,
    Woff2,
    Unknown,
}

impl Kind {
    pub fn as_str(self) -> &'static str {
        match self {
            Kind::Sfnt => "sfnt",
            Kind::Ttc => "ttc",
            Kind::Woff => "woff",
            Kind::Woff2 => "woff2",
            Kind::Unknown => "unknown",
        }
    }
}

#[derive(Clone, Copy, Debug, PartialEq, Eq)]
pub enum RClass {
    Header,
    Directory,
    Table,
    /// a structure inside a table (sub-table header, glyph header, INDEX header, ...)
    Anchor,
    Other,
}

#[derive(Clone, Debug)]
pub struct Region {
    pub name: String,
    pub class: RClass,
    pub off: usize,
    pub len: usize,
}

/// One directory record of a container (position of the record itself).
#[derive(Clone, Debug)]
pub struct Record {
    pub tag: [u8; 4],
    pub at: usize,
    pub len: usize,
}

#[derive(Clone, Debug)]
pub struct Layout {
    pub kind: Kind,
    pub regions: Vec<Region>,
    pub records: Vec<Record>,
    /// position of the 16-bit table count
    pub num_tables_at: Option<usize>,
}

fn be16(d: &[u8], at: usize) -> Option<u16> {
    Some(u16::from_be_bytes(d.get(at..at.checked_add(2)?)?.try_into().ok()?))
}
fn be32(d: &[u8], at: usize) -> Option<u32> {
    Some(u32::from_be_bytes(d.get(at..at.checked_add(4)?)?.try_into().ok()?))
}

fn clip(data_len: usize, off: usize, len: usize) -> (usize, usize) {
    let off = off.min(data_len);
    (off, len.min(data_len - off))
}

fn sfnt_layout(d: &[u8], base: usize, prefix: &str, out: &mut Layout) -> Option<()> {
    let n = be16(d, base + 4)? as usize;
    out.regions.push(Region {
        name: format!("{}hdr", prefix),
        class: RClass::Header,
        off: base,
        len: 12.min(d.len() - base),
    });
    let dir_len = (16 * n).min(d.len().saturating_sub(base + 12));
    out.regions.push(Region {
        name: format!("{}dir", prefix),
        class: RClass::Directory,
        off: base + 12,
        len: dir_len,
    });
    for i in 0..n {
        let at = base + 12 + 16 * i;
        let tag: [u8; 4] = match d.get(at..at + 4) {
            Some(t) => t.try_into().ok()?,
            None => break,
        };
        let (off, len) = match (be32(d, at + 8), be32(d, at + 12)) {
            (Some(o), Some(l)) => (o as usize, l as usize),
            _ => break,
        };
        out.records.push(Record { tag, at, len: 16 });
        let (off, len) = clip(d.len(), off, len);
        if len > 0 && !out.regions.iter().any(|r| r.class == RClass::Table && r.off == off && r.len == len) {
            out.regions.push(Region {
                name: String::from_utf8_lossy(&tag).to_string(),
                class: RClass::Table,
                off,
                len,
            });
        }
    }
    Some(())
}

fn read_base128(d: &[u8], at: &mut usize) -> Option<u32> {
    let mut v: u32 = 0;
    for i in 0..5 {
        let b = *d.get(*at)?;
        *at += 1;
        if i == 0 && b == 0x80 {
            return None;
        }
        if v & 0xFE00_0000 != 0 {
            return None;
        }
        v = (v << 7) | (b & 0x7F) as u32;
        if b & 0x80 == 0 {
            return Some(v);
        }
    }
    None
}

fn read_255u16(d: &[u8], at: &mut usize) -> Option<u16> {
    let c = *d.get(*at)?;
    *at += 1;
    match c {
        253 => {
            let v = be16(d, *at)?;
            *at += 2;
            Some(v)
        }
        255 => {
            let v = *d.get(*at)? as u16 + 253;
            *at += 1;
            Some(v)
        }
        254 => {
            let v = *d.get(*at)? as u16 + 506;
            *at += 1;
            Some(v)
        }
        _ => Some(c as u16),
    }
}

const WOFF2_KNOWN_TAGS: [&[u8; 4]; 63] = [
    b"cmap", b"head", b"hhea", b"hmtx", b"maxp", b"name", b"OS/2", b"post", b"cvt ", b"fpgm", b"glyf", b"loca",
    b"prep", b"CFF ", b"VORG", b"EBDT", b"EBLC", b"gasp", b"hdmx", b"kern", b"LTSH", b"PCLT", b"VDMX", b"vhea",
    b"vmtx", b"BASE", b"GDEF", b"GPOS", b"GSUB", b"EBSC", b"JSTF", b"MATH", b"CBDT", b"CBLC", b"COLR", b"CPAL",
    b"SVG ", b"sbix", b"acnt", b"avar", b"bdat", b"bloc", b"bsln", b"cvar", b"fdsc", b"feat", b"fmtx", b"fvar",
    b"gvar", b"hsty", b"just", b"lcar", b"mort", b"morx", b"opbd", b"prop", b"trak", b"Zapf", b"Silf", b"Glat",
    b"Gloc", b"Feat", b"Sill",
];

fn woff2_layout(d: &[u8], out: &mut Layout) -> Option<()> {
    out.regions.push(Region {
        name: "hdr".into(),
        class: RClass::Header,
        off: 0,
        len: 48.min(d.len()),
    });
    out.num_tables_at = Some(12);
    let flavor = be32(d, 4)?;
    let n = be16(d, 12)? as usize;
    let comp = be32(d, 20)? as usize;
    let mut at = 48usize;
    let mut stream_lengths: Vec<([u8; 4], usize)> = Vec::new();
    for _ in 0..n {
        let start = at;
        let flags = *d.get(at)?;
        at += 1;
        let tag: [u8; 4] = if flags & 63 == 63 {
            let t = d.get(at..at + 4)?.try_into().ok()?;
            at += 4;
            t
        } else {
            *WOFF2_KNOWN_TAGS[(flags & 63) as usize]
        };
        let orig_len = read_base128(d, &mut at)?;
        let version = flags >> 6;
        let transformed = if &tag == b"glyf" || &tag == b"loca" { version == 0 } else { version != 0 };
        let stream_len = if transformed { read_base128(d, &mut at)? } else { orig_len };
        stream_lengths.push((tag, stream_len as usize));
        out.records.push(Record { tag, at: start, len: at - start });
    }
    out.regions.push(Region {
        name: "dir".into(),
        class: RClass::Directory,
        off: 48,
        len: at - 48,
    });
    if flavor == 0x7474_6366 {
        let start = at;
        at += 4;
        let nf = read_255u16(d, &mut at)?;
        for _ in 0..nf {
            let nt = read_255u16(d, &mut at)?;
            at += 4;
            for _ in 0..nt {
                read_255u16(d, &mut at)?;
            }
        }
        if at <= d.len() {
            out.regions.push(Region {
                name: "colldir".into(),
                class: RClass::Directory,
                off: start,
                len: at - start,
            });
        }
    }
    let (off, len) = clip(d.len(), at, comp);
    out.regions.push(Region {
        name: "data".into(),
        class: RClass::Other,
        off,
        len,
    });
    // A stream produced by `brotli_stored` with a single meta-block: the table data is visible
    // at fixed positions, so the tables inside it become regions of their own.
    if len > 3 {
        let bits = d[off] as u32 | (d[off + 1] as u32) << 8 | (d[off + 2] as u32) << 16;
        let stored = bits & 0xF == 0 && (bits >> 20) & 1 == 1;
        let mlen = ((bits >> 4) & 0xFFFF) as usize + 1;
        if stored && off + 3 + mlen <= d.len() {
            let mut pos = 0usize;
            for (tag, tlen) in &stream_lengths {
                if pos + tlen > mlen {
                    break;
                }
                if *tlen > 0 {
                    out.regions.push(Region {
                        name: String::from_utf8_lossy(tag).to_string(),
                        class: RClass::Table,
                        off: off + 3 + pos,
                        len: *tlen,
                    });
                }
                pos += tlen;
            }
        }
    }
    Some(())
}

fn woff_layout(d: &[u8], out: &mut Layout) -> Option<()> {
    out.regions.push(Region {
        name: "hdr".into(),
        class: RClass::Header,
        off: 0,
        len: 44.min(d.len()),
    });
    out.num_tables_at = Some(12);
    let n = be16(d, 12)? as usize;
    let dir_len = (20 * n).min(d.len().saturating_sub(44));
    out.regions.push(Region {
        name: "dir".into(),
        class: RClass::Directory,
        off: 44,
        len: dir_len,
    });
    for i in 0..n {
        let at = 44 + 20 * i;
        let tag: [u8; 4] = match d.get(at..at + 4) {
            Some(t) => t.try_into().ok()?,
            None => break,
        };
        let (off, len) = match (be32(d, at + 4), be32(d, at + 8)) {
            (Some(o), Some(l)) => (o as usize, l as usize),
            _ => break,
        };
        out.records.push(Record { tag, at, len: 20 });
        let (off, len) = clip(d.len(), off, len);
        if len > 0 {
            out.regions.push(Region {
                name: String::from_utf8_lossy(&tag).to_string(),
                class: RClass::Other,
                off,
                len,
            });
        }
    }
    if let (Some(mo), Some(ml)) = (be32(d, 24), be32(d, 28)) {
        let (off, len) = clip(d.len(), mo as usize, ml as usize);
        if len > 0 {
            out.regions.push(Region {
                name: "meta".into(),
                class: RClass::Other,
                off,
                len,
            });
        }
    }
    Some(())
}

/// Work out the layout of a font file. Never fails: what cannot be parsed becomes one region.
pub fn analyse(d: &[u8]) -> Layout {
    let mut out = Layout {
        kind: Kind::Unknown,
        regions: Vec::new(),
        records: Vec::new(),
        num_tables_at: None,
    };
    let magic = be32(d, 0).unwrap_or(0);
    let ok = match magic {
        0x0001_0000 | 0x4F54_544F | 0x7472_7565 => {
            out.kind = Kind::Sfnt;
            out.num_tables_at = Some(4);
            sfnt_layout(d, 0, "", &mut out)
        }
        0x7474_6366 => {
            out.kind = Kind::Ttc;
            (|| {
                let n = be32(d, 8)? as usize;
                let n = n.min(8);
                out.regions.push(Region {
                    name: "ttchdr".into(),
                    class: RClass::Header,
                    off: 0,
                    len: (12 + 4 * n).min(d.len()),
                });
                for i in 0..n {
                    let off = be32(d, 12 + 4 * i)? as usize;
                    if off + 12 <= d.len() {
                        if out.num_tables_at.is_none() {
                            out.num_tables_at = Some(off + 4);
                        }
                        sfnt_layout(d, off, &format!("f{}:", i), &mut out);
                    }
                }
                Some(())
            })()
        }
        0x774F_4646 => {
            out.kind = Kind::Woff;
            woff_layout(d, &mut out)
        }
        0x774F_4632 => {
            out.kind = Kind::Woff2;
            woff2_layout(d, &mut out)
        }
        _ => None,
    };
    let _ = ok;
    out.regions.retain(|r| r.len > 0);
    if matches!(out.kind, Kind::Sfnt | Kind::Ttc) {
        // the anchor readers follow offsets of (possibly already damaged) data; they are written
        // not to panic, but a slip there must not turn into a verdict about the library
        let before = out.regions.len();
        let ok = std::panic::catch_unwind(std::panic::AssertUnwindSafe(|| add_anchors(d, &mut out))).is_ok();
        if !ok {
            out.regions.truncate(before);
            let _ = crate::engine::panics::take_last();
        }
    }
    if out.regions.is_empty() {
        out.regions.push(Region {
            name: "file".into(),
            class: RClass::Other,
            off: 0,
            len: d.len(),
        });
    }
    out
}

// ------------------------------------------------------------------------------------------
// anchors: starts of structures inside tables, found with small independent readers written
// from the OpenType / CFF specifications. Faults and the field enumeration are aimed at them.

fn table<'a>(l: &'a Layout, name: &str) -> Option<&'a Region> {
    l.regions.iter().find(|r| r.class == RClass::Table && r.name == name)
}

/// (offset relative to table start, length of the interesting part, label)
fn table_anchors(name: &str, t: &[u8], d: &[u8], l: &Layout) -> Vec<(usize, usize, String)> {
    let mut v: Vec<(usize, usize, String)> = Vec::new();
    let mut push = |off: usize, len: usize, what: String| {
        if off < t.len() && v.len() < 96 {
            v.push((off, len.min(t.len() - off), what));
        }
    };
    match name {
        "cmap" => {
            let n = be16(t, 2).unwrap_or(0) as usize;
            for i in 0..n.min(8) {
                if let Some(off) = be32(t, 4 + 8 * i + 4) {
                    let off = off as usize;
                    let fmt = be16(t, off).unwrap_or(0xFFFF);
                    push(off, 32, format!("sub{}:f{}", i, fmt));
                    match fmt {
                        4 => {
                            let segx2 = be16(t, off + 6).unwrap_or(0) as usize;
                            // endCode / startCode / idDelta / idRangeOffset arrays
                            for (k, a) in [14usize, 16 + segx2, 16 + 2 * segx2, 16 + 3 * segx2, 16 + 4 * segx2].iter().enumerate() {
                                push(off + a, 12, format!("sub{}:f4arr{}", i, k));
                            }
                        }
                        2 => push(off + 518, 32, format!("sub{}:f2hdrs", i)),
                        12 | 13 | 8 => push(off + if fmt == 8 { 8208 } else { 12 }, 40, format!("sub{}:groups", i)),
                        14 => push(off + 10, 33, format!("sub{}:f14recs", i)),
                        _ => {}
                    }
                }
            }
        }
        "glyf" => {
            let long = table(l, "head").and_then(|h| be16(d, h.off + 50)).unwrap_or(0) == 1;
            if let Some(loca) = table(l, "loca") {
                let n = if long { loca.len / 4 } else { loca.len / 2 };
                let mut last = usize::MAX;
                for g in 0..n.min(40) {
                    let off = if long {
                        be32(d, loca.off + 4 * g).map(|o| o as usize)
                    } else {
                        be16(d, loca.off + 2 * g).map(|o| o as usize * 2)
                    };
                    if let Some(off) = off {
                        if off != last {
                            push(off, 24, format!("glyph{}", g));
                            // flags / coordinates / component records further in
                            push(off + 24, 24, format!("glyph{}+24", g));
                            last = off;
                        }
                    }
                }
            }
        }
        "loca" | "hmtx" | "vmtx" => {
            push(t.len().saturating_sub(8), 8, "tail".into());
        }
        "CFF " => {
            let hdr = *t.get(2).unwrap_or(&4) as usize;
            push(0, 4, "header".into());
            let mut at = hdr;
            for nm in ["name", "topdict", "string", "gsubr"] {
                push(at, 8, format!("{}-index", nm));
                let count = be16(t, at).unwrap_or(0) as usize;
                if count == 0 {
                    at += 2;
                    continue;
                }
                let osz = *t.get(at + 2).unwrap_or(&1) as usize;
                if !(1..=4).contains(&osz) {
                    break;
                }
                let arr = at + 3;
                let data = arr + (count + 1) * osz;
                let last = t.get(arr + count * osz..arr + (count + 1) * osz).map(|b| b.iter().fold(0usize, |a, x| (a << 8) | *x as usize)).unwrap_or(1);
                push(data, 40, format!("{}-data", nm));
                at = data + last.saturating_sub(1);
            }
            for g in 0..6 {
                if let Some((off, len)) = cff_charstring(t, g) {
                    if g == 0 {
                        // the CharStrings INDEX header lies before the first object
                        push(off.saturating_sub(16), 16, "charstrings-index".into());
                    }
                    push(off, len.min(24), format!("charstring{}", g));
                    push(off + len.saturating_sub(6), 6, format!("charstring{}-end", g));
                }
            }
        }
        "CFF2" => {
            push(0, 5, "header".into());
            let hdr = *t.get(2).unwrap_or(&5) as usize;
            let tdl = be16(t, 3).unwrap_or(0) as usize;
            push(hdr, tdl.min(32), "topdict".into());
            push(hdr + tdl, 12, "gsubr-index".into());
        }
        "gvar" => {
            push(0, 20, "header".into());
            let n = be16(t, 12).unwrap_or(0) as usize;
            let long = be16(t, 14).unwrap_or(0) & 1 == 1;
            let data = be32(t, 16).unwrap_or(0) as usize;
            let shared = be32(t, 8).unwrap_or(0) as usize;
            push(shared, 16, "shared-tuples".into());
            push(20, 24, "offsets".into());
            let mut last = usize::MAX;
            for g in 0..n.min(24) {
                let off = if long { be32(t, 20 + 4 * g).map(|o| o as usize) } else { be16(t, 20 + 2 * g).map(|o| o as usize * 2) };
                if let Some(off) = off {
                    if off != last {
                        push(data + off, 32, format!("glyph{}-data", g));
                        last = off;
                    }
                }
            }
        }
        "fvar" => {
            let axes = be16(t, 4).unwrap_or(16) as usize;
            let n = be16(t, 8).unwrap_or(0) as usize;
            let asz = be16(t, 10).unwrap_or(20) as usize;
            push(0, 16, "header".into());
            for i in 0..n.min(4) {
                push(axes + i * asz, 20, format!("axis{}", i));
            }
            push(axes + n * asz, 16, "instances".into());
        }
        "HVAR" | "VVAR" | "MVAR" => {
            push(0, 20, "header".into());
            let store = if name == "MVAR" { be16(t, 10).map(|o| o as usize) } else { be32(t, 4).map(|o| o as usize) };
            if let Some(store) = store {
                push(store, 12, "ivs".into());
                if let Some(regions) = be32(t, store + 2) {
                    push(store + regions as usize, 16, "regions".into());
                }
                let cnt = be16(t, store + 6).unwrap_or(0) as usize;
                for i in 0..cnt.min(4) {
                    if let Some(o) = be32(t, store + 8 + 4 * i) {
                        push(store + o as usize, 16, format!("ivd{}", i));
                    }
                }
            }
            if name != "MVAR" {
                for (k, at) in [8usize, 12, 16].iter().enumerate() {
                    if let Some(o) = be32(t, *at) {
                        if o != 0 {
                            push(o as usize, 12, format!("map{}", k));
                        }
                    }
                }
            }
        }
        "name" => {
            let n = be16(t, 2).unwrap_or(0) as usize;
            push(0, 6, "header".into());
            for i in 0..n.min(6) {
                push(6 + 12 * i, 12, format!("record{}", i));
            }
            push(6 + 12 * n.saturating_sub(1), 16, "last-record".into());
        }
        "post" => {
            push(0, 34, "header".into());
            let n = be16(t, 32).unwrap_or(0) as usize;
            push(34, 16, "indices".into());
            push(34 + 2 * n, 24, "names".into());
            push(t.len().saturating_sub(8), 8, "tail".into());
        }
        "sbix" => {
            push(0, 8, "header".into());
            let n = be32(t, 4).unwrap_or(0) as usize;
            for i in 0..n.min(4) {
                if let Some(o) = be32(t, 8 + 4 * i) {
                    let o = o as usize;
                    push(o, 24, format!("strike{}", i));
                    for g in 0..6 {
                        if let Some(go) = be32(t, o + 4 + 4 * g) {
                            push(o + go as usize, 12, format!("strike{}-glyph{}", i, g));
                        }
                    }
                }
            }
        }
        "SVG " => {
            push(0, 10, "header".into());
            if let Some(o) = be32(t, 2) {
                push(o as usize, 2 + 24, "doclist".into());
            }
        }
        "CBLC" | "EBLC" => {
            push(0, 8, "header".into());
            let n = be32(t, 4).unwrap_or(0) as usize;
            for i in 0..n.min(3) {
                let rec = 8 + 48 * i;
                push(rec, 48, format!("size{}", i));
                if let (Some(arr), Some(cnt)) = (be32(t, rec), be32(t, rec + 8)) {
                    let arr = arr as usize;
                    push(arr, 24, format!("size{}-subtable-array", i));
                    for k in 0..(cnt as usize).min(4) {
                        if let Some(add) = be32(t, arr + 8 * k + 4) {
                            push(arr + add as usize, 24, format!("size{}-subtable{}", i, k));
                        }
                    }
                }
            }
        }
        "kern" => {
            push(0, 4, "header".into());
        }
        "STAT" => {
            push(0, 20, "header".into());
            if let Some(o) = be32(t, 8) {
                push(o as usize, 16, "axes".into());
            }
            if let Some(o) = be32(t, 14) {
                push(o as usize, 16, "value-offsets".into());
            }
        }
        "avar" => {
            push(0, 8, "header".into());
            push(8, 16, "map0".into());
        }
        "maxp" | "hhea" | "vhea" | "head" | "OS/2" => {}
        _ => {}
    }
    v
}

/// operators of a CFF / CFF2 DICT with their integer operands (reals are skipped); two-byte
/// operators are reported as 0x0C00 | second byte
fn dict_entries(td: &[u8]) -> Vec<(u16, Vec<i64>)> {
    let mut out = Vec::new();
    let mut ops: Vec<i64> = Vec::new();
    let mut i = 0usize;
    while i < td.len() {
        let b0 = td[i];
        match b0 {
            32..=246 => {
                ops.push(b0 as i64 - 139);
                i += 1;
            }
            247..=250 if i + 1 < td.len() => {
                ops.push((b0 as i64 - 247) * 256 + td[i + 1] as i64 + 108);
                i += 2;
            }
            251..=254 if i + 1 < td.len() => {
                ops.push(-(b0 as i64 - 251) * 256 - td[i + 1] as i64 - 108);
                i += 2;
            }
            28 if i + 2 < td.len() => {
                ops.push(i16::from_be_bytes([td[i + 1], td[i + 2]]) as i64);
                i += 3;
            }
            29 if i + 4 < td.len() => {
                ops.push(i32::from_be_bytes([td[i + 1], td[i + 2], td[i + 3], td[i + 4]]) as i64);
                i += 5;
            }
            30 => {
                i += 1;
                while i < td.len() {
                    let b = td[i];
                    i += 1;
                    if b & 0x0F == 0x0F || b >> 4 == 0x0F {
                        break;
                    }
                }
            }
            12 if i + 1 < td.len() => {
                out.push((0x0C00 | td[i + 1] as u16, std::mem::take(&mut ops)));
                i += 2;
            }
            0..=27 | 31 => {
                out.push((b0 as u16, std::mem::take(&mut ops)));
                i += 1;
            }
            _ => break,
        }
    }
    out
}

/// (end, [(offset, length)]) of a CFF INDEX with a 16- or 32-bit count
fn cff_index_objects(d: &[u8], at: usize, wide: bool) -> Option<(usize, Vec<(usize, usize)>)> {
    let (count, hdr) = if wide { (be32(d, at)? as usize, 4) } else { (be16(d, at)? as usize, 2) };
    if count == 0 {
        return Some((at + hdr, Vec::new()));
    }
    let osz = *d.get(at + hdr)? as usize;
    if !(1..=4).contains(&osz) || count > 70_000 {
        return None;
    }
    let arr = at + hdr + 1;
    let data = arr + (count + 1) * osz;
    let off = |i: usize| -> Option<usize> { Some(d.get(arr + i * osz..arr + (i + 1) * osz)?.iter().fold(0usize, |a, x| (a << 8) | *x as usize)) };
    let mut objs = Vec::new();
    for i in 0..count.min(64) {
        let (a, b) = (off(i)?, off(i + 1)?);
        if a < 1 || b < a {
            return None;
        }
        objs.push((data + a - 1, b - a));
    }
    Some((data + off(count)?.checked_sub(1)?, objs))
}

/// OpenType Layout common structure: lookups and their subtables (GSUB / GPOS)
fn otl_anchors(t: &[u8], ext_type: u16, v: &mut Vec<(usize, usize, String)>) {
    let mut push = |off: usize, len: usize, what: String| {
        if off < t.len() && v.len() < 160 {
            v.push((off, len.min(t.len() - off), what));
        }
    };
    push(0, 14, "header".into());
    let minor = be16(t, 2).unwrap_or(0);
    let (sl, fl, ll) = (be16(t, 4).unwrap_or(0) as usize, be16(t, 6).unwrap_or(0) as usize, be16(t, 8).unwrap_or(0) as usize);
    if sl != 0 {
        push(sl, 8, "scriptlist".into());
        if let Some(so) = be16(t, sl + 6) {
            let st = sl + so as usize;
            push(st, 10, "script0".into());
            if let Some(d) = be16(t, st) {
                if d != 0 {
                    push(st + d as usize, 10, "langsys".into());
                }
            }
        }
    }
    if fl != 0 {
        push(fl, 8, "featurelist".into());
        for i in 0..3 {
            if let Some(fo) = be16(t, fl + 2 + 6 * i + 4) {
                push(fl + fo as usize, 8, format!("feature{}", i));
            }
        }
    }
    if minor >= 1 {
        if let Some(fv) = be32(t, 10) {
            let fv = fv as usize;
            if fv != 0 {
                push(fv, 16, "featurevariations".into());
                if let (Some(cs), Some(fs)) = (be32(t, fv + 8), be32(t, fv + 12)) {
                    push(fv + cs as usize, 12, "conditionset".into());
                    if let Some(c0) = be32(t, fv + cs as usize + 2) {
                        push(fv + cs as usize + c0 as usize, 8, "condition".into());
                    }
                    push(fv + fs as usize, 16, "featuresubst".into());
                }
            }
        }
    }
    if ll == 0 {
        return;
    }
    push(ll, 10, "lookuplist".into());
    let n = be16(t, ll).unwrap_or(0) as usize;
    for li in 0..n.min(12) {
        let lo = match be16(t, ll + 2 + 2 * li) {
            Some(o) => ll + o as usize,
            None => break,
        };
        push(lo, 10, format!("lookup{}", li));
        let ty = be16(t, lo).unwrap_or(0);
        let cnt = be16(t, lo + 4).unwrap_or(0) as usize;
        for si in 0..cnt.min(3) {
            let mut so = match be16(t, lo + 6 + 2 * si) {
                Some(o) => lo + o as usize,
                None => break,
            };
            let mut sty = ty;
            if ty == ext_type {
                push(so, 8, format!("lookup{}-ext{}", li, si));
                sty = be16(t, so + 2).unwrap_or(0);
                so += be32(t, so + 4).unwrap_or(0) as usize;
            }
            push(so, 28, format!("lookup{}-t{}-sub{}", li, sty, si));
            // coverage (offset at +2 for every format 1/2 subtable except contextual format 3)
            if let Some(co) = be16(t, so + 2) {
                if co != 0 {
                    push(so + co as usize, 12, format!("lookup{}-sub{}-coverage", li, si));
                }
            }
            // first set / rule / class definition referred to from the subtable header
            for k in [6usize, 8, 10, 12] {
                if let Some(o) = be16(t, so + k) {
                    let o = o as usize;
                    if o >= 6 && so + o < t.len() {
                        push(so + o, 12, format!("lookup{}-sub{}-ref{}", li, si, k));
                    }
                }
            }
        }
    }
}

/// anchors of the table kinds that only generated seeds contain (or whose structure needs a
/// deeper reader than `table_anchors` has)
fn extra_anchors(name: &str, t: &[u8]) -> Vec<(usize, usize, String)> {
    let mut v: Vec<(usize, usize, String)> = Vec::new();
    macro_rules! push {
        ($off:expr, $len:expr, $what:expr) => {{
            let off: usize = $off;
            if off < t.len() && v.len() < 160 {
                v.push((off, ($len as usize).min(t.len() - off), $what));
            }
        }};
    }
    match name {
        "GSUB" => otl_anchors(t, 7, &mut v),
        "GPOS" => otl_anchors(t, 9, &mut v),
        "GDEF" => {
            push!(0, 18, "header".into());
            let minor = be16(t, 2).unwrap_or(0);
            for (k, nm) in [(4usize, "glyphclass"), (6, "attachlist"), (8, "ligcaret"), (10, "markattach")] {
                if let Some(o) = be16(t, k) {
                    if o != 0 {
                        push!(o as usize, 12, nm.to_string());
                    }
                }
            }
            if minor >= 2 {
                if let Some(o) = be16(t, 12) {
                    let o = o as usize;
                    if o != 0 {
                        push!(o, 12, "markglyphsets".into());
                        if let Some(c) = be32(t, o + 4) {
                            push!(o + c as usize, 12, "markglyphset0-coverage".into());
                        }
                    }
                }
            }
            if minor >= 3 {
                if let Some(o) = be32(t, 14) {
                    if o != 0 {
                        push!(o as usize, 12, "ivs".into());
                    }
                }
            }
        }
        "kern" => {
            // every subtable; format 2: class tables and the kerning array
            let n = be16(t, 2).unwrap_or(0) as usize;
            let mut at = 4usize;
            for i in 0..n.min(4) {
                push!(at, 14, format!("subtable{}", i));
                let len = be16(t, at + 2).unwrap_or(0) as usize;
                let format = t.get(at + 4).copied().unwrap_or(0);
                if format == 2 {
                    push!(at + 6, 8, format!("subtable{}-f2hdr", i));
                    for (k, nm) in [(8usize, "left"), (10, "right"), (12, "array")] {
                        if let Some(o) = be16(t, at + k) {
                            push!(at + o as usize, 12, format!("subtable{}-f2{}", i, nm));
                        }
                    }
                } else {
                    push!(at + 14, 12, format!("subtable{}-pairs", i));
                }
                if len < 6 {
                    break;
                }
                at += len;
            }
        }
        "morx" => {
            push!(0, 8, "header".into());
            let mut at = 8usize;
            let chains = be32(t, 4).unwrap_or(0) as usize;
            for c in 0..chains.min(3) {
                push!(at, 16, format!("chain{}", c));
                let clen = be32(t, at + 4).unwrap_or(0) as usize;
                let nfeat = be32(t, at + 8).unwrap_or(0) as usize;
                let nsub = be32(t, at + 12).unwrap_or(0) as usize;
                push!(at + 16, 12, format!("chain{}-feature0", c));
                let mut sub = at + 16 + 12 * nfeat.min(64);
                for k in 0..nsub.min(6) {
                    push!(sub, 12, format!("chain{}-sub{}", c, k));
                    // state table header: nClasses, classTable, stateArray, entryTable (+ per-type offsets)
                    push!(sub + 12, 28, format!("chain{}-sub{}-stx", c, k));
                    for (j, o) in [16usize, 20, 24, 28, 32].iter().enumerate() {
                        if let Some(off) = be32(t, sub + o) {
                            push!(sub + 12 + off as usize, 12, format!("chain{}-sub{}-part{}", c, k, j));
                        }
                    }
                    let slen = be32(t, sub).unwrap_or(0) as usize;
                    if slen < 12 {
                        break;
                    }
                    sub += slen;
                }
                if clen < 16 {
                    break;
                }
                at += clen;
            }
        }
        "cvar" => {
            push!(0, 8, "header".into());
            push!(8, 24, "tuple-headers".into());
            if let Some(o) = be16(t, 6) {
                push!(o as usize, 32, "data".into());
            }
        }
        "gvar" => {
            // per glyph: tuple variation headers and the serialized data (packed points / deltas)
            let n = be16(t, 12).unwrap_or(0) as usize;
            let long = be16(t, 14).unwrap_or(0) & 1 == 1;
            let data = be32(t, 16).unwrap_or(0) as usize;
            let mut last = usize::MAX;
            for g in 0..n.min(12) {
                let off = if long { be32(t, 20 + 4 * g).map(|o| o as usize) } else { be16(t, 20 + 2 * g).map(|o| o as usize * 2) };
                if let Some(off) = off {
                    if off != last {
                        let gd = data + off;
                        if let Some(doff) = be16(t, gd + 2) {
                            push!(gd + doff as usize, 28, format!("glyph{}-serialized", g));
                        }
                        last = off;
                    }
                }
            }
        }
        "avar" => {
            let n = be16(t, 6).unwrap_or(0) as usize;
            let mut at = 8usize;
            for i in 0..n.min(4) {
                push!(at, 14, format!("map{}", i));
                at += 2 + 4 * be16(t, at).unwrap_or(0) as usize;
            }
        }
        "fvar" => {
            let axes = be16(t, 4).unwrap_or(16) as usize;
            let n = be16(t, 8).unwrap_or(0) as usize;
            let asz = be16(t, 10).unwrap_or(20) as usize;
            let ni = be16(t, 12).unwrap_or(0) as usize;
            let isz = be16(t, 14).unwrap_or(0) as usize;
            for i in 0..ni.min(3) {
                push!(axes + n * asz + i * isz, isz.min(16), format!("instance{}", i));
            }
        }
        "CFF " => {
            // structures reached through Top DICT / Font DICT offsets
            let hdr = *t.get(2).unwrap_or(&4) as usize;
            let after_name = cff_index_objects(t, hdr, false).map(|x| x.0);
            if let Some((_, tds)) = after_name.and_then(|a| cff_index_objects(t, a, false)) {
                if let Some((o, l)) = tds.first() {
                    let ents = t.get(*o..*o + *l).map(dict_entries).unwrap_or_default();
                    let nglyphs = ents.iter().find(|e| e.0 == 17).and_then(|e| e.1.last()).and_then(|cs| be16(t, (*cs).max(0) as usize)).unwrap_or(0);
                    let _ = nglyphs;
                    for (op, vals) in &ents {
                        let last = vals.last().copied().unwrap_or(0).max(0) as usize;
                        match op {
                            15 if last > 2 => push!(last, 16, "charset".into()),
                            16 if last > 1 => push!(last, 12, "encoding".into()),
                            18 if vals.len() >= 2 => {
                                push!(last, (vals[0].max(0) as usize).min(40), "private".into());
                                // Subrs (19) offset is relative to the Private DICT
                                let size = vals[0].max(0) as usize;
                                if let Some(pd) = t.get(last..last + size) {
                                    for (pop, pv) in dict_entries(pd) {
                                        if pop == 19 {
                                            if let Some(so) = pv.last() {
                                                push!(last + (*so).max(0) as usize, 12, "localsubrs".into());
                                            }
                                        }
                                    }
                                }
                            }
                            0x0C25 => push!(last, 16, "fdselect".into()),
                            0x0C24 => {
                                push!(last, 10, "fdarray".into());
                                if let Some((_, fds)) = cff_index_objects(t, last, false) {
                                    for (i, (fo, fl)) in fds.iter().take(3).enumerate() {
                                        push!(*fo, (*fl).min(24), format!("fontdict{}", i));
                                        for (fop, fv) in t.get(*fo..*fo + *fl).map(dict_entries).unwrap_or_default() {
                                            if fop == 18 && fv.len() >= 2 {
                                                push!(fv[1].max(0) as usize, (fv[0].max(0) as usize).min(32), format!("fd{}-private", i));
                                            }
                                        }
                                    }
                                }
                            }
                            _ => {}
                        }
                    }
                }
            }
        }
        "CFF2" => {
            let hdr = *t.get(2).unwrap_or(&5) as usize;
            let tdl = be16(t, 3).unwrap_or(0) as usize;
            let ents = t.get(hdr..hdr + tdl).map(dict_entries).unwrap_or_default();
            for (op, vals) in &ents {
                let last = vals.last().copied().unwrap_or(0).max(0) as usize;
                match op {
                    17 => {
                        push!(last, 12, "charstrings-index".into());
                        if let Some((_, objs)) = cff_index_objects(t, last, true) {
                            for (i, (o, l)) in objs.iter().take(5).enumerate() {
                                push!(*o, (*l).min(28), format!("charstring{}", i));
                            }
                        }
                    }
                    24 => {
                        // VariationStore: uint16 length, then an ItemVariationStore
                        push!(last, 14, "vstore".into());
                        if let Some(ro) = be32(t, last + 2 + 2) {
                            push!(last + 2 + ro as usize, 16, "vstore-regions".into());
                        }
                        if let Some(d0) = be32(t, last + 2 + 8) {
                            push!(last + 2 + d0 as usize, 16, "vstore-ivd0".into());
                        }
                    }
                    0x0C25 => push!(last, 16, "fdselect".into()),
                    0x0C24 => {
                        push!(last, 12, "fdarray".into());
                        if let Some((_, fds)) = cff_index_objects(t, last, true) {
                            for (i, (fo, fl)) in fds.iter().take(3).enumerate() {
                                push!(*fo, (*fl).min(24), format!("fontdict{}", i));
                                for (fop, fv) in t.get(*fo..*fo + *fl).map(dict_entries).unwrap_or_default() {
                                    if fop == 18 && fv.len() >= 2 {
                                        let (psize, poff) = (fv[0].max(0) as usize, fv[1].max(0) as usize);
                                        push!(poff, psize.min(32), format!("fd{}-private", i));
                                        if let Some(pd) = t.get(poff..poff + psize) {
                                            for (pop, pv) in dict_entries(pd) {
                                                if pop == 19 {
                                                    if let Some(so) = pv.last() {
                                                        push!(poff + (*so).max(0) as usize, 12, format!("fd{}-localsubrs", i));
                                                    }
                                                }
                                            }
                                        }
                                    }
                                }
                            }
                        }
                    }
                    _ => {}
                }
            }
            // global subrs follow the Top DICT
            if let Some((_, objs)) = cff_index_objects(t, hdr + tdl, true) {
                for (i, (o, l)) in objs.iter().take(3).enumerate() {
                    push!(*o, (*l).min(16), format!("gsubr{}", i));
                }
            }
        }
        _ => {}
    }
    v
}

fn add_anchors(d: &[u8], l: &mut Layout) {
    let tables: Vec<Region> = l.regions.iter().filter(|r| r.class == RClass::Table).cloned().collect();
    let mut extra = Vec::new();
    for r in &tables {
        let t = &d[r.off..r.off + r.len];
        let mut found = table_anchors(&r.name, t, d, l);
        found.extend(extra_anchors(&r.name, t));
        for (off, len, what) in found {
            if len > 0 {
                extra.push(Region { name: format!("{}@{}", r.name, what), class: RClass::Anchor, off: r.off + off, len });
            }
        }
    }
    l.regions.extend(extra);
}

// ------------------------------------------------------------------------------------------
// references between records of the same kind (a record naming another record by index): the
// places where damaged data can describe a cycle. Found with my own readers.

#[derive(Clone, Debug)]
pub struct Ref {
    pub kind: &'static str,
    /// absolute position and width of the field holding the reference
    pub at: usize,
    pub width: u8,
    /// index of the record that contains the field, in the numbering the field itself uses
    pub owner: u32,
    /// value to add to an index before it is written (CFF subroutine bias, operand encoding)
    pub bias: i32,
}

/// SequenceLookupRecord.lookupListIndex fields of the contextual subtables of one lookup
fn otl_context_refs(t: &[u8], so: usize, ty_ctx: bool, out: &mut Vec<usize>) {
    let records = |at: usize, n: usize, out: &mut Vec<usize>| {
        for k in 0..n.min(16) {
            if at + 4 * k + 4 <= t.len() {
                out.push(at + 4 * k + 2);
            }
        }
    };
    let fmt = be16(t, so).unwrap_or(0);
    let rule = |ro: usize, out: &mut Vec<usize>| {
        if ty_ctx {
            let (gc, sc) = (be16(t, ro).unwrap_or(0) as usize, be16(t, ro + 2).unwrap_or(0) as usize);
            records(ro + 4 + 2 * gc.saturating_sub(1), sc, out);
        } else {
            let bc = be16(t, ro).unwrap_or(0) as usize;
            let ic_at = ro + 2 + 2 * bc;
            let ic = be16(t, ic_at).unwrap_or(0) as usize;
            let lc_at = ic_at + 2 + 2 * ic.saturating_sub(1);
            let lc = be16(t, lc_at).unwrap_or(0) as usize;
            let sc_at = lc_at + 2 + 2 * lc;
            let sc = be16(t, sc_at).unwrap_or(0) as usize;
            records(sc_at + 2, sc, out);
        }
    };
    match fmt {
        1 | 2 => {
            let cnt_at = if fmt == 1 { so + 4 } else if ty_ctx { so + 6 } else { so + 10 };
            let n = be16(t, cnt_at).unwrap_or(0) as usize;
            for i in 0..n.min(16) {
                let o = be16(t, cnt_at + 2 + 2 * i).unwrap_or(0) as usize;
                if o == 0 {
                    continue;
                }
                let set = so + o;
                let rn = be16(t, set).unwrap_or(0) as usize;
                for r in 0..rn.min(8) {
                    if let Some(ro) = be16(t, set + 2 + 2 * r) {
                        rule(set + ro as usize, out);
                    }
                }
            }
        }
        3 => {
            if ty_ctx {
                let (gc, sc) = (be16(t, so + 2).unwrap_or(0) as usize, be16(t, so + 4).unwrap_or(0) as usize);
                records(so + 6 + 2 * gc, sc, out);
            } else {
                let bc = be16(t, so + 2).unwrap_or(0) as usize;
                let ic_at = so + 4 + 2 * bc;
                let ic = be16(t, ic_at).unwrap_or(0) as usize;
                let lc_at = ic_at + 2 + 2 * ic;
                let lc = be16(t, lc_at).unwrap_or(0) as usize;
                let sc_at = lc_at + 2 + 2 * lc;
                let sc = be16(t, sc_at).unwrap_or(0) as usize;
                records(sc_at + 2, sc, out);
            }
        }
        _ => {}
    }
}

fn otl_refs(t: &[u8], base: usize, gsub: bool, out: &mut Vec<Ref>) {
    let (ctx, chain, ext) = if gsub { (5u16, 6u16, 7u16) } else { (7, 8, 9) };
    let ll = be16(t, 8).unwrap_or(0) as usize;
    if ll == 0 {
        return;
    }
    let n = be16(t, ll).unwrap_or(0) as usize;
    for li in 0..n.min(64) {
        let lo = match be16(t, ll + 2 + 2 * li) {
            Some(o) => ll + o as usize,
            None => break,
        };
        let ty = be16(t, lo).unwrap_or(0);
        let cnt = be16(t, lo + 4).unwrap_or(0) as usize;
        for si in 0..cnt.min(8) {
            let mut so = match be16(t, lo + 6 + 2 * si) {
                Some(o) => lo + o as usize,
                None => break,
            };
            let mut sty = ty;
            if ty == ext {
                sty = be16(t, so + 2).unwrap_or(0);
                so += be32(t, so + 4).unwrap_or(0) as usize;
            }
            if sty == ctx || sty == chain {
                let mut fields = Vec::new();
                otl_context_refs(t, so, sty == ctx, &mut fields);
                for f in fields {
                    out.push(Ref { kind: if gsub { "gsub-lookup" } else { "gpos-lookup" }, at: base + f, width: 2, owner: li as u32, bias: 0 });
                }
            }
        }
    }
}

/// call operators of a Type 2 CharString whose operand is a one-byte number: (position of the
/// operand byte, is_global). Gives up at the first hintmask (mask length needs the stem count).
fn charstring_calls(cs: &[u8]) -> Vec<(usize, bool)> {
    let mut out = Vec::new();
    let mut i = 0usize;
    let mut last_num: Option<usize> = None;
    while i < cs.len() {
        let b = cs[i];
        match b {
            32..=246 => {
                last_num = Some(i);
                i += 1;
            }
            247..=254 => {
                last_num = None;
                i += 2;
            }
            28 => {
                last_num = None;
                i += 3;
            }
            255 => {
                last_num = None;
                i += 5;
            }
            10 | 29 => {
                if let Some(p) = last_num {
                    out.push((p, b == 29));
                }
                last_num = None;
                i += 1;
            }
            19 | 20 => break,
            12 => {
                last_num = None;
                i += 2;
            }
            _ => {
                last_num = None;
                i += 1;
            }
        }
    }
    out
}

/// All references of the file, grouped by kind.
pub fn find_refs(d: &[u8], l: &Layout) -> Vec<Ref> {
    let mut out: Vec<Ref> = Vec::new();
    let tab = |name: &str| l.regions.iter().find(|r| r.class == RClass::Table && r.name == name);
    // sbix: `dupe` records
    if let Some(r) = tab("sbix") {
        let t = &d[r.off..r.off + r.len];
        let ns = be32(t, 4).unwrap_or(0) as usize;
        for s in 0..ns.min(4) {
            let so = match be32(t, 8 + 4 * s) {
                Some(o) => o as usize,
                None => break,
            };
            let num_glyphs = tab("maxp").and_then(|m| be16(d, m.off + 4)).unwrap_or(0) as usize;
            let mut g = 0usize;
            while g < num_glyphs.min(256) {
                let (a, b) = match (be32(t, so + 4 + 4 * g), be32(t, so + 8 + 4 * g)) {
                    (Some(a), Some(b)) => (a as usize, b as usize),
                    _ => break,
                };
                if b >= a + 10 && t.get(so + a + 4..so + a + 8) == Some(&b"dupe"[..]) {
                    out.push(Ref { kind: "sbix-dupe", at: r.off + so + a + 8, width: 2, owner: g as u32, bias: 0 });
                }
                g += 1;
            }
        }
    }
    // glyf: component glyph ids
    if let (Some(glyf), Some(loca), Some(head)) = (tab("glyf"), tab("loca"), tab("head")) {
        let long = be16(d, head.off + 50).unwrap_or(0) == 1;
        let n = if long { loca.len / 4 } else { loca.len / 2 };
        for g in 0..n.saturating_sub(1).min(256) {
            let off = if long { be32(d, loca.off + 4 * g).map(|o| o as usize) } else { be16(d, loca.off + 2 * g).map(|o| o as usize * 2) };
            let end = if long { be32(d, loca.off + 4 * g + 4).map(|o| o as usize) } else { be16(d, loca.off + 2 * g + 2).map(|o| o as usize * 2) };
            let (off, end) = match (off, end) {
                (Some(a), Some(b)) if b > a && b <= glyf.len => (a, b),
                _ => continue,
            };
            let gl = &d[glyf.off + off..glyf.off + end];
            if be16(gl, 0).map(|c| c as i16) != Some(-1) {
                continue;
            }
            let mut at = 10usize;
            for _ in 0..16 {
                let flags = match be16(gl, at) {
                    Some(f) => f,
                    None => break,
                };
                out.push(Ref { kind: "glyf-component", at: glyf.off + off + at + 2, width: 2, owner: g as u32, bias: 0 });
                at += 4 + if flags & 1 != 0 { 4 } else { 2 };
                at += if flags & 0x08 != 0 {
                    2
                } else if flags & 0x40 != 0 {
                    4
                } else if flags & 0x80 != 0 {
                    8
                } else {
                    0
                };
                if flags & 0x20 == 0 {
                    break;
                }
            }
        }
    }
    // GSUB / GPOS: nested lookup indices
    for (name, gsub) in [("GSUB", true), ("GPOS", false)] {
        if let Some(r) = tab(name) {
            otl_refs(&d[r.off..r.off + r.len], r.off, gsub, &mut out);
        }
    }
    // CFF: subroutine calls inside subroutines (one-byte operands only)
    if let Some(r) = tab("CFF ") {
        let t = &d[r.off..r.off + r.len];
        let hdr = *t.get(2).unwrap_or(&4) as usize;
        let gs = cff_index_objects(t, hdr, false)
            .and_then(|(a, _)| cff_index_objects(t, a, false))
            .and_then(|(a, _)| cff_index_objects(t, a, false))
            .and_then(|(a, _)| cff_index_objects(t, a, false));
        if let Some((_, subrs)) = gs {
            let bias = if subrs.len() < 1240 { 107 } else { 1131 };
            for (i, (o, len)) in subrs.iter().enumerate().take(32) {
                if let Some(cs) = t.get(*o..*o + *len) {
                    for (p, global) in charstring_calls(cs) {
                        if global {
                            out.push(Ref { kind: "cff-gsubr", at: r.off + o + p, width: 1, owner: i as u32, bias: 139 - bias });
                        }
                    }
                }
            }
        }
    }
    // TTC: member offsets
    if l.kind == Kind::Ttc {
        let n = be32(d, 8).unwrap_or(0) as usize;
        for i in 0..n.min(8) {
            if let Some(o) = be32(d, 12 + 4 * i) {
                out.push(Ref { kind: "ttc-member", at: 12 + 4 * i, width: 4, owner: o, bias: 0 });
            }
        }
    }
    out.retain(|r| r.at + r.width as usize <= d.len());
    out
}

/// Rewire `n` (1..=3) references of one kind into a cycle: the field of the i-th chosen record
/// is made to name the (i+1)-th chosen record, the last one the first (n = 1: itself).
/// `tail`: the last record names `tail_value` instead (a chain that ends out of range).
pub fn rewire(d: &mut Vec<u8>, kind_r: u32, picks: &[u32], tail: Option<u32>) -> String {
    let l = analyse(d);
    let refs = find_refs(d, &l);
    if refs.is_empty() {
        return "rewire: no references".into();
    }
    let mut kinds: Vec<&'static str> = Vec::new();
    for r in &refs {
        if !kinds.contains(&r.kind) {
            kinds.push(r.kind);
        }
    }
    let kind = kinds[pick(kinds.len(), kind_r)];
    // one reference field per distinct owner
    let mut pool: Vec<&Ref> = Vec::new();
    for r in refs.iter().filter(|r| r.kind == kind) {
        if !pool.iter().any(|p| p.owner == r.owner) {
            pool.push(r);
        }
    }
    let mut chosen: Vec<&Ref> = Vec::new();
    for p in picks.iter().take(3) {
        if pool.is_empty() {
            break;
        }
        chosen.push(pool.remove(pick(pool.len(), *p)));
    }
    let k = chosen.len();
    if k == 0 {
        return "rewire: nothing chosen".into();
    }
    let mut desc = format!("rewire {}:", kind);
    for i in 0..k {
        let target = if i + 1 == k { tail.unwrap_or(chosen[0].owner) } else { chosen[i + 1].owner };
        let v = (target as i64 + chosen[i].bias as i64) as u32;
        if chosen[i].width == 1 && !(32..=246).contains(&v) {
            continue;
        }
        write_be(d, chosen[i].at, chosen[i].width, v);
        desc.push_str(&format!(" {}->{}", chosen[i].owner, target));
    }
    desc
}

// ------------------------------------------------------------------------------------------
// independent container encoders used by the re-wrap faults

/// A TrueType collection holding `fonts` (each a list of tables); tables are not shared.
pub fn build_ttc(fonts: &[Vec<(sfnt::Tag, Vec<u8>)>], flavour: u32, version2: bool) -> Vec<u8> {
    let mut b = Buf::new();
    b.tag(b"ttcf").u16(if version2 { 2 } else { 1 }).u16(0).u32(fonts.len() as u32);
    let hdr_len = 12 + 4 * fonts.len() + if version2 { 12 } else { 0 };
    // lay out: offset tables first, then table data
    let mut ot_offsets = Vec::new();
    let mut pos = hdr_len;
    for f in fonts {
        ot_offsets.push(pos);
        pos += 12 + 16 * f.len();
    }
    for o in &ot_offsets {
        b.u32(*o as u32);
    }
    if version2 {
        b.u32(0).u32(0).u32(0);
    }
    let mut data_pos = pos;
    let mut bodies: Vec<&Vec<u8>> = Vec::new();
    for f in fonts {
        let mut tabs: Vec<&(sfnt::Tag, Vec<u8>)> = f.iter().collect();
        tabs.sort_by(|a, b| a.0.cmp(&b.0));
        let (sr, es, rs) = sfnt::search_fields(tabs.len() as u16, 16);
        b.u32(flavour).u16(tabs.len() as u16).u16(sr).u16(es).u16(rs);
        for (t, d) in tabs {
            b.tag(t).u32(table_checksum(d)).u32(data_pos as u32).u32(d.len() as u32);
            data_pos += (d.len() + 3) / 4 * 4;
            bodies.push(d);
        }
    }
    for d in bodies {
        b.bytes(d).pad_to(4);
    }
    b.into_vec()
}

/// WOFF 1.0 file from tables; `compress` selects zlib for every table that gets smaller.
pub fn build_woff(flavour: u32, tables: &[(sfnt::Tag, Vec<u8>)], compress: bool, meta: Option<&[u8]>) -> Vec<u8> {
    let mut tabs: Vec<&(sfnt::Tag, Vec<u8>)> = tables.iter().collect();
    tabs.sort_by(|a, b| a.0.cmp(&b.0));
    let n = tabs.len();
    let mut blobs: Vec<Vec<u8>> = Vec::new();
    for (_, d) in &tabs {
        let mut blob = d.clone();
        if compress {
            let mut e = flate2::write::ZlibEncoder::new(Vec::new(), flate2::Compression::default());
            if e.write_all(d).is_ok() {
                if let Ok(z) = e.finish() {
                    if z.len() < d.len() {
                        blob = z;
                    }
                }
            }
        }
        blobs.push(blob);
    }
    let mut off = 44 + 20 * n;
    let mut b = Buf::new();
    let total_sfnt: usize = 12 + 16 * n + tabs.iter().map(|(_, d)| (d.len() + 3) / 4 * 4).sum::<usize>();
    let data_len: usize = blobs.iter().map(|z| (z.len() + 3) / 4 * 4).sum();
    let meta_z = meta.map(|m| {
        let mut e = flate2::write::ZlibEncoder::new(Vec::new(), flate2::Compression::default());
        let _ = e.write_all(m);
        e.finish().unwrap_or_default()
    });
    let meta_off = off + data_len;
    let total = meta_off + meta_z.as_ref().map(|z| z.len()).unwrap_or(0);
    b.tag(b"wOFF").u32(flavour).u32(total as u32).u16(n as u16).u16(0).u32(total_sfnt as u32).u16(1).u16(0);
    match (&meta_z, meta) {
        (Some(z), Some(m)) => {
            b.u32(meta_off as u32).u32(z.len() as u32).u32(m.len() as u32);
        }
        _ => {
            b.u32(0).u32(0).u32(0);
        }
    }
    b.u32(0).u32(0);
    for ((t, d), z) in tabs.iter().zip(&blobs) {
        b.tag(t).u32(off as u32).u32(z.len() as u32).u32(d.len() as u32).u32(table_checksum(d));
        off += (z.len() + 3) / 4 * 4;
    }
    for z in &blobs {
        b.bytes(z).pad_to(4);
    }
    if let Some(z) = &meta_z {
        b.bytes(z);
    }
    b.into_vec()
}

fn base128(b: &mut Buf, v: u32) {
    let mut started = false;
    for shift in [28u32, 21, 14, 7] {
        let part = ((v >> shift) & 0x7F) as u8;
        if part != 0 || started {
            b.u8(part | 0x80);
            started = true;
        }
    }
    b.u8((v & 0x7F) as u8);
}

/// A brotli stream consisting only of uncompressed meta-blocks (RFC 7932 §9.2): no encoder
/// is needed for these. WBITS = 16 (header bit `0`).
pub fn brotli_stored(data: &[u8]) -> Vec<u8> {
    // bit writer, LSB first
    struct Bits {
        out: Vec<u8>,
        acc: u64,
        n: u32,
    }
    impl Bits {
        fn put(&mut self, v: u64, bits: u32) {
            self.acc |= v << self.n;
            self.n += bits;
            while self.n >= 8 {
                self.out.push(self.acc as u8);
                self.acc >>= 8;
                self.n -= 8;
            }
        }
        fn align(&mut self) {
            if self.n > 0 {
                self.out.push(self.acc as u8);
                self.acc = 0;
                self.n = 0;
            }
        }
    }
    let mut w = Bits { out: Vec::new(), acc: 0, n: 0 };
    w.put(0, 1); // WBITS = 16
    for chunk in data.chunks(65536) {
        w.put(0, 1); // ISLAST = 0
        w.put(0, 2); // MNIBBLES = 4
        w.put((chunk.len() - 1) as u64, 16); // MLEN - 1
        w.put(1, 1); // ISUNCOMPRESSED
        w.align();
        w.out.extend_from_slice(chunk);
    }
    w.put(1, 1); // ISLAST
    w.put(1, 1); // ISLASTEMPTY
    w.align();
    w.out
}

/// WOFF2 file with null transforms for glyf/loca (transform version 3) and a stored brotli
/// stream. `hmtx_flag` / `glyf_version` let faults claim transforms that are not there.
pub fn build_woff2(flavour: u32, tables: &[(sfnt::Tag, Vec<u8>)], glyf_version: u8, hmtx_version: u8) -> Vec<u8> {
    // table order: directory order = data order; keep loca directly after glyf as the spec demands
    let mut tabs: Vec<&(sfnt::Tag, Vec<u8>)> = tables.iter().collect();
    tabs.sort_by(|a, b| a.0.cmp(&b.0));
    if let (Some(g), Some(l)) = (tabs.iter().position(|t| &t.0 == b"glyf"), tabs.iter().position(|t| &t.0 == b"loca")) {
        let loca = tabs.remove(l);
        let g = if l < g { g - 1 } else { g };
        tabs.insert(g + 1, loca);
    }
    let mut dir = Buf::new();
    let mut stream: Vec<u8> = Vec::new();
    for (t, d) in &tabs {
        let idx = WOFF2_KNOWN_TAGS.iter().position(|k| *k == t);
        let version = if t == b"glyf" || t == b"loca" {
            glyf_version
        } else if t == b"hmtx" {
            hmtx_version
        } else {
            0
        };
        match idx {
            Some(i) => {
                dir.u8(i as u8 | (version << 6));
            }
            None => {
                dir.u8(63 | (version << 6)).tag(t);
            }
        }
        base128(&mut dir, d.len() as u32);
        let transformed = if t == b"glyf" || t == b"loca" { version == 0 } else { version != 0 };
        if transformed {
            base128(&mut dir, if t == b"loca" { 0 } else { d.len() as u32 });
        }
        if !(transformed && t == b"loca") {
            stream.extend_from_slice(d);
        }
    }
    let comp = brotli_stored(&stream);
    let total_sfnt: usize = 12 + 16 * tabs.len() + tabs.iter().map(|(_, d)| (d.len() + 3) / 4 * 4).sum::<usize>();
    let total = 48 + dir.len() + comp.len();
    let mut b = Buf::new();
    b.tag(b"wOF2").u32(flavour).u32(((total + 3) / 4 * 4) as u32).u16(tabs.len() as u16).u16(0);
    b.u32(total_sfnt as u32).u32(comp.len() as u32).u16(1).u16(0);
    b.u32(0).u32(0).u32(0).u32(0).u32(0);
    b.bytes(&dir.0).bytes(&comp).pad_to(4);
    b.into_vec()
}

/// The same WOFF2 file with its brotli stream replaced by an uncompressed ("stored") one, so
/// that faults can be placed inside the transformed table data. The decompression itself is
/// done by allsorts (brotli is a dependency, not the code under test; C01 compares nothing
/// against expected values, so independence of the oracle is not at stake).
pub fn woff2_stored_variant(d: &[u8]) -> Option<Vec<u8>> {
    use allsorts::binary::read::ReadScope;
    use allsorts::woff2::Woff2Font;
    let l = analyse(d);
    if l.kind != Kind::Woff2 {
        return None;
    }
    let data = l.regions.iter().find(|r| r.name == "data")?;
    let font = ReadScope::new(d).read::<Woff2Font<'_>>().ok()?;
    let block = &font.table_data_block;
    if block.is_empty() || block.len() > 65536 {
        return None;
    }
    let comp = brotli_stored(block);
    let mut out = d[..data.off].to_vec();
    out.extend_from_slice(&comp);
    while out.len() % 4 != 0 {
        out.push(0);
    }
    let total = out.len() as u32;
    out[8..12].copy_from_slice(&total.to_be_bytes());
    out[20..24].copy_from_slice(&(comp.len() as u32).to_be_bytes());
    // metadata / private blocks are dropped
    for b in out[28..48].iter_mut() {
        *b = 0;
    }
    Some(out)
}

/// Tables of a bare sfnt (independent reader); None if any record is out of bounds.
pub fn sfnt_tables(d: &[u8]) -> Option<(u32, Vec<(sfnt::Tag, Vec<u8>)>)> {
    let (flavour, dir) = sfnt::parse_directory(d)?;
    let mut v = Vec::new();
    for e in dir {
        let s = e.offset as usize;
        let t = d.get(s..s.checked_add(e.length as usize)?)?;
        v.push((e.tag, t.to_vec()));
    }
    Some((flavour, v))
}

// ------------------------------------------------------------------------------------------
// seeds

#[derive(Clone, Debug)]
pub struct Seed {
    pub name: String,
    pub bytes: Vec<u8>,
    pub kind: Kind,
    /// user-space tuples (raw 16.16) of the model the seed was generated from
    pub tuples: Vec<Vec<i32>>,
    /// carries layout tables worth a light shaping call
    pub shape: bool,
}

fn generated_seeds() -> Vec<Seed> {
    let mut v = Vec::new();
    let mut f = BasicFont::with_glyphs(6);
    for (i, ch) in "AaB b".chars().enumerate() {
        f.cmap.insert(ch as u32, (i % 5 + 1) as u16);
    }
    v.push(("gen:basic", f.build()));
    let mut g = BasicFont::with_glyphs(40);
    g.long_loca = true;
    g.num_h_metrics = 3;
    for i in 0..30u32 {
        g.cmap.insert(0x41 + i, (i + 1) as u16);
    }
    g.cmap.insert(0x1F600, 39);
    g.cmap.insert(0x25CC, 38);
    v.push(("gen:basic-astral-longloca", g.build()));
    // variable (fvar/avar only) font
    let mut h = BasicFont::with_glyphs(4);
    h.cmap.insert(0x41, 1);
    let axes = [
        crate::fontgen::var::AxisModel { tag: *b"wght", min: 100 << 16, default: 400 << 16, max: 900 << 16, flags: 0, name_id: 256 },
        crate::fontgen::var::AxisModel { tag: *b"wdth", min: 50 << 16, default: 100 << 16, max: 200 << 16, flags: 0, name_id: 257 },
    ];
    h.extra.push((*b"fvar", crate::fontgen::var::fvar_table(&axes, &[], 0)));
    h.extra.push((*b"avar", crate::fontgen::var::avar_table(&[vec![(-16384, -16384), (0, 0), (8192, 4096), (16384, 16384)], vec![]])));
    v.push(("gen:basic-fvar-avar", h.build()));
    // vertical metrics (vhea/vmtx share the hhea/hmtx layout) and a kern table
    let mut k = BasicFont::with_glyphs(5);
    k.cmap.insert(0x41, 1);
    k.cmap.insert(0x56, 2);
    k.extra.push((*b"vhea", crate::fontgen::basic::hhea(500, -500, 1000, 3)));
    k.extra.push((*b"vmtx", crate::fontgen::basic::hmtx(&[(1000, 10), (1000, 20), (900, 30), (900, 40), (900, 50)], 3)));
    k.extra.push((*b"kern", kern_format0(&[(1, 2, -80), (2, 1, -60), (3, 4, 10)])));
    v.push(("gen:basic-vertical-kern", k.build()));
    // bitmap location table of a real emoji font over an (almost) empty data table
    if let Some(cblc) = fixtures::read("fonts/opentype/CBLC.bin") {
        let mut c = BasicFont::with_glyphs(8);
        c.cmap.insert(0x1F600, 4);
        c.cmap.insert(0x41, 1);
        let mut cbdt = vec![0u8; 4096];
        cbdt[..4].copy_from_slice(&[0, 3, 0, 0]);
        c.extra.push((*b"CBLC", cblc));
        c.extra.push((*b"CBDT", cbdt));
        v.push(("gen:basic-cblc", c.build()));
    }
    // a CFF glyph whose seac refers to itself
    if let Some(base) = fixtures::read("aots/base.otf") {
        if let Some(b) = cff_self_seac(&base) {
            v.push(("gen:cff-self-seac", b));
        }
    }
    // CFF with (nested) global subroutines, built by my own encoder
    if let Some(base) = fixtures::read("aots/base.otf") {
        // gsubr 0: rlineto part + call gsubr 1; gsubr 1: a line; both return
        let g0 = [vec![139 + 10, 139, 5], call_gsubr(1, 1), vec![11]].concat();
        let g1 = vec![139, 139 + 20, 5, 11];
        let notdef = vec![139 + 50, 139, 139, 21, 139 + 30, 139, 5, 14];
        let glyph1 = [vec![139 + 60, 139 + 5, 139 + 5, 21], call_gsubr(0, 2), vec![14]].concat();
        if let Some(b) = with_cff(&base, cff_table(&[g0, g1], &[notdef.clone(), glyph1]), 2) {
            v.push(("gen:cff-gsubrs", b));
        }
        if std::env::var_os("C01_NO_PATHOLOGICAL_SEEDS").is_none() {
            // subroutine fan-out: 9 nested levels of 30 calls each (30^9 = 2e13 leaf calls)
            let mut subrs: Vec<Vec<u8>> = (0..8).map(|k| [call_gsubr(k + 1, 30), vec![11]].concat()).collect();
            subrs.push(vec![11]);
            let glyph1 = [vec![139, 139, 21], call_gsubr(0, 30), vec![14]].concat();
            if let Some(b) = with_cff(&base, cff_table(&subrs, &[notdef, glyph1]), 2) {
                v.push(("gen:cff-subr-bomb", b));
            }
        }
    }
    // composite glyphs: a well-formed nest (variable font, so instancing walks it too) ...
    {
        let mut c = BasicFont::with_glyphs(6);
        c.cmap.insert(0x41, 5);
        c.glyph_records[2] = glyf_composite(&[(1, 0, 0), (1, 10, 0)]);
        c.glyph_records[3] = glyf_composite(&[(2, 0, 0), (1, 0, 20)]);
        c.glyph_records[4] = glyf_composite(&[(3, 0, 0), (2, 5, 5)]);
        c.glyph_records[5] = glyf_composite(&[(4, 0, 0)]);
        c.extra.push((*b"fvar", crate::fontgen::var::fvar_table(&wght_axis(), &[], 0)));
        c.extra.push((*b"gvar", gvar_empty(1, 6)));
        v.push(("gen:composite-nest-var", c.build()));
    }
    if std::env::var_os("C01_NO_PATHOLOGICAL_SEEDS").is_none() {
        // ... a cycle that does not pass through the glyph being processed (5 -> 1 -> 2 -> 1) ...
        let mut c = BasicFont::with_glyphs(6);
        c.cmap.insert(0x41, 5);
        c.glyph_records[1] = glyf_composite(&[(2, 0, 0)]);
        c.glyph_records[2] = glyf_composite(&[(1, 0, 0)]);
        c.glyph_records[5] = glyf_composite(&[(1, 0, 0)]);
        c.extra.push((*b"fvar", crate::fontgen::var::fvar_table(&wght_axis(), &[], 0)));
        c.extra.push((*b"gvar", gvar_empty(1, 6)));
        v.push(("gen:composite-cycle-var", c.build()));
        // ... and a fan-out bomb: 6 nested levels (the limit is 7) of 48 components each:
        // 48^6 = 1.2e10 leaf visits from a 2.6 KiB font
        let mut c = BasicFont::with_glyphs(8);
        c.cmap.insert(0x41, 7);
        for level in 2..8u16 {
            let comps: Vec<(u16, i8, i8)> = (0..48).map(|i| (level - 1, i as i8, 0)).collect();
            c.glyph_records[level as usize] = glyf_composite(&comps);
        }
        v.push(("gen:composite-bomb", c.build()));
    }
    // collection of two generated fonts
    let fonts = vec![f.tables(), g.tables()];
    v.push(("gen:ttc", build_ttc(&fonts, sfnt::TTF, false)));
    v.push(("gen:ttc-v2", build_ttc(&fonts, sfnt::TTF, true)));
    // WOFF / WOFF2 wraps of the generated font
    v.push(("gen:woff", build_woff(sfnt::TTF, &f.tables(), true, Some(b"<metadata/>"))));
    v.push(("gen:woff2-null", build_woff2(sfnt::TTF, &g.tables(), 3, 0)));
    v.into_iter()
        .map(|(n, b)| {
            let kind = analyse(&b).kind;
            Seed { name: n.to_string(), bytes: b, kind, tuples: Vec::new(), shape: false }
        })
        .collect()
}

/// Minimal CFF walker (from Adobe TN 5176): returns (offset, length) of the CharStrings INDEX
/// objects' data for glyph `gid`, relative to the start of the CFF table.
pub fn cff_charstring(cff: &[u8], gid: usize) -> Option<(usize, usize)> {
    fn index_at(d: &[u8], at: usize) -> Option<(usize, Vec<(usize, usize)>)> {
        // returns (end of INDEX, [(object offset, object length)])
        let count = be16(d, at)? as usize;
        if count == 0 {
            return Some((at + 2, Vec::new()));
        }
        let off_size = *d.get(at + 2)? as usize;
        if !(1..=4).contains(&off_size) {
            return None;
        }
        let arr = at + 3;
        let data = arr + (count + 1) * off_size;
        let off = |i: usize| -> Option<usize> {
            let b = d.get(arr + i * off_size..arr + (i + 1) * off_size)?;
            Some(b.iter().fold(0usize, |a, x| (a << 8) | *x as usize))
        };
        let mut objs = Vec::new();
        for i in 0..count {
            let (a, b) = (off(i)?, off(i + 1)?);
            if a < 1 || b < a {
                return None;
            }
            objs.push((data + a - 1, b - a));
        }
        Some((data + off(count)? - 1, objs))
    }
    let hdr_size = *cff.get(2)? as usize;
    let (after_name, _) = index_at(cff, hdr_size)?;
    let (_, top_dicts) = index_at(cff, after_name)?;
    let (td_off, td_len) = *top_dicts.first()?;
    // scan the Top DICT for operator 17 (CharStrings) and take its integer operand
    let td = cff.get(td_off..td_off + td_len)?;
    let mut i = 0usize;
    let mut last_int: Option<i64> = None;
    let mut charstrings: Option<usize> = None;
    while i < td.len() {
        let b0 = td[i];
        match b0 {
            32..=246 => {
                last_int = Some(b0 as i64 - 139);
                i += 1;
            }
            247..=250 => {
                last_int = Some((b0 as i64 - 247) * 256 + *td.get(i + 1)? as i64 + 108);
                i += 2;
            }
            251..=254 => {
                last_int = Some(-(b0 as i64 - 251) * 256 - *td.get(i + 1)? as i64 - 108);
                i += 2;
            }
            28 => {
                last_int = Some(i16::from_be_bytes([*td.get(i + 1)?, *td.get(i + 2)?]) as i64);
                i += 3;
            }
            29 => {
                last_int = Some(i32::from_be_bytes([*td.get(i + 1)?, *td.get(i + 2)?, *td.get(i + 3)?, *td.get(i + 4)?]) as i64);
                i += 5;
            }
            30 => {
                // real number: nibbles until 0xF
                i += 1;
                while i < td.len() {
                    let b = td[i];
                    i += 1;
                    if b & 0x0F == 0x0F || b >> 4 == 0x0F {
                        break;
                    }
                }
                last_int = None;
            }
            12 => {
                i += 2;
                last_int = None;
            }
            17 => {
                charstrings = last_int.and_then(|v| usize::try_from(v).ok());
                i += 1;
            }
            _ => {
                i += 1;
                last_int = None;
            }
        }
    }
    let (_, objs) = index_at(cff, charstrings?)?;
    objs.get(gid).copied()
}

/// `base` with the CharString of glyph 0 replaced by `0 0 0 0 endchar`: a seac whose base and
/// accent are both Standard Encoding code 0 = .notdef = glyph 0 itself.
fn cff_self_seac(base: &[u8]) -> Option<Vec<u8>> {
    let l = analyse(base);
    let cff = l.regions.iter().find(|r| r.name == "CFF " && r.class == RClass::Table)?;
    let (off, len) = cff_charstring(&base[cff.off..cff.off + cff.len], 0)?;
    if len < 5 {
        return None;
    }
    let mut out = base.to_vec();
    out[cff.off + off..cff.off + off + 5].copy_from_slice(&[139, 139, 139, 139, 14]);
    Some(out)
}

/// glyf record of a composite glyph: `components` = (glyph id, dx, dy), byte offsets.
pub fn glyf_composite(components: &[(u16, i8, i8)]) -> Vec<u8> {
    let mut b = Buf::new();
    b.i16(-1).i16(0).i16(0).i16(500).i16(700);
    for (i, (g, dx, dy)) in components.iter().enumerate() {
        let more = if i + 1 < components.len() { 0x0020 } else { 0 };
        b.u16(0x0002 | more).u16(*g).i8(*dx).i8(*dy);
    }
    b.pad_to(2);
    b.into_vec()
}

/// gvar table without variation data for any glyph
pub fn gvar_empty(axis_count: u16, glyph_count: u16) -> Vec<u8> {
    let mut b = Buf::new();
    let offsets_len = 2 * (glyph_count as u32 + 1);
    b.u16(1).u16(0).u16(axis_count).u16(0).u32(20 + offsets_len).u16(glyph_count).u16(0).u32(20 + offsets_len);
    for _ in 0..=glyph_count {
        b.u16(0);
    }
    b.into_vec()
}

pub fn wght_axis() -> Vec<crate::fontgen::var::AxisModel> {
    vec![crate::fontgen::var::AxisModel { tag: *b"wght", min: 100 << 16, default: 400 << 16, max: 900 << 16, flags: 0, name_id: 256 }]
}

pub fn cff_index(objs: &[Vec<u8>]) -> Vec<u8> {
    let mut b = Buf::new();
    b.u16(objs.len() as u16);
    if objs.is_empty() {
        return b.into_vec();
    }
    b.u8(2);
    let mut off = 1u16;
    b.u16(off);
    for o in objs {
        off += o.len() as u16;
        b.u16(off);
    }
    for o in objs {
        b.bytes(o);
    }
    b.into_vec()
}

/// A minimal name-keyed CFF table (Adobe TN 5176): one font, ISOAdobe charset, the given global
/// subroutines and CharStrings, a Private DICT holding only defaultWidthX.
pub fn cff_table(gsubrs: &[Vec<u8>], charstrings: &[Vec<u8>]) -> Vec<u8> {
    let int5 = |b: &mut Buf, v: i32| {
        b.u8(29).i32(v);
    };
    let name = cff_index(&[b"Gen".to_vec()]);
    let strings = cff_index(&[]);
    let gs = cff_index(gsubrs);
    let cs = cff_index(charstrings);
    let top_dict_index_len = 2 + 1 + 4 + 17;
    let cs_off = 4 + name.len() + top_dict_index_len + strings.len() + gs.len();
    let private_off = cs_off + cs.len();
    let mut td = Buf::new();
    int5(&mut td, cs_off as i32);
    td.u8(17);
    int5(&mut td, 2);
    int5(&mut td, private_off as i32);
    td.u8(18);
    let mut b = Buf::new();
    b.u8(1).u8(0).u8(4).u8(2);
    b.bytes(&name).bytes(&cff_index(&[td.into_vec()])).bytes(&strings).bytes(&gs).bytes(&cs);
    b.u8(139).u8(20);
    b.into_vec()
}

/// `base` (an OTTO font) with its CFF table replaced and the glyph count adjusted.
pub fn with_cff(base: &[u8], cff: Vec<u8>, num_glyphs: u16) -> Option<Vec<u8>> {
    let (flavour, mut tabs) = sfnt_tables(base)?;
    for (t, d) in tabs.iter_mut() {
        if &*t == b"CFF " {
            *d = cff.clone();
        } else if &*t == b"maxp" && d.len() >= 6 {
            d[4..6].copy_from_slice(&num_glyphs.to_be_bytes());
        } else if &*t == b"hhea" && d.len() >= 36 {
            d[34..36].copy_from_slice(&1u16.to_be_bytes());
        }
    }
    Some(sfnt::build_sfnt(flavour, &tabs))
}

/// Type 2 CharString fragment: `n` calls of global subroutine `idx` (bias 107).
pub fn call_gsubr(idx: i32, n: usize) -> Vec<u8> {
    let mut v = Vec::new();
    for _ in 0..n {
        v.push((idx - 107 + 139) as u8);
        v.push(29);
    }
    v
}

fn kern_format0(pairs: &[(u16, u16, i16)]) -> Vec<u8> {
    let mut b = Buf::new();
    let n = pairs.len() as u16;
    let (sr, es, rs) = sfnt::search_fields(n, 6);
    b.u16(0).u16(1);
    b.u16(0).u16(14 + 6 * n).u16(0x0001);
    b.u16(n).u16(sr).u16(es).u16(rs);
    for (l, r, v) in pairs {
        b.u16(*l).u16(*r).i16(*v);
    }
    b.into_vec()
}

static SEEDS: OnceLock<Vec<Seed>> = OnceLock::new();

/// Every fixture ≤ 64 KiB (TTF/OTF/TTC/WOFF/WOFF2) plus generated seeds, in a fixed order.
pub fn seeds() -> &'static [Seed] {
    SEEDS.get_or_init(|| {
        let mut v = Vec::new();
        let exts = ["ttf", "otf", "ttc", "woff", "woff2"];
        let mut names = fixtures::list("fonts", &exts, 65536);
        names.extend(fixtures::list("aots", &exts, 65536));
        names.extend(fixtures::list("font_specimen", &exts, 65536));
        for n in names {
            if let Some(b) = fixtures::read(&n) {
                let kind = analyse(&b).kind;
                v.push(Seed { name: n, bytes: b, kind, tuples: Vec::new(), shape: false });
            }
        }
        // stored-stream variants of the WOFF2 fixtures
        let stored: Vec<Seed> = v
            .iter()
            .filter(|s| s.kind == Kind::Woff2)
            .filter_map(|s| {
                woff2_stored_variant(&s.bytes).map(|b| Seed { name: format!("gen:stored:{}", s.name), bytes: b, kind: Kind::Woff2, tuples: Vec::new(), shape: false })
            })
            .collect();
        v.extend(stored);
        v.extend(generated_seeds());
        // one or more tiny generated fonts per table kind / format (appended, so that the
        // indices of the seeds above stay what they were)
        let gen: Vec<Seed> = super::gen::all()
            .into_iter()
            .map(|g| {
                let kind = analyse(&g.bytes).kind;
                Seed { name: g.name, bytes: g.bytes, kind, tuples: g.tuples, shape: g.shape }
            })
            .collect();
        let stored: Vec<Seed> = gen
            .iter()
            .filter(|s| s.kind == Kind::Woff2)
            .filter_map(|s| {
                woff2_stored_variant(&s.bytes).map(|b| Seed { name: format!("gen:stored:{}", s.name), bytes: b, kind: Kind::Woff2, tuples: Vec::new(), shape: false })
            })
            .collect();
        v.extend(gen);
        v.extend(stored);
        v
    })
}

/// seed indices by group, for weighted choice (AOTS fonts are 200 near-identical CFF fonts)
pub struct Groups {
    pub aots: Vec<usize>,
    pub webfonts: Vec<usize>,
    pub small: Vec<usize>,
    pub large: Vec<usize>,
    pub generated: Vec<usize>,
}

static GROUPS: OnceLock<Groups> = OnceLock::new();

pub fn groups() -> &'static Groups {
    GROUPS.get_or_init(|| {
        let mut g = Groups { aots: vec![], webfonts: vec![], small: vec![], large: vec![], generated: vec![] };
        for (i, s) in seeds().iter().enumerate() {
            if s.name.starts_with("gen:") && matches!(s.kind, Kind::Woff | Kind::Woff2 | Kind::Ttc) {
                g.webfonts.push(i);
            } else if s.name.starts_with("gen:") {
                g.generated.push(i);
            } else if s.name.starts_with("aots/") {
                g.aots.push(i);
            } else if matches!(s.kind, Kind::Woff | Kind::Woff2) {
                g.webfonts.push(i);
            } else if s.bytes.len() <= 12_000 {
                g.small.push(i);
            } else {
                g.large.push(i);
            }
        }
        g
    })
}

/// weighted seed choice from two random words
pub fn choose_seed(group_r: u32, r: u32) -> usize {
    let g = groups();
    // weights: small 30, generated 30, webfonts 20, aots 12, large 8
    let table: [(&Vec<usize>, u32); 5] = [(&g.small, 30), (&g.webfonts, 20), (&g.aots, 12), (&g.generated, 30), (&g.large, 8)];
    let total: u32 = table.iter().filter(|(v, _)| !v.is_empty()).map(|(_, w)| *w).sum();
    if total == 0 {
        return 0;
    }
    let mut x = pick(total as usize, group_r) as u32;
    for (v, w) in table.iter() {
        if v.is_empty() {
            continue;
        }
        if x < *w {
            return v[pick(v.len(), r)];
        }
        x -= *w;
    }
    0
}

// ------------------------------------------------------------------------------------------
// faults

#[derive(Clone, Debug)]
pub enum Fault {
    /// overwrite `width` bytes inside a region with a boundary value
    Overwrite { region: u32, class_bias: u8, pos_kind: u8, pos: u32, width: u8, val_kind: u8, val: u32 },
    /// cut the file
    Truncate { kind: u8, r: u32 },
    /// remove a directory record (and decrement the table count)
    DeleteTable { rec: u32 },
    /// swap the location fields of two directory records
    SwapRecords { a: u32, b: u32 },
    /// set one field of a directory record to a boundary value
    DirField { rec: u32, field: u8, val_kind: u8, val: u32 },
    /// give a record the tag of another one
    DuplicateTag { rec: u32, other: u32 },
    /// the table count itself
    NumTables { val_kind: u8, val: u32 },
    /// WOFF2 directory flags: transform version / known-tag index
    Woff2Flags { rec: u32, xor: u8 },
    /// re-wrap a bare sfnt in another container (my encoders)
    Wrap { kind: u8, r: u32 },
    /// insert or remove bytes (shifts everything behind)
    Splice { region: u32, pos: u32, remove: bool, n: u8 },
    /// make 1-3 existing references between records of one kind (sbix dupe, composite component,
    /// nested lookup, subroutine call, TTC member) name each other in a cycle, or a chain that
    /// ends out of range
    Rewire { kind: u32, picks: Vec<u32>, tail: Option<u32> },
}

impl Fault {
    pub fn kind_name(&self) -> &'static str {
        match self {
            Fault::Overwrite { .. } => "overwrite",
            Fault::Truncate { .. } => "truncate",
            Fault::DeleteTable { .. } => "delete-table",
            Fault::SwapRecords { .. } => "swap-records",
            Fault::DirField { .. } => "dir-field",
            Fault::DuplicateTag { .. } => "duplicate-tag",
            Fault::NumTables { .. } => "num-tables",
            Fault::Woff2Flags { .. } => "woff2-flags",
            Fault::Wrap { .. } => "wrap",
            Fault::Splice { .. } => "splice",
            Fault::Rewire { .. } => "rewire",
        }
    }
}

pub const BOUNDARY16: [u32; 10] = [0, 1, 2, 0x7F, 0x80, 0xFF, 0x7FFF, 0x8000, 0xFFFE, 0xFFFF];

/// Resolve a value choice. `orig` is the current value of the field, `rlen` the length of the
/// region it lies in, `flen` the file length.
fn boundary_value(val_kind: u8, r: u32, width: u8, orig: u32, rlen: usize, flen: usize) -> u32 {
    let max = match width {
        1 => 0xFF,
        2 => 0xFFFF,
        _ => 0xFFFF_FFFFu32,
    };
    let v = match val_kind % 16 {
        0..=4 => BOUNDARY16[pick(BOUNDARY16.len(), r)],
        5 => rlen as u32,
        6 => (rlen as u32).wrapping_add(1),
        7 => (rlen as u32).wrapping_sub(1),
        8 => flen as u32,
        9 => orig.wrapping_add(1),
        10 => orig.wrapping_sub(1),
        11 => orig ^ (1 << (r % (8 * width as u32))),
        12 => match width {
            4 => [0xFFFF_FFFF, 0x8000_0000, 0x7FFF_FFFF, 0xFFFF_FFFE, 0x0001_0000, 0x00FF_FFFF][pick(6, r)],
            _ => max,
        },
        13 => orig.wrapping_mul(2),
        14 => (rlen as u32) / 2,
        _ => r,
    };
    v & max
}

fn write_be(d: &mut [u8], at: usize, width: u8, v: u32) {
    let w = width as usize;
    if at + w > d.len() {
        return;
    }
    let bytes = v.to_be_bytes();
    d[at..at + w].copy_from_slice(&bytes[4 - w..]);
}

fn read_be(d: &[u8], at: usize, width: u8) -> u32 {
    let mut v = 0u32;
    for i in 0..width as usize {
        v = (v << 8) | *d.get(at + i).unwrap_or(&0) as u32;
    }
    v
}

fn choose_region(l: &Layout, region: u32, class_bias: u8) -> usize {
    // class_bias: 0..=2 table bodies, 3..=5 anchors, 6..=7 directory, 8 header, 9 anything
    let want = match class_bias % 10 {
        0..=2 => Some(RClass::Table),
        3..=5 => Some(RClass::Anchor),
        6 | 7 => Some(RClass::Directory),
        8 => Some(RClass::Header),
        _ => None,
    };
    let want = match want {
        Some(RClass::Anchor) if !l.regions.iter().any(|r| r.class == RClass::Anchor) => Some(RClass::Table),
        w => w,
    };
    let idxs: Vec<usize> = match want {
        Some(c) => l.regions.iter().enumerate().filter(|(_, r)| r.class == c).map(|(i, _)| i).collect(),
        None => Vec::new(),
    };
    if idxs.is_empty() {
        pick(l.regions.len(), region)
    } else {
        idxs[pick(idxs.len(), region)]
    }
}

/// Apply one fault. Returns a short description (for samples / replay messages).
pub fn apply(d: &mut Vec<u8>, f: &Fault) -> String {
    if d.is_empty() {
        return "empty".into();
    }
    let l = analyse(d);
    let flen = d.len();
    match f {
        Fault::Overwrite { region, class_bias, pos_kind, pos, width, val_kind, val } => {
            let ri = choose_region(&l, *region, *class_bias);
            let r = &l.regions[ri];
            let w = (*width).clamp(1, 4) as usize;
            if r.len < w {
                return format!("overwrite: region {} too short", r.name);
            }
            let span = r.len - w + 1;
            // for an anchor the length that matters for "length +- 1" values is that of the table
            let rlen = if r.class == RClass::Anchor {
                l.regions
                    .iter()
                    .find(|t| t.class == RClass::Table && t.off <= r.off && r.off < t.off + t.len)
                    .map(|t| if val & 1 == 0 { t.len } else { t.off + t.len - r.off })
                    .unwrap_or(r.len)
            } else {
                r.len
            };
            let rel = match pos_kind % 10 {
                // anchors: anywhere inside, half of the time 2-aligned to the structure start
                k if r.class == RClass::Anchor => {
                    if k < 5 {
                        (pick(span, *pos) / 2) * 2
                    } else {
                        pick(span, *pos)
                    }
                }
                // first 64 bytes, 2-aligned
                0..=5 => (pick(span.min(64), *pos) / 2) * 2,
                // anywhere, 2-aligned
                6 | 7 => (pick(span, *pos) / 2) * 2,
                // the tail
                8 => span - 1 - pick(span.min(8), *pos),
                _ => pick(span, *pos),
            };
            let at = r.off + rel;
            let orig = read_be(d, at, w as u8);
            let v = boundary_value(*val_kind, *val, w as u8, orig, rlen, flen);
            write_be(d, at, w as u8, v);
            format!("overwrite {}+{} ({}B) {:#x}->{:#x}", r.name, rel, w, orig, v)
        }
        Fault::Truncate { kind, r } => {
            let at = match kind % 4 {
                0 => pick(flen, *r),
                1 => {
                    let reg = &l.regions[pick(l.regions.len(), *r)];
                    reg.off
                }
                2 => {
                    let reg = &l.regions[pick(l.regions.len(), *r)];
                    reg.off + reg.len.min(1 + (*r as usize % 16))
                }
                _ => flen - 1 - pick(flen.min(16), *r),
            };
            d.truncate(at.min(flen));
            format!("truncate at {} of {}", at, flen)
        }
        Fault::DeleteTable { rec } => {
            if l.records.is_empty() {
                return "delete-table: no records".into();
            }
            let rc = &l.records[pick(l.records.len(), *rec)];
            if rc.at + rc.len > d.len() {
                return "delete-table: record out of file".into();
            }
            d.drain(rc.at..rc.at + rc.len);
            if let Some(nt) = l.num_tables_at {
                let n = read_be(d, nt, 2);
                write_be(d, nt, 2, n.wrapping_sub(1));
            }
            format!("delete record {}", String::from_utf8_lossy(&rc.tag))
        }
        Fault::SwapRecords { a, b } => {
            if l.records.len() < 2 || l.kind == Kind::Woff2 {
                return "swap-records: n/a".into();
            }
            let ra = &l.records[pick(l.records.len(), *a)];
            let rb = &l.records[pick(l.records.len(), *b)];
            let (lo, n) = match l.kind {
                Kind::Woff => (4usize, 12usize),
                _ => (8, 8),
            };
            if ra.at + lo + n > d.len() || rb.at + lo + n > d.len() || ra.at == rb.at {
                return "swap-records: n/a".into();
            }
            let ta = d[ra.at + lo..ra.at + lo + n].to_vec();
            let tb = d[rb.at + lo..rb.at + lo + n].to_vec();
            d[ra.at + lo..ra.at + lo + n].copy_from_slice(&tb);
            d[rb.at + lo..rb.at + lo + n].copy_from_slice(&ta);
            format!("swap data of {} and {}", String::from_utf8_lossy(&ra.tag), String::from_utf8_lossy(&rb.tag))
        }
        Fault::DirField { rec, field, val_kind, val } => {
            if l.records.is_empty() {
                return "dir-field: no records".into();
            }
            let rc = &l.records[pick(l.records.len(), *rec)];
            let (rel, width) = match l.kind {
                Kind::Woff => [(0usize, 4u8), (4, 4), (8, 4), (12, 4), (16, 4)][*field as usize % 5],
                Kind::Woff2 => (pick(rc.len, *val), 1),
                // sfnt: offset and length get most of the weight
                _ => [(8usize, 4u8), (12, 4), (8, 4), (12, 4), (0, 4), (4, 4)][*field as usize % 6],
            };
            let at = rc.at + rel;
            let orig = read_be(d, at, width);
            let v = if width == 4 {
                // values relative to the file, not to a region
                match val_kind % 12 {
                    0 => 0,
                    1 => flen as u32,
                    2 => (flen as u32).wrapping_sub(1),
                    3 => (flen as u32).wrapping_add(1),
                    4 => 0xFFFF_FFFF,
                    5 => 0x8000_0000,
                    6 => 0x7FFF_FFFF,
                    7 => orig.wrapping_add(1),
                    8 => orig.wrapping_sub(1),
                    9 => (flen as u32).wrapping_sub(orig),
                    10 => orig.wrapping_add(4),
                    _ => *val,
                }
            } else {
                boundary_value(*val_kind, *val, 1, orig, rc.len, flen)
            };
            write_be(d, at, width, v);
            format!("dir-field {}+{} {:#x}->{:#x}", String::from_utf8_lossy(&rc.tag), rel, orig, v)
        }
        Fault::DuplicateTag { rec, other } => {
            if l.records.len() < 2 || l.kind == Kind::Woff2 {
                return "duplicate-tag: n/a".into();
            }
            let ra = &l.records[pick(l.records.len(), *rec)];
            let rb = &l.records[pick(l.records.len(), *other)];
            if ra.at + 4 > d.len() {
                return "duplicate-tag: n/a".into();
            }
            let t = rb.tag;
            d[ra.at..ra.at + 4].copy_from_slice(&t);
            format!("tag of {} := {}", String::from_utf8_lossy(&ra.tag), String::from_utf8_lossy(&t))
        }
        Fault::NumTables { val_kind, val } => match l.num_tables_at {
            Some(at) if at + 2 <= d.len() => {
                let orig = read_be(d, at, 2);
                let v = match val_kind % 6 {
                    0 => 0,
                    1 => orig + 1,
                    2 => orig.wrapping_sub(1) & 0xFFFF,
                    3 => 0xFFFF,
                    4 => 0x8000,
                    _ => *val & 0xFFFF,
                };
                write_be(d, at, 2, v);
                format!("numTables {}->{}", orig, v)
            }
            _ => "num-tables: n/a".into(),
        },
        Fault::Woff2Flags { rec, xor } => {
            if l.kind != Kind::Woff2 || l.records.is_empty() {
                return "woff2-flags: n/a".into();
            }
            let rc = &l.records[pick(l.records.len(), *rec)];
            if rc.at >= d.len() {
                return "woff2-flags: n/a".into();
            }
            let x = if *xor == 0 { 0x40 } else { *xor };
            d[rc.at] ^= x;
            format!("woff2 flags of {} ^= {:#x}", String::from_utf8_lossy(&rc.tag), x)
        }
        Fault::Wrap { kind, r } => {
            if l.kind != Kind::Sfnt {
                return "wrap: not a bare sfnt".into();
            }
            let (flavour, tabs) = match sfnt_tables(d) {
                Some(t) => t,
                None => return "wrap: directory out of bounds".into(),
            };
            let (out, what) = match kind % 6 {
                0 => (build_ttc(&[tabs.clone(), tabs], flavour, r & 1 == 1), "ttc"),
                1 => (build_woff(flavour, &tabs, true, if r & 1 == 1 { Some(&b"<m/>"[..]) } else { None }), "woff"),
                2 => (build_woff(flavour, &tabs, false, None), "woff-stored"),
                3 => (build_woff2(flavour, &tabs, 3, 0), "woff2-null"),
                // claims a transformed hmtx although glyf/loca are not transformed
                4 => (build_woff2(flavour, &tabs, 3, 1), "woff2-hmtx-claimed"),
                // claims transformed glyf/loca over plain data
                _ => (build_woff2(flavour, &tabs, (*r % 3) as u8, 0), "woff2-glyf-claimed"),
            };
            if out.len() > 200_000 {
                return "wrap: too large".into();
            }
            *d = out;
            format!("wrap as {}", what)
        }
        Fault::Rewire { kind, picks, tail } => rewire(d, *kind, picks, *tail),
        Fault::Splice { region, pos, remove, n } => {
            let r = &l.regions[pick(l.regions.len(), *region)];
            let at = r.off + pick(r.len, *pos);
            let n = (*n as usize % 8) + 1;
            if *remove {
                let end = (at + n).min(d.len());
                d.drain(at..end);
                format!("remove {} bytes at {}+{}", n, r.name, at - r.off)
            } else {
                let fill = d[at];
                for _ in 0..n {
                    d.insert(at, fill);
                }
                format!("insert {} bytes at {}+{}", n, r.name, at - r.off)
            }
        }
    }
}
