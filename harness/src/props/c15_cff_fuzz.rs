// (included into c15_cff.rs) libFuzzer decoders for the CFF-side sections: each `fz_*` maps the tape
// onto the domain of the strategy of the same name (same ranges; the dependent fix-ups are the
// strategy's, repeated). Whole CFF / CFF2 / ItemVariationStore are not decoded.

use super::Tape;

fn fz_num(t: &mut Tape<'_>) -> Num {
    match t.n(0, 8) {
        0..=3 => Num::Int(match t.n(0, 3) {
            0 | 1 => t.i(-1200, 1199),
            2 => t.pick(&INT_EDGES),
            _ => t.u32() as i32,
        }),
        4 => Num::Int16(t.u16() as i16),
        5 => Num::Int32(t.u32() as i32),
        6 | 7 => {
            let (neg, int, frac) = (t.bool(), t.n(0, 99999), t.n(0, 999));
            let exp = if t.chance(3, 10) { Some(t.i(-20, 19)) } else { None };
            let mut s = format!("{}{}.{:03}", if neg { "-" } else { "" }, int, frac);
            if let Some(e) = exp {
                s.push_str(&format!("E{}", e));
            }
            Num::Real(s)
        }
        _ => Num::Real(t.pick(&["0.001", ".001", "0.039625", "0.06", "-.5", "1E3", "1E-3", "0", "-0", "0.0", "7", "-100.0", "123456789012"]).to_string()),
    }
}

fn fz_dict(t: &mut Tape<'_>, ops: &'static [u16], private: bool) -> DictM {
    t.vec(0, 6, |t| {
        let op = t.pick(ops);
        let nums = t.vec(0, 6, fz_num);
        let mode = t.n(0, 3);
        if mode == 0 {
            if let Some(def) = default_of(op, private) {
                let nums = def.iter().map(|v| if v.fract() == 0.0 { Num::Int(*v as i32) } else { Num::Real(format!("{}", v)) }).collect();
                return (op, nums);
            }
        }
        (op, nums)
    })
}

fn fz_index(t: &mut Tape<'_>) -> IndexM {
    let objs = if t.chance(4, 5) {
        t.vec(0, 7, |t| (t.n(0, 39), t.u8()))
    } else {
        let total = t.pick(&[253u32, 254, 255, 256, 65533, 65534, 65535, 65536]);
        let first = t.n(0, 29).min(total);
        let s = t.u8();
        vec![(first, s), (0, s), (total - first, s.wrapping_add(1))]
    };
    let off_size = if t.chance(1, 4) { t.n(1, 4) as u8 } else { 0 };
    IndexM { objs, off_size, count32: t.chance(3, 10), pad_empty: 0 }
}

fn fz_charset(t: &mut Tape<'_>, max_glyphs: usize) -> (usize, CharsetM) {
    let n = t.len(1, max_glyphs - 1);
    let cuts: Vec<(u16, usize)> = (0..8).map(|_| (t.n(1, 399) as u16, t.len(0, 4))).collect();
    let fmt = t.n(0, 2);
    let raw: Vec<u16> = (0..max_glyphs).map(|_| t.u16()).collect();
    let want = n - 1;
    match fmt {
        0 => (n, CharsetM::F0(raw.into_iter().take(want).collect())),
        _ => {
            let mut ranges: Vec<(u16, u16)> = Vec::new();
            let (mut left, mut id) = (want, 0u32);
            for (gap, len) in cuts {
                if left == 0 {
                    break;
                }
                let l = (len + 1).min(left);
                id += gap as u32;
                ranges.push((id as u16, (l - 1) as u16));
                id += l as u32;
                left -= l;
            }
            if left > 0 {
                ranges.push((id as u16 + 1, (left - 1) as u16));
            }
            if fmt == 1 {
                (n, CharsetM::F1(ranges.into_iter().map(|(f, l)| (f, l as u8)).collect()))
            } else {
                (n, CharsetM::F2(ranges))
            }
        }
    }
}

fn fz_encoding(t: &mut Tape<'_>) -> EncodingM {
    if t.bool() {
        EncodingM::F0(t.vec(0, 11, |t| t.u8()))
    } else {
        EncodingM::F1(t.vec(0, 4, |t| (t.u8(), t.n(0, 5) as u8)))
    }
}

fn fz_fdselect(t: &mut Tape<'_>, max_glyphs: usize, nfds: u8) -> (usize, FdSelectM) {
    let n = t.len(1, max_glyphs - 1);
    let f3 = t.bool();
    let raw: Vec<(u8, usize)> = (0..max_glyphs).map(|_| (t.n(0, nfds.max(1) as u32 - 1) as u8, t.len(1, 3))).collect();
    if f3 {
        let mut ranges = Vec::new();
        let mut g = 0usize;
        for (fd, len) in raw {
            if g >= n {
                break;
            }
            ranges.push((g as u16, fd));
            g += len;
        }
        (n, FdSelectM::F3(ranges, n as u16))
    } else {
        (n, FdSelectM::F0(raw.into_iter().map(|r| r.0).take(n).collect()))
    }
}

fn fz_real(t: &mut Tape<'_>) -> f32 {
    match t.n(0, 5) {
        0..=2 => t.i(-2_000_000, 1_999_999) as f32 / t.pick(&[1.0f32, 10.0, 100.0, 1000.0, 65536.0]),
        3 | 4 => {
            let b = t.u32();
            let e = 64 + (b >> 23 & 0xFF) % 128;
            f32::from_bits(b & 0x807F_FFFF | e << 23)
        }
        _ => t.pick(&[0.0f32, -0.0, 0.5, -0.5, 0.001, 0.039625, 0.06, 1e-10, -1e-10, 1e10, 3e10, -3e10, 2147483648.0, 4294967296.0, 1e20, 16777216.0, 16777217.0, 0.1, 0.3, 1.0 / 3.0, f32::MIN_POSITIVE, f32::MAX, f32::MIN, 123456.79]),
    }
}

pub(crate) fn fuzz_section(i: usize, t: &mut Tape<'_>, rec: &mut Rec) -> CaseResult {
    match i {
        0 => {
            let v = match t.n(0, 7) {
                0 | 1 => t.u32() as i32,
                2 | 3 => t.i(-40000, 39999),
                4 => t.i(-1200, 1199),
                _ => t.pick(&INT_EDGES).saturating_add(t.i(-2, 2)),
            };
            check_int(v, rec)
        }
        1 => check_real(&fz_real(t), rec),
        2 => {
            let ops = all_operators();
            check_operator(t.pick(&ops), rec)
        }
        3 => check_dict_as::<TopDictDefault>(&fz_dict(t, &TOP_OPS, false), false, true, rec),
        4 => check_dict_as::<PrivateDictDefault>(&fz_dict(t, &PRIV_OPS, true), true, true, rec),
        5 => check_dict_as::<FontDictDefault>(&fz_dict(t, &TOP_OPS, false), false, false, rec),
        6 => check_index(&fz_index(t), rec),
        7 => {
            let m = fz_index(t);
            let slack = match t.n(0, 6) {
                0 | 1 => 0,
                2..=4 => t.i(-12, -1),
                _ => t.i(1, 11),
            };
            check_placeholder(&(m, slack, t.u8()), rec)
        }
        8 => check_charset(&fz_charset(t, 12), rec),
        9 => check_encoding(&fz_encoding(t), rec),
        _ => check_fdselect(&fz_fdselect(t, 12, 4), rec),
    }
}
