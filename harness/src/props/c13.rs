//! C13 — user coordinates normalise per fvar/avar. Forward construction (axis/avar model →
//! my fvar/avar encoders → allsorts) against an exact-rational reference.

use crate::engine::{CaseResult, Ctx, Fail, Property, Rec};
use crate::fontgen::var::{avar_table, fvar_table, fvar_table_gap, AxisModel, InstanceModel};
use allsorts::binary::read::ReadScope;
use allsorts::tables::variable_fonts::avar::AvarTable;
use allsorts::tables::variable_fonts::fvar::FvarTable;
use allsorts::tables::{F2Dot14, Fixed};
use proptest::prelude::*;

pub struct C13;

#[derive(Clone, Debug)]
pub struct Axis {
    pub min: i32,
    pub default: i32,
    pub max: i32,
    /// (from, to) raw 2.14 knots, valid per spec, or None
    pub avar: Option<Vec<(i16, i16)>>,
    /// raw 16.16 user values to probe (resolved: boundary values are added by the check)
    pub randoms: Vec<i32>,
    pub kind: &'static str,
}

#[derive(Clone, Debug)]
pub struct Case {
    pub axes: Vec<Axis>,
    pub axis_size_extra: u16,
    /// filler bytes between the fvar header and the axes array (axesArrayOffset = 16 + gap)
    pub header_gap: u16,
    /// avar present for the font at all (if false, every axis.avar is ignored)
    pub with_avar: bool,
}

fn triple() -> impl Strategy<Value = (i32, i32, i32, &'static str)> {
    let f = |v: i32| v << 16;
    prop_oneof![
        // ordinary registered axes
        4 => (1i32..400, 0i32..600, 0i32..400, any::<u16>(), any::<u16>()).prop_map(move |(a, b, c, fa, fb)| {
            let min = f(a) + (fa as i32 & 0xFFFF) * ((fa & 1) as i32);
            let def = min + f(b) + (fb as i32) * ((fb & 1) as i32);
            let max = def + f(c);
            (min, def, max, "ordinary")
        }),
        2 => (-90i32..0, 0i32..90).prop_map(move |(a, c)| (f(a), 0, f(c), "around-zero")),
        // degenerate sides
        1 => (-1000i32..1000, 0i32..500).prop_map(move |(a, c)| (f(a), f(a), f(a) + f(c), "min=default")),
        1 => (-1000i32..1000, 0i32..500).prop_map(move |(a, c)| (f(a) - f(c), f(a), f(a), "default=max")),
        1 => (-1000i32..1000).prop_map(move |a| (f(a), f(a), f(a), "all-equal")),
        // tiny ranges: a few raw units
        2 => (-2000i32..2000, 0i32..6, 0i32..6, any::<u16>()).prop_map(move |(a, b, c, fr)| {
            let min = f(a) + fr as i32;
            (min, min + b, min + b + c, "tiny")
        }),
        // fractional bounds, moderate width
        3 => (-8000i32..8000, 0i32..(4000 << 16), 0i32..(4000 << 16), any::<u16>()).prop_map(move |(a, b, c, fr)| {
            let min = f(a) + fr as i32;
            (min, min + b, min + b + c, "fractional")
        }),
        // very wide: sides up to the full 16.16 half-range each
        1 => (i32::MIN..0, 0i32..=i32::MAX, any::<u32>()).prop_map(|(min, max, r)| {
            let span = (max as i64 - min as i64) as u64;
            let def = (min as i64 + ((r as u64 * span) >> 32) as i64) as i32;
            (min, def, max, "wide")
        }),
    ]
}

fn avar_map() -> impl Strategy<Value = Vec<(i16, i16)>> {
    // interior knots on each side: strictly increasing `from`, non-decreasing `to`
    let side = proptest::collection::vec((1i16..16384, 0i16..=16384), 0..4);
    (side.clone(), side, any::<bool>()).prop_map(|(neg, pos, steep)| avar_from_parts(&neg, &pos, steep))
}

/// The valid segment map built from interior knots of each side (the body of `avar_map()`'s map
/// function, shared with `case_from_bytes`).
fn avar_from_parts(neg: &[(i16, i16)], pos: &[(i16, i16)], steep: bool) -> Vec<(i16, i16)> {
    {
        let mut m: Vec<(i16, i16)> = vec![(-16384, -16384)];
        let mut fs: Vec<i16> = neg.iter().map(|k| -k.0).collect();
        fs.sort();
        fs.dedup();
        let mut ts: Vec<i16> = neg.iter().map(|k| -k.1).collect();
        ts.sort();
        for (i, fr) in fs.iter().enumerate() {
            let mut t = ts[i.min(ts.len() - 1)];
            if steep {
                // push `to` towards the ends to create steep and flat segments
                t = if i % 2 == 0 { -16384 } else { t / 8 };
            }
            m.push((*fr, t));
        }
        m.push((0, 0));
        let mut fs: Vec<i16> = pos.iter().map(|k| k.0).collect();
        fs.sort();
        fs.dedup();
        let mut ts: Vec<i16> = pos.iter().map(|k| k.1).collect();
        ts.sort();
        for (i, fr) in fs.iter().enumerate() {
            let mut t = ts[i.min(ts.len() - 1)];
            if steep {
                t = if i % 2 == 0 { t / 8 } else { 16384 };
            }
            m.push((*fr, t));
        }
        m.push((16384, 16384));
        // enforce non-decreasing `to` (sorting the interior values keeps the fixed points)
        let mut tos: Vec<i16> = m.iter().map(|k| k.1).collect();
        for i in 1..tos.len() {
            if tos[i] < tos[i - 1] {
                tos[i] = tos[i - 1];
            }
        }
        // the 0→0 and ±1→±1 entries must survive: clamp each side
        let zero = m.iter().position(|k| k.0 == 0).unwrap();
        for i in 0..m.len() {
            let t = if i < zero { tos[i].min(0) } else if i == zero { 0 } else { tos[i].max(0) };
            m[i].1 = t;
        }
        let last = m.len() - 1;
        m[0].1 = -16384;
        m[last].1 = 16384;
        for i in 1..m.len() {
            if m[i].1 < m[i - 1].1 {
                m[i].1 = m[i - 1].1;
            }
        }
        m[last].1 = 16384;
        m
    }
}

fn axis() -> impl Strategy<Value = Axis> {
    (
        triple(),
        proptest::option::weighted(0.6, avar_map()),
        proptest::collection::vec(any::<i32>(), 6),
    )
        .prop_map(|((min, default, max, kind), avar, randoms)| Axis {
            min,
            default,
            max,
            avar,
            randoms,
            kind,
        })
}

pub fn case_strategy() -> impl Strategy<Value = Case> {
    (
        proptest::collection::vec(axis(), 1..5),
        prop_oneof![3 => Just(0u16), 1 => 1u16..9],
        prop_oneof![4 => Just(0u16), 1 => prop_oneof![Just(2u16), Just(4u16), Just(20u16), 1u16..40]],
        proptest::bool::weighted(0.7),
    )
        .prop_map(|(axes, axis_size_extra, header_gap, with_avar)| Case {
            axes,
            axis_size_extra,
            header_gap,
            with_avar,
        })
}

// ------------------------------------------------------------------ exact reference

/// exact default normalisation as a rational num/den (den > 0)
fn exact_default(u: i64, min: i64, def: i64, max: i64) -> (i128, i128) {
    let c = u.clamp(min, max);
    if c < def {
        (-((def - c) as i128), (def - min) as i128)
    } else if c > def {
        ((c - def) as i128, (max - def) as i128)
    } else {
        (0, 1)
    }
}

/// exact avar mapping of x = n/d (in [-1, 1]); returns (result num, den, slope num, slope den, strictly inside a segment)
fn exact_avar(n: i128, d: i128, map: &[(i16, i16)]) -> ((i128, i128), (i128, i128), bool) {
    // x in units of 1/16384: X = n*16384/d
    // find k with from_k <= X <= from_{k+1}
    let mut max_slope = (1i128, 1i128);
    let mut result = (n, d);
    let mut inside = false;
    let cmp = |a: (i128, i128), b: (i128, i128)| (a.0 * b.1).cmp(&(b.0 * a.1));
    let upd = |s: (i128, i128), ms: &mut (i128, i128)| {
        if cmp(s, *ms) == std::cmp::Ordering::Greater {
            *ms = s;
        }
    };
    for k in 0..map.len().saturating_sub(1) {
        let (f0, t0) = (map[k].0 as i128, map[k].1 as i128);
        let (f1, t1) = (map[k + 1].0 as i128, map[k + 1].1 as i128);
        // f0 <= X <= f1  <=>  f0*d <= n*16384 <= f1*d
        let xn = n * 16384;
        if f0 * d <= xn && xn <= f1 * d {
            // y = t0 + (X - f0) * (t1 - t0) / (f1 - f0)   (in 1/16384 units)
            // = [t0*(f1-f0)*d + (xn - f0*d)*(t1-t0)] / [(f1-f0)*d]
            let den = (f1 - f0) * d;
            let num = t0 * (f1 - f0) * d + (xn - f0 * d) * (t1 - t0);
            result = (num, den * 16384);
            inside = f0 * d < xn && xn < f1 * d;
            upd((t1 - t0, f1 - f0), &mut max_slope);
            if k > 0 {
                upd(((t0 - map[k - 1].1 as i128), (f0 - map[k - 1].0 as i128)), &mut max_slope);
            }
            if k + 2 < map.len() {
                upd(((map[k + 2].1 as i128 - t1), (map[k + 2].0 as i128 - f1)), &mut max_slope);
            }
            break;
        }
    }
    (result, max_slope, inside)
}

fn fail(sig: &str, msg: String) -> Fail {
    Fail::new(format!("C13:{}", sig), msg)
}

fn axis_flags(min: i32, default: i32, max: i32, i: usize) -> u16 {
    let h = (min as u32).wrapping_mul(0x9E37_79B1) ^ (default as u32).wrapping_mul(0x85EB_CA6B) ^ (max as u32).wrapping_mul(0xC2B2_AE35) ^ (i as u32).wrapping_mul(0x27D4_EB2F);
    match (h >> 13) % 5 {
        0 | 1 => 0,
        2 => 1,
        3 => 0xFFFF,
        _ => (h >> 16) as u16,
    }
}

pub fn check_case(case: &Case, rec: &mut Rec) -> CaseResult {
    let axes_model: Vec<AxisModel> = case
        .axes
        .iter()
        .enumerate()
        .map(|(i, a)| AxisModel {
            tag: [b'a', b'x', b'0' + (i as u8 / 10), b'0' + (i as u8 % 10)],
            min: a.min,
            default: a.default,
            max: a.max,
            // the axis flags (bit 0: HIDDEN_AXIS, the rest reserved) say nothing about normalisation; they are a
            // pure function of the axis values so that the Case type and its decoders stay as they are
            flags: axis_flags(a.min, a.default, a.max, i),
            name_id: 256 + i as u16,
        })
        .collect();
    rec.class_if(axes_model.iter().any(|a| a.flags & 1 != 0), "axis-flags:HIDDEN_AXIS");
    rec.class_if(axes_model.iter().any(|a| a.flags & !1 != 0), "axis-flags:reserved-bits");
    // two named instances (mid-way coordinates; the second carries a PostScript name id): their stored
    // coordinate tuples are normalised through the library's own tuple iterator further down
    let inst_coords = |k: i64| -> Vec<i32> { case.axes.iter().map(|a| ((a.min as i64 * (3 - k) + a.max as i64 * (1 + k)) / 4) as i32).collect() };
    let instances = vec![
        InstanceModel { subfamily_name_id: 300, coords: inst_coords(0), postscript_name_id: None },
        InstanceModel { subfamily_name_id: 301, coords: inst_coords(2), postscript_name_id: None },
    ];
    let fvar_bytes = fvar_table_gap(&axes_model, &instances, case.axis_size_extra, case.header_gap);
    let identity = vec![(-16384i16, -16384i16), (0, 0), (16384, 16384)];
    let maps: Vec<Vec<(i16, i16)>> = case
        .axes
        .iter()
        .map(|a| a.avar.clone().unwrap_or_else(|| identity.clone()))
        .collect();
    let avar_bytes = avar_table(&maps);
    let fvar = ReadScope::new(&fvar_bytes)
        .read::<FvarTable<'_>>()
        .map_err(|e| fail("fvar-parse", format!("generated fvar does not parse: {:?}", e)))?;
    let avar = if case.with_avar {
        Some(
            ReadScope::new(&avar_bytes)
                .read::<AvarTable<'_>>()
                .map_err(|e| fail("avar-parse", format!("generated avar does not parse: {:?}", e)))?,
        )
    } else {
        None
    };
    if usize::from(fvar.axis_count()) != case.axes.len() {
        return Err(fail("axis-count", format!("axis_count {} != {}", fvar.axis_count(), case.axes.len())));
    }

    // probes per axis
    let mut probes: Vec<Vec<i32>> = Vec::new();
    for (ai, a) in case.axes.iter().enumerate() {
        let mut p: Vec<i64> = Vec::new();
        for b in [a.min as i64, a.default as i64, a.max as i64] {
            p.extend_from_slice(&[b - 1, b, b + 1]);
        }
        p.push(i32::MIN as i64);
        p.push(i32::MAX as i64);
        p.push(a.min as i64 - (1000 << 16));
        p.push(a.max as i64 + (1000 << 16));
        if case.with_avar {
            // pre-images of the knots, ±1 raw unit
            for (fr, _) in &maps[ai] {
                let fr = *fr as i64;
                let u = if fr < 0 {
                    a.default as i64 + fr * (a.default as i64 - a.min as i64) / 16384
                } else {
                    a.default as i64 + fr * (a.max as i64 - a.default as i64) / 16384
                };
                p.extend_from_slice(&[u - 1, u, u + 1]);
            }
        }
        let span = a.max as i64 - a.min as i64;
        for (k, r) in a.randoms.iter().enumerate() {
            if k % 3 == 2 || span == 0 {
                p.push(*r as i64);
            } else {
                // inside the range
                p.push(a.min as i64 + ((*r as u32 as u64 * (span as u64 + 1)) >> 32) as i64);
            }
        }
        let mut p: Vec<i32> = p
            .into_iter()
            .map(|v| v.clamp(i32::MIN as i64, i32::MAX as i64) as i32)
            .collect();
        p.sort();
        p.dedup();
        probes.push(p);
    }
    let rounds = probes.iter().map(|p| p.len()).max().unwrap_or(0);
    let mut nontrivial = false;
    let mut prev: Vec<Option<i16>> = vec![None; case.axes.len()];
    let mut evals = 0u64;
    // round r < rounds: every axis at its r-th probe; then (fonts with several axes) one axis at
    // each of its probes while all the others sit exactly at their defaults: each axis is
    // normalised through its own segment map whatever the other coordinates are
    let mut plan: Vec<(usize, Vec<i32>)> = (0..rounds).map(|r| (r, probes.iter().map(|p| p[r.min(p.len() - 1)]).collect())).collect();
    if case.axes.len() >= 2 {
        for (ai, p) in probes.iter().enumerate() {
            for v in p {
                let mut user: Vec<i32> = case.axes.iter().map(|a| a.default).collect();
                user[ai] = *v;
                plan.push((usize::MAX, user));
            }
        }
        rec.class("solo-axis-rounds");
    }
    for (r, user) in plan {
        let tuple = fvar
            .normalize(user.iter().map(|v| Fixed::from_raw(*v)), avar.as_ref())
            .map_err(|e| fail("normalize-err", format!("normalize({:?}) failed: {:?}", user, e)))?;
        if tuple.len() != case.axes.len() {
            return Err(fail("tuple-len", format!("tuple of {} for {} axes", tuple.len(), case.axes.len())));
        }
        for (ai, a) in case.axes.iter().enumerate() {
            evals += 1;
            let got = tuple[ai].raw_value();
            let u = user[ai] as i64;
            let (n, d) = exact_default(u, a.min as i64, a.default as i64, a.max as i64);
            let ((mut rn, mut rd), slope, inside) = if case.with_avar {
                exact_avar(n, d, &maps[ai])
            } else {
                ((n, d), (1, 1), true)
            };
            // final clamp to [-1, 1]
            if rn > rd {
                rn = 1;
                rd = 1;
            }
            if rn < -rd {
                rn = -1;
                rd = 1;
            }
            // |got - 16384*rn/rd| <= tol, tol = max(1, slope) units of 2.14
            let (tn, td) = if slope.0 > slope.1 { slope } else { (1, 1) };
            // err = |got*rd - 16384*rn| / rd  <= tn/td   <=>  |..| * td <= tn * rd
            let err_num = (got as i128 * rd - 16384 * rn).abs();
            if err_num * td > tn * rd {
                return Err(fail(
                    "accuracy",
                    format!(
                        "axis {} ({}; min {} default {} max {} raw 16.16) user {} -> {} (raw 2.14); exact value {}/{} = {:.6} units, tolerance {}/{} units; avar {:?}",
                        ai, a.kind, a.min, a.default, a.max, user[ai], got, 16384 * rn, rd,
                        (16384 * rn) as f64 / rd as f64, tn, td,
                        if case.with_avar { Some(&maps[ai]) } else { None }
                    ),
                ));
            }
            if !(-16384..=16384).contains(&got) {
                return Err(fail("range", format!("axis {} user {} -> {} outside [-1, 1]", ai, user[ai], got)));
            }
            // exact images of min / default / max
            let nondeg_lo = a.min < a.default;
            let nondeg_hi = a.default < a.max;
            if user[ai] == a.default && got != 0 {
                return Err(fail("default-not-zero", format!("axis {} default {} -> {}", ai, a.default, got)));
            }
            if user[ai] == a.min && nondeg_lo && got != -16384 {
                return Err(fail("min-not-minus-one", format!("axis {} ({:?}) min {} -> {}", ai, a.kind, a.min, got)));
            }
            if user[ai] == a.max && nondeg_hi && got != 16384 {
                return Err(fail("max-not-one", format!("axis {} ({:?}) max {} -> {}", ai, a.kind, a.max, got)));
            }
            // monotone (probes of each axis are visited in increasing order)
            if r < probes[ai].len() {
                if let Some(p) = prev[ai] {
                    if got < p {
                        return Err(fail(
                            "monotone",
                            format!("axis {} ({}): user {} -> {} but a smaller user value gave {}; axis min {} default {} max {}; avar {:?}",
                                ai, a.kind, user[ai], got, p, a.min, a.default, a.max, if case.with_avar { Some(&maps[ai]) } else { None }),
                        ));
                    }
                }
                prev[ai] = Some(got);
            }
            let strictly_inside = u > a.min as i64 && u < a.max as i64 && u != a.default as i64;
            if strictly_inside && inside {
                nontrivial = true;
            }
            if r == 0 {
                rec.class(&format!("axis:{}", a.kind));
                if case.with_avar && a.avar.is_some() {
                    let s = slope.0 as f64 / slope.1 as f64;
                    rec.class(if s > 4.0 { "avar-slope>4" } else if s > 1.0 { "avar-slope 1..4" } else { "avar-slope<=1" });
                }
            }
        }
    }
    // wrong tuple lengths are rejected
    for len in [0usize, case.axes.len() - 1, case.axes.len() + 1, case.axes.len() + 7] {
        if len == case.axes.len() {
            continue;
        }
        evals += 1;
        let t: Vec<Fixed> = (0..len).map(|i| Fixed::from_raw(case.axes[i % case.axes.len()].default)).collect();
        if fvar.normalize(t.into_iter(), avar.as_ref()).is_ok() {
            return Err(fail("wrong-length-accepted", format!("tuple of length {} accepted for {} axes", len, case.axes.len())));
        }
    }
    // named-instance tuples handed over as the library's own iterator: same result as the same values from a
    // Vec; and an iterator that has already yielded some of its values is a tuple of the wrong length
    for (k, inst) in fvar.instances().enumerate() {
        let inst = inst.map_err(|e| fail("fvar-parse", format!("instance record {} of the generated fvar does not parse: {:?}", k, e)))?;
        let stored: Vec<Fixed> = inst.coordinates.iter().collect();
        if stored.iter().map(|f| f.raw_value()).collect::<Vec<_>>() != instances[k].coords {
            return Err(fail("instance-coordinates", format!("instance {} coordinates {:?} expected {:?}", k, stored, instances[k].coords)));
        }
        evals += 2;
        let via_iter = fvar.normalize(inst.coordinates.iter(), avar.as_ref()).map(|t| t.iter().map(|v| v.raw_value()).collect::<Vec<_>>());
        let via_vec = fvar.normalize(stored.iter().copied(), avar.as_ref()).map(|t| t.iter().map(|v| v.raw_value()).collect::<Vec<_>>());
        match (&via_iter, &via_vec) {
            (Ok(a), Ok(b)) if a == b => {}
            _ => return Err(fail("instance-tuple", format!("normalize(instance {} tuple iterator) = {:?}, from the same values in a Vec = {:?}", k, via_iter, via_vec))),
        }
        for consumed in 1..=case.axes.len() {
            let mut it = inst.coordinates.iter();
            for _ in 0..consumed {
                it.next();
            }
            evals += 1;
            if fvar.normalize(it, avar.as_ref()).is_ok() {
                return Err(fail(
                    "wrong-length-accepted",
                    format!("instance tuple iterator with {} of {} values already consumed accepted for {} axes", consumed, case.axes.len(), case.axes.len()),
                ));
            }
        }
    }
    rec.evaluations(evals.saturating_sub(1));
    rec.set_nontrivial(nontrivial);
    rec.class_if(case.with_avar, "with-avar");
    rec.class_if(case.axis_size_extra > 0, "axisSize>20");
    rec.class_if(case.header_gap > 0, "axesArrayOffset>16");
    Ok(())
}

/// Corrupt axis records (min > default, default > max, min > max): normalize must return.
fn check_corrupt(c: &(i32, i32, i32, i32), rec: &mut Rec) -> CaseResult {
    let (a, b, cc, u) = *c;
    let axes = vec![AxisModel { tag: *b"wght", min: a, default: b, max: cc, flags: 0, name_id: 256 }];
    let fvar_bytes = fvar_table(&axes, &[], 0);
    let fvar = ReadScope::new(&fvar_bytes)
        .read::<FvarTable<'_>>()
        .map_err(|e| fail("fvar-parse", format!("{:?}", e)))?;
    let r = fvar.normalize([Fixed::from_raw(u)].into_iter(), None);
    if let Ok(t) = r {
        let v = t[0].raw_value();
        // whatever is returned for an ill-formed axis must still be a normalised coordinate
        if a <= b && b <= cc && !(-16384..=16384).contains(&v) {
            return Err(fail("range", format!("well-formed axis gave {}", v)));
        }
    }
    rec.set_nontrivial(a > cc || a > b || b > cc);
    rec.class_if(a > cc, "min>max");
    Ok(())
}

impl Property for C13 {
    fn id(&self) -> &'static str {
        "C13"
    }
    fn rule(&self) -> String {
        "proptest generates 1-4 axis triples (ordinary, degenerate, tiny, fractional, wide; raw 16.16) each with an optional valid avar segment map; \
         my own fvar/avar encoders produce the tables; every axis is probed at min/default/max ±1 raw unit, knot pre-images ±1, random inside/outside values and i32 extremes; \
         FvarTable::normalize is compared with an exact-rational reference (tolerance max(1, slope) units of 2.14), exact images of min/default/max, range, monotonicity, wrong tuple length. \
         Exhaustive sweeps cover all 65536 F2Dot14 values for the fixed-point conversions. \
         Non-trivial = some probe lies strictly inside (min,max), differs from default and (with avar) lies strictly inside a segment; distinct by hash of the generated case."
            .to_string()
    }
    fn assumptions(&self) -> Vec<String> {
        vec![
            "the slope used for the tolerance is the largest slope among the avar segment containing the exact value and its two neighbours".into(),
            "avar maps are generated valid per the OpenType spec (from strictly increasing, to non-decreasing, -1→-1, 0→0, 1→1)".into(),
        ]
    }
    fn run(&self, ctx: &mut Ctx) {
        let n = ctx.cases(300_000, 10_000_000);
        ctx.section("normalize", n, case_strategy(), |c, rec| check_case(c, rec));
        let n = ctx.cases(200_000, 4_000_000);
        ctx.section(
            "corrupt-axis",
            n,
            (any::<i32>(), any::<i32>(), any::<i32>(), any::<i32>()).prop_map(|(a, b, c, u)| {
                // small magnitudes half of the time so that orderings are mixed
                if a & 1 == 0 { (a >> 12, b >> 12, c >> 12, u >> 12) } else { (a, b, c, u) }
            }),
            |c, rec| check_corrupt(c, rec),
        );
        // exhaustive conversions: 256 chunks of 256 F2Dot14 values
        ctx.enumerate("f2dot14-conversions", 256, true, |chunk, rec| {
            for lo in 0..256u32 {
                let v = ((chunk as u32) << 8 | lo) as u16 as i16;
                let f = F2Dot14::from_raw(v);
                let fx = Fixed::from(f);
                if fx.raw_value() != (v as i32) * 4 {
                    return Err(fail("f2dot14-to-fixed", format!("Fixed::from(F2Dot14 {}) = {}", v, fx.raw_value())));
                }
                if F2Dot14::from(fx).raw_value() != v {
                    return Err(fail("f2dot14-fixed-roundtrip", format!("F2Dot14::from(Fixed::from({})) = {}", v, F2Dot14::from(fx).raw_value())));
                }
                let fl = f32::from(f);
                if fl as f64 != v as f64 / 16384.0 {
                    return Err(fail("f2dot14-to-f32", format!("f32::from(F2Dot14 {}) = {}", v, fl)));
                }
                if F2Dot14::from(fl).raw_value() != v {
                    return Err(fail("f2dot14-f32-roundtrip", format!("F2Dot14::from(f32::from({})) = {}", v, F2Dot14::from(fl).raw_value())));
                }
                // Fixed -> F2Dot14 rounding for the three 16.16 values between neighbours
                for d in -2i32..=2 {
                    let raw = (v as i32) * 4 + d;
                    if !(-131072..=131071 - 2).contains(&raw) {
                        continue;
                    }
                    let exp = (raw + 2).div_euclid(4);
                    let got = F2Dot14::from(Fixed::from_raw(raw)).raw_value() as i32;
                    if got != exp {
                        return Err(fail("fixed-to-f2dot14-rounding", format!("F2Dot14::from(Fixed {}) = {}, round-to-nearest is {}", raw, got, exp)));
                    }
                }
                let ffx = f32::from(fx);
                if ffx as f64 != fx.raw_value() as f64 / 65536.0 {
                    return Err(fail("fixed-to-f32", format!("f32::from(Fixed {}) = {}", fx.raw_value(), ffx)));
                }
            }
            rec.evaluations(256 * 9);
            rec.nontrivial();
            rec.hash_u64(chunk);
            Ok(())
        });
        // f32 -> fixed conversions against round-half-away-from-zero on a dense grid
        let n = ctx.cases(100_000, 2_000_000);
        ctx.section(
            "from-f32-grid",
            n,
            (any::<u32>(), 0u8..5),
            |(r, kind), rec| {
                let mut evals = 0u64;
                for k in 0..64u32 {
                    let bits = crate::engine::util::mix64((*r as u64) << 8 | k as u64);
                    // values in (-32768, 32768) for Fixed
                    let x: f32 = match kind {
                        0 => ((bits % (1u64 << 31)) as i64 - (1i64 << 30)) as f32 / 32768.0,
                        1 => (bits % 65536) as f32 + 1.0 - f32::powi(2.0, -(((bits >> 40) % 24 + 1) as i32)),
                        2 => -((bits % 65536) as f32) - 1.0 + f32::powi(2.0, -(((bits >> 40) % 24 + 1) as i32)),
                        3 => ((bits % (1 << 24)) as f32) / 65536.0 * if bits >> 63 == 1 { -1.0 } else { 1.0 },
                        _ => ((bits % (1 << 20)) as f32) / 16384.0 * if bits >> 63 == 1 { -1.0 } else { 1.0 },
                    };
                    let scaled = x as f64 * 65536.0;
                    let exp = if scaled >= 0.0 { (scaled + 0.5).floor() } else { -((-scaled + 0.5).floor()) };
                    if exp.abs() < 2147483648.0 - 1.0 && x.abs() < 32768.0 {
                        evals += 1;
                        let got = Fixed::from(x).raw_value();
                        if got as f64 != exp {
                            return Err(fail("fixed-from-f32", format!("Fixed::from({:e}f32) = raw {}, round-to-nearest gives {}", x, got, exp)));
                        }
                    }
                    let scaled = x as f64 * 16384.0;
                    let exp = if scaled >= 0.0 { (scaled + 0.5).floor() } else { -((-scaled + 0.5).floor()) };
                    if (-32768.0..=32767.0).contains(&exp) {
                        evals += 1;
                        let got = F2Dot14::from(x).raw_value();
                        if got as f64 != exp {
                            return Err(fail("f2dot14-from-f32", format!("F2Dot14::from({:e}f32) = raw {}, round-to-nearest gives {}", x, got, exp)));
                        }
                    }
                }
                rec.evaluations(evals);
                rec.nontrivial();
                rec.class(match kind { 0 => "grid:uniform", 1 => "grid:fraction-rounds-up", 2 => "grid:negative-fraction-rounds-up", 3 => "grid:16.16-exact", _ => "grid:2.14-exact" });
                Ok(())
            },
        );
    }
}

// ------------------------------------------------------------------ libFuzzer: bytes → Case

/// One axis triple of `triple()`: same eight kinds, weights and ranges.
fn u_triple(u: &mut arbitrary::Unstructured<'_>) -> (i32, i32, i32, &'static str) {
    let f = |v: i32| v << 16;
    let mut r = |lo: i32, hi: i32| u.int_in_range(lo..=hi).unwrap_or(lo);
    match r(0, 14) {
        0..=3 => {
            let (a, b, c, fa, fb) = (r(1, 399), r(0, 599), r(0, 399), r(0, 65535), r(0, 65535));
            let min = f(a) + (fa & 0xFFFF) * (fa & 1);
            let def = min + f(b) + fb * (fb & 1);
            (min, def, def + f(c), "ordinary")
        }
        4..=5 => (f(r(-90, -1)), 0, f(r(0, 89)), "around-zero"),
        6 => {
            let (a, c) = (r(-1000, 999), r(0, 499));
            (f(a), f(a), f(a) + f(c), "min=default")
        }
        7 => {
            let (a, c) = (r(-1000, 999), r(0, 499));
            (f(a) - f(c), f(a), f(a), "default=max")
        }
        8 => {
            let a = r(-1000, 999);
            (f(a), f(a), f(a), "all-equal")
        }
        9..=10 => {
            let (a, b, c, fr) = (r(-2000, 1999), r(0, 5), r(0, 5), r(0, 65535));
            let min = f(a) + fr;
            (min, min + b, min + b + c, "tiny")
        }
        11..=13 => {
            let (a, b, c, fr) = (r(-8000, 7999), r(0, (4000 << 16) - 1), r(0, (4000 << 16) - 1), r(0, 65535));
            let min = f(a) + fr;
            (min, min + b, min + b + c, "fractional")
        }
        _ => {
            let (min, max) = (r(i32::MIN, -1), r(0, i32::MAX));
            let rr = r(i32::MIN, i32::MAX) as u32;
            let span = (max as i64 - min as i64) as u64;
            let def = (min as i64 + ((rr as u64 * span) >> 32) as i64) as i32;
            (min, def, max, "wide")
        }
    }
}

fn u_side(u: &mut arbitrary::Unstructured<'_>) -> Vec<(i16, i16)> {
    let n = u.int_in_range(0usize..=3).unwrap_or(0);
    (0..n).map(|_| (u.int_in_range(1i16..=16383).unwrap_or(1), u.int_in_range(0i16..=16384).unwrap_or(0))).collect()
}

/// bytes → `Case` of `case_strategy()` (section `normalize`). Fixed-size choices first (axis count,
/// axisSize excess, header gap, avar presence), then the axes: triple kind and its parameters, avar
/// option (6/10) with 0-3 interior knots per side through the strategy's own map builder, six raw
/// user values. An exhausted tape ends the axis list after the first axis; reads past the end
/// yield the lower bounds, so every input is a case.
pub fn case_from_bytes(data: &[u8]) -> arbitrary::Result<Case> {
    let mut u = arbitrary::Unstructured::new(data);
    let n = u.int_in_range(1usize..=4).unwrap_or(1);
    let axis_size_extra = match u.int_in_range(0u8..=3).unwrap_or(0) {
        3 => u.int_in_range(1u16..=8).unwrap_or(1),
        _ => 0,
    };
    let header_gap = match u.int_in_range(0u8..=4).unwrap_or(0) {
        4 => match u.int_in_range(0u8..=3).unwrap_or(0) {
            0 => 2,
            1 => 4,
            2 => 20,
            _ => u.int_in_range(1u16..=39).unwrap_or(1),
        },
        _ => 0,
    };
    let with_avar = u.int_in_range(0u8..=9).unwrap_or(0) < 7;
    let mut axes = Vec::with_capacity(n);
    for i in 0..n {
        if i >= 1 && u.is_empty() {
            break; // 1..=4 axes
        }
        let (min, default, max, kind) = u_triple(&mut u);
        let avar = if u.int_in_range(0u8..=9).unwrap_or(0) < 6 {
            let neg = u_side(&mut u);
            let pos = u_side(&mut u);
            let steep: bool = u.arbitrary().unwrap_or_default();
            Some(avar_from_parts(&neg, &pos, steep))
        } else {
            None
        };
        let randoms: Vec<i32> = (0..6).map(|_| u.arbitrary().unwrap_or_default()).collect();
        axes.push(Axis { min, default, max, avar, randoms, kind });
    }
    let case = Case { axes, axis_size_extra, header_gap, with_avar };
    if let Some(what) = domain_violation(&case) {
        panic!("C13 case_from_bytes left the domain of case_strategy: {}", what);
    }
    Ok(case)
}

/// The invariants of `case_strategy()`, re-stated (asserted on every decoded case).
pub fn domain_violation(c: &Case) -> Option<&'static str> {
    if c.axes.is_empty() || c.axes.len() > 4 {
        return Some("axis count outside 1..=4");
    }
    if c.axis_size_extra > 8 || c.header_gap > 39 {
        return Some("axisSize excess or header gap out of range");
    }
    for a in &c.axes {
        if !(a.min <= a.default && a.default <= a.max) {
            return Some("axis triple not ordered");
        }
        if a.randoms.len() != 6 {
            return Some("not six user values");
        }
        if let Some(m) = &a.avar {
            if m.len() < 3 || m.len() > 9 || m[0] != (-16384, -16384) || m[m.len() - 1] != (16384, 16384) || !m.contains(&(0, 0)) {
                return Some("avar map without the three required entries");
            }
            for w in m.windows(2) {
                if w[0].0 >= w[1].0 || w[0].1 > w[1].1 {
                    return Some("avar map not monotone");
                }
            }
        }
    }
    None
}
