//! C05 — not built yet.
use crate::engine::{Ctx, Property};

pub struct C05;

impl Property for C05 {
    fn id(&self) -> &'static str {
        "C05"
    }
    fn rule(&self) -> String {
        "not implemented".to_string()
    }
    fn run(&self, _ctx: &mut Ctx) {}
}
