//! C05 — glyph positioning follows OpenType GPOS semantics (plus legacy kern).
//!
//! Differential check: a *program model* (GDEF + GPOS lookups of types 1-9 + kern table) is
//! generated, encoded with my own encoders (`fontgen::otl_gpos`), embedded in a complete font
//! (`fontgen::basic::BasicFont`) and run through allsorts (`Font::shape`, `gpos::apply_features`,
//! `GlyphLayout::glyph_positions`). The result is compared with `refmodel::otl_gpos`, an
//! interpreter written from the OpenType specification, at two levels: the per-glyph
//! adjustments/attachments (`Info.kerning`, `Info.placement`) and the absolute pen positions.
//!
//! Known deviations of allsorts are handled by *defect models* (DESIGN §3.6): a mismatching
//! case is attributed to a set of known deviations only if the reference with exactly those
//! deviations switched on differs from the spec reference and reproduces allsorts' output
//! exactly; everything else is a failure.

use crate::engine::util::pick;
use crate::engine::{CaseResult, Ctx, Fail, Property, Rec};
use crate::fontgen::basic::BasicFont;
use crate::fontgen::otl_gpos::*;
use crate::refmodel::otl_gpos::{self as refm, dev, Attach, GlyphIn, GlyphOut, Interp, KernBytes, RunResult, Step};
use allsorts::binary::read::ReadScope;
use allsorts::font::Font;
use allsorts::font_data::FontData;
use allsorts::glyph_position::{GlyphLayout, TextDirection};
use allsorts::gpos::{self, Info, Placement};
use allsorts::gsub::{FeatureInfo, Features, GlyphOrigin, RawGlyph, RawGlyphFlags};
use allsorts::layout::{new_layout_cache, GDEFTable, LayoutTable, GPOS};
use allsorts::tables::kern::KernTable;
use allsorts::tables::variable_fonts::fvar::Tuple;
use allsorts::tables::F2Dot14;
use proptest::prelude::*;
use std::collections::BTreeMap;

#[path = "c05_ext.rs"]
pub mod ext;

pub struct C05;

const TAPE_LEN: usize = 900;

// ---------------------------------------------------------------------------------------------
// entropy tape: every random choice is a value drawn by proptest; 0 means "simplest"

struct Tape<'a> {
    v: &'a [u32],
    pos: usize,
}

impl<'a> Tape<'a> {
    fn raw(&mut self) -> u32 {
        let r = self.v.get(self.pos).copied().unwrap_or(0);
        self.pos += 1;
        r
    }
    fn below(&mut self, n: usize) -> usize {
        let r = self.raw();
        pick(n, r)
    }
    /// inclusive range
    fn range(&mut self, lo: usize, hi: usize) -> usize {
        lo + self.below(hi - lo + 1)
    }
    /// true with probability p% (a zero tape gives false)
    fn chance(&mut self, p: u32) -> bool {
        let r = self.raw();
        ((r as u64 * 100) >> 32) as u32 >= 100 - p.min(100)
    }
    fn weighted(&mut self, weights: &[u32]) -> usize {
        let total: u32 = weights.iter().sum();
        let mut x = self.below(total as usize) as u32;
        for (i, w) in weights.iter().enumerate() {
            if x < *w {
                return i;
            }
            x -= w;
        }
        weights.len() - 1
    }
    fn signed(&mut self, mag: usize) -> i16 {
        let m = self.below(mag + 1) as i32;
        if self.chance(50) {
            -m as i16
        } else {
            m as i16
        }
    }
    /// design-unit value: mostly small, sometimes large, rarely extreme
    fn value(&mut self) -> i16 {
        match self.weighted(&[70, 22, 6, 2]) {
            0 => self.signed(60) * 5,
            1 => self.signed(1200),
            2 => self.signed(9000),
            _ => [i16::MAX, i16::MIN, -1, 1, 16384, -16384][self.below(6)],
        }
    }
    fn coord(&mut self) -> i16 {
        match self.weighted(&[80, 18, 2]) {
            0 => self.signed(100) * 10,
            1 => self.signed(2500),
            _ => [i16::MAX, i16::MIN, 12345, -12345][self.below(4)],
        }
    }
}

// ---------------------------------------------------------------------------------------------
// case model

#[derive(Clone, Debug)]
pub struct Program {
    pub nglyphs: u16,
    pub gdef: Option<GdefModel>,
    pub gpos: Option<GposModel>,
    pub kern: Option<KernModel>,
    /// font advance per glyph id
    pub advances: Vec<u16>,
    pub strings: Vec<Vec<GlyphIn>>,
    /// custom feature tags (applied after the base list), in application order
    pub custom: Vec<[u8; 4]>,
    pub lang: Option<[u8; 4]>,
    pub kerning: Vec<bool>,
    /// every mark has a zero font advance (needed for the RTL position check)
    pub zero_advance_marks: bool,
    /// number of variation axes (an fvar table is written when > 0)
    pub axes: u16,
    /// normalised location (raw F2Dot14 per axis) passed to the shaping calls; None = no tuple
    pub tuple: Option<Vec<i16>>,
}

struct Universe {
    all: Vec<Gid>,
    classes: Vec<u16>,
    marks: Vec<Gid>,
    nonmarks: Vec<Gid>,
    ligs: Vec<Gid>,
}

fn gen_cov(t: &mut Tape, pool: &[Gid], density: u32) -> Cov {
    let mut g: Vec<Gid> = Vec::new();
    for p in pool {
        if t.chance(density) {
            g.push(*p);
        }
    }
    if g.is_empty() && !pool.is_empty() {
        g.push(pool[t.below(pool.len())]);
    }
    Cov::new(g, 1 + t.below(3) as u8)
}

/// coverage that is sure to contain `must`
fn gen_cov_with(t: &mut Tape, pool: &[Gid], density: u32, must: &[Gid]) -> Cov {
    let mut c = gen_cov(t, pool, density);
    let mut g = c.glyphs.clone();
    g.extend_from_slice(must);
    c = Cov::new(g, c.fmt);
    c
}

fn gen_classdef(t: &mut Tape, pool: &[Gid], nclasses: usize) -> ClassDefM {
    let mut map = BTreeMap::new();
    for g in pool {
        let c = t.below(nclasses) as u16;
        if c != 0 {
            map.insert(*g, c);
        }
    }
    ClassDefM { map, fmt: 1 + t.below(3) as u8 }
}

fn gen_value_format(t: &mut Tape, allow_zero: bool) -> u8 {
    let mut f = match t.weighted(&[20, 30, 10, 10, 30]) {
        0 => 0u8,
        1 => 4,       // xAdvance only (kerning)
        2 => 1,       // xPlacement
        3 => 3,       // x/y placement
        _ => t.below(16) as u8,
    };
    if f == 0 && !allow_zero {
        f = 4;
    }
    if t.chance(8) {
        f |= (t.below(16) as u8) << 4; // NULL device offsets
    }
    f
}

fn gen_value(t: &mut Tape, fmt: u8) -> Value {
    let mut v = Value::default();
    if fmt & 1 != 0 {
        v.xp = t.value();
    }
    if fmt & 2 != 0 {
        v.yp = t.value();
    }
    if fmt & 4 != 0 {
        v.xa = t.value();
    }
    if fmt & 8 != 0 && t.chance(25) {
        v.ya = t.value();
    }
    if t.chance(10) {
        v = Value::default();
    }
    v
}

fn gen_anchor(t: &mut Tape) -> AnchorM {
    AnchorM { x: t.coord(), y: t.coord(), fmt: 1 + t.below(3) as u8, point: t.below(40) as u16, dev: [DevM::None; 2] }
}

fn gen_flags(t: &mut Tape, u: &Universe, gdef: Option<&GdefModel>, ltype: u16) -> Flags {
    let mut f = Flags::default();
    let gdef = match gdef {
        Some(g) => g,
        None => return f,
    };
    let marky = matches!(ltype, 4 | 5 | 6);
    if !t.chance(if marky { 25 } else { 45 }) {
        return f;
    }
    let nsets = gdef.mark_sets.len();
    if marky {
        match t.weighted(&[45, if nsets > 0 { 45 } else { 0 }, 10]) {
            0 => f.mark_attach_type = 1 + t.below(2) as u8,
            1 => f.mark_filter_set = Some(t.below(nsets) as u16),
            _ => f.ignore_marks = true,
        }
        return f;
    }
    f.ignore_base = t.chance(12);
    f.ignore_lig = t.chance(20);
    match t.weighted(&[25, 35, 20, if nsets > 0 { 20 } else { 0 }]) {
        0 => {}
        1 => f.ignore_marks = true,
        2 => f.mark_attach_type = 1 + t.below(2) as u8,
        _ => f.mark_filter_set = Some(t.below(nsets) as u16),
    }
    if ltype == 3 {
        f.rtl = t.chance(65);
        f.ignore_base = false;
    }
    let _ = u;
    f
}

/// glyphs of `s` not skipped under `f`, as indices into `s`
fn unskipped(gdef: Option<&GdefModel>, f: &Flags, s: &[Gid]) -> Vec<usize> {
    (0..s.len()).filter(|i| refm::skip_reason(gdef, f, s[*i], 0).is_none()).collect()
}

struct Gen<'t, 'a> {
    t: &'t mut Tape<'a>,
    u: Universe,
    gdef: Option<GdefModel>,
    seed: Vec<Gid>,
    lookups: Vec<Lookup>,
    /// lookups only reachable through sequence-lookup records
    nested_only: Vec<bool>,
    /// extension mode (section nested-attach): sequence-lookup records may point at lookups of
    /// types 3-6. Off, the generator reads the tape exactly as it always did.
    nested_attach: bool,
    /// glyphs of the input sequence the records being generated refer to (extension mode)
    hint: Vec<Gid>,
    /// added to the coverage densities of attachment subtables (extension mode)
    cov_boost: u32,
}

impl<'t, 'a> Gen<'t, 'a> {
    fn pool_any(&self) -> Vec<Gid> {
        self.u.all.clone()
    }

    fn gen_single(&mut self, pool: &[Gid]) -> Subtable {
        let t = &mut *self.t;
        let cov = gen_cov(t, pool, 40);
        let fmt = gen_value_format(t, t.pos % 7 == 0);
        if t.chance(50) {
            let value = gen_value(t, fmt);
            Subtable::Single1 { cov, fmt, value }
        } else {
            let values = (0..cov.len()).map(|_| gen_value(t, fmt)).collect();
            Subtable::Single2 { cov, fmt, values }
        }
    }

    fn gen_pair(&mut self, pool: &[Gid], flags: &Flags) -> Subtable {
        let gdef = self.gdef.clone();
        let t = &mut *self.t;
        let fmt1 = gen_value_format(t, true);
        let fmt2 = if t.chance(45) { gen_value_format(t, false) } else { 0 };
        // successor pairs of the seed string under the lookup flags make likely hits
        let vis = unskipped(gdef.as_ref(), flags, &self.seed);
        let succ: Vec<(Gid, Gid)> = vis.windows(2).map(|w| (self.seed[w[0]], self.seed[w[1]])).collect();
        if t.chance(50) {
            let firsts: Vec<Gid> = succ.iter().map(|p| p.0).filter(|_| t.chance(60)).collect();
            let cov = gen_cov_with(t, pool, 20, &firsts);
            let mut sets = Vec::new();
            for g1 in &cov.glyphs {
                let mut seconds: Vec<Gid> = succ.iter().filter(|p| p.0 == *g1 && t.chance(75)).map(|p| p.1).collect();
                for _ in 0..t.below(3) {
                    seconds.push(pool[t.below(pool.len())]);
                }
                seconds.sort_unstable();
                seconds.dedup();
                let set: Vec<(Gid, Value, Value)> = seconds.into_iter().map(|g2| (g2, gen_value(t, fmt1), gen_value(t, fmt2))).collect();
                sets.push(set);
            }
            Subtable::Pair1 { cov, fmt1, fmt2, sets }
        } else {
            let cov = gen_cov(t, pool, 50);
            let c1 = 1 + t.below(3);
            let c2 = 1 + t.below(3);
            let cd1 = gen_classdef(t, &self.u.all, c1);
            let cd2 = gen_classdef(t, &self.u.all, c2);
            let matrix = (0..c1)
                .map(|_| {
                    (0..c2)
                        .map(|_| if t.chance(25) { (Value::default(), Value::default()) } else { (gen_value(t, fmt1), gen_value(t, fmt2)) })
                        .collect()
                })
                .collect();
            Subtable::Pair2 { cov, fmt1, fmt2, cd1, cd2, matrix }
        }
    }

    fn gen_cursive(&mut self) -> Subtable {
        let t = &mut *self.t;
        let cov = gen_cov(t, &self.u.nonmarks, 60 + self.cov_boost);
        // fonts commonly put the entry anchor at x = 0 (that is also where allsorts' pen model
        // for cursive links agrees with the specification)
        let entry_x0 = t.chance(45);
        let recs = (0..cov.len())
            .map(|_| {
                let entry = if t.chance(80) {
                    let mut a = gen_anchor(t);
                    if entry_x0 {
                        a.x = 0;
                    }
                    Some(a)
                } else {
                    None
                };
                (entry, if t.chance(80) { Some(gen_anchor(t)) } else { None })
            })
            .collect();
        Subtable::Cursive { cov, recs }
    }

    fn gen_marks(t: &mut Tape, cov: &Cov, class_count: u16) -> Vec<(u16, AnchorM)> {
        (0..cov.len()).map(|_| (t.below(class_count as usize) as u16, gen_anchor(t))).collect()
    }

    fn gen_anchor_row(t: &mut Tape, class_count: u16) -> Vec<Option<AnchorM>> {
        (0..class_count).map(|_| if t.chance(85) { Some(gen_anchor(t)) } else { None }).collect()
    }

    fn gen_mark_base(&mut self) -> Subtable {
        let t = &mut *self.t;
        let mark_cov = gen_cov(t, &self.u.marks, 65 + self.cov_boost);
        let base_cov = gen_cov(t, &self.u.nonmarks, 60 + self.cov_boost);
        let class_count = 1 + t.below(3) as u16;
        let marks = Self::gen_marks(t, &mark_cov, class_count);
        let bases = (0..base_cov.len()).map(|_| Self::gen_anchor_row(t, class_count)).collect();
        Subtable::MarkBase { mark_cov, base_cov, class_count, marks, bases }
    }

    fn gen_mark_lig(&mut self) -> Subtable {
        let t = &mut *self.t;
        let mark_cov = gen_cov(t, &self.u.marks, 65 + self.cov_boost);
        let pool = if self.u.ligs.is_empty() || t.chance(15) { self.u.nonmarks.clone() } else { self.u.ligs.clone() };
        let lig_cov = gen_cov(t, &pool, 75);
        let class_count = 1 + t.below(3) as u16;
        let marks = Self::gen_marks(t, &mark_cov, class_count);
        let ligs = (0..lig_cov.len())
            .map(|_| {
                let ncomp = 1 + t.below(3);
                (0..ncomp).map(|_| Self::gen_anchor_row(t, class_count)).collect()
            })
            .collect();
        Subtable::MarkLig { mark_cov, lig_cov, class_count, marks, ligs }
    }

    fn gen_mark_mark(&mut self) -> Subtable {
        let t = &mut *self.t;
        let mark1_cov = gen_cov(t, &self.u.marks, 65 + self.cov_boost);
        let mark2_cov = gen_cov(t, &self.u.marks, 65 + self.cov_boost);
        let class_count = 1 + t.below(3) as u16;
        let marks = Self::gen_marks(t, &mark1_cov, class_count);
        let mark2s = (0..mark2_cov.len()).map(|_| Self::gen_anchor_row(t, class_count)).collect();
        Subtable::MarkMark { mark1_cov, mark2_cov, class_count, marks, mark2s }
    }

    /// a nested lookup (type 1 or 2) appended to the list; returns its index
    /// extension mode: a nested lookup of type 3-6 (cursive, mark-base, mark-ligature,
    /// mark-mark), new or an existing one of those types
    fn gen_nested_attach(&mut self, parent_flags: &Flags) -> u16 {
        let has_ligs = !self.u.ligs.is_empty();
        let ltype = [3u16, 4, 5, 6][self.t.weighted(&[12, 42, if has_ligs { 18 } else { 4 }, 28])];
        let candidates: Vec<usize> = self.lookups.iter().enumerate().filter(|(_, l)| l.ltype == ltype).map(|(i, _)| i).collect();
        if !candidates.is_empty() && self.t.chance(25) {
            return candidates[self.t.below(candidates.len())] as u16;
        }
        let nsets = self.gdef.as_ref().map(|g| g.mark_sets.len()).unwrap_or(0);
        let mut flags = Flags::default();
        let wf = if ltype == 6 { 30 } else { 18 };
        match self.t.weighted(&[50, wf, if nsets > 0 { wf } else { 0 }, 12]) {
            0 => {}
            1 => flags.mark_attach_type = 1 + self.t.below(2) as u8,
            2 => flags.mark_filter_set = Some(self.t.below(nsets) as u16),
            _ => flags = *parent_flags,
        }
        if ltype == 3 {
            flags.rtl = self.t.chance(65);
        } else {
            flags.rtl = false;
        }
        self.cov_boost = 25;
        let st = match ltype {
            3 => self.gen_cursive(),
            4 => self.gen_mark_base(),
            5 => self.gen_mark_lig(),
            _ => self.gen_mark_mark(),
        };
        self.cov_boost = 0;
        let l = Lookup { ltype, flags, subtables: vec![st], extension: self.t.chance(15), share: self.t.chance(50) };
        self.lookups.push(l);
        self.nested_only.push(true);
        (self.lookups.len() - 1) as u16
    }

    fn gen_nested(&mut self, parent_flags: &Flags) -> u16 {
        if self.nested_attach && !self.u.marks.is_empty() && !self.u.nonmarks.is_empty() && self.gdef.is_some() && self.t.chance(70) {
            return self.gen_nested_attach(parent_flags);
        }
        // sometimes reuse an existing type 1/2 lookup
        let candidates: Vec<usize> = self.lookups.iter().enumerate().filter(|(_, l)| l.ltype <= 2).map(|(i, _)| i).collect();
        if !candidates.is_empty() && self.t.chance(25) {
            return candidates[self.t.below(candidates.len())] as u16;
        }
        let ltype = if self.t.chance(35) { 2 } else { 1 };
        let flags = if self.t.chance(65) {
            *parent_flags
        } else {
            let g = self.gdef.clone();
            gen_flags(self.t, &self.u, g.as_ref(), ltype)
        };
        let pool = self.pool_any();
        let st = if ltype == 1 { self.gen_single(&pool) } else { self.gen_pair(&pool, &flags) };
        let l = Lookup { ltype, flags, subtables: vec![st], extension: self.t.chance(15), share: self.t.chance(50) };
        self.lookups.push(l);
        self.nested_only.push(true);
        (self.lookups.len() - 1) as u16
    }

    fn gen_records(&mut self, input_len: usize, flags: &Flags) -> Vec<SeqLookup> {
        let n = 1 + self.t.below(2);
        let mut v = Vec::new();
        for _ in 0..n {
            let mut seq = self.t.below(input_len) as u16;
            if self.nested_attach && self.hint.len() == input_len {
                // prefer a record on a mark of the input sequence
                let marks: Vec<usize> = (0..input_len).filter(|i| self.u.classes[self.hint[*i] as usize] == 3).collect();
                if !marks.is_empty() && self.t.chance(65) {
                    seq = marks[self.t.below(marks.len())] as u16;
                }
            }
            let li = self.gen_nested(flags);
            v.push((seq, li));
        }
        v
    }

    fn gen_context(&mut self, chained: bool, flags: &Flags) -> Subtable {
        let gdef = self.gdef.clone();
        let vis = unskipped(gdef.as_ref(), flags, &self.seed);
        let seed = self.seed.clone();
        let all = self.u.all.clone();
        // choose a window of the seed string (in unskipped glyphs)
        let (back_n, input_n, look_n) = if vis.is_empty() {
            (0, 1, 0)
        } else {
            let input_n = 1 + self.t.below(3.min(vis.len()));
            let back_n = if chained { self.t.below(3) } else { 0 };
            let look_n = if chained { self.t.below(3) } else { 0 };
            (back_n, input_n, look_n)
        };
        let total = back_n + input_n + look_n;
        let window: Vec<Gid> = if vis.len() >= total && total > 0 {
            let start = self.t.below(vis.len() - total + 1);
            vis[start..start + total].iter().map(|i| seed[*i]).collect()
        } else {
            (0..total).map(|_| all[self.t.below(all.len())]).collect()
        };
        let back: Vec<Gid> = window[..back_n].iter().rev().copied().collect();
        let input: Vec<Gid> = window[back_n..back_n + input_n].to_vec();
        let look: Vec<Gid> = window[back_n + input_n..].to_vec();
        self.hint = input.clone();
        let records = self.gen_records(input_n, flags);
        self.hint.clear();
        let fmt = 1 + self.t.below(3);
        // a decoy rule that is tried first and (usually) fails
        let decoy = self.t.chance(30);
        let mut decoy_rule = |me: &mut Self, conv: &dyn Fn(Gid) -> u16| -> Rule {
            let mut inp: Vec<u16> = input[1..].iter().map(|g| conv(*g)).collect();
            inp.push(conv(all[me.t.below(all.len())]));
            let recs = me.gen_records(inp.len() + 1, flags);
            Rule { back: vec![], input: inp, look: vec![], records: recs }
        };
        match fmt {
            1 => {
                let cov = gen_cov_with(self.t, &all, 15, &[input[0]]);
                let mut rulesets: Vec<Option<Vec<Rule>>> = Vec::new();
                for g in cov.glyphs.clone() {
                    if g == input[0] {
                        let mut rules = Vec::new();
                        if decoy {
                            rules.push(decoy_rule(self, &|g| g));
                        }
                        rules.push(Rule { back: back.clone(), input: input[1..].to_vec(), look: look.clone(), records: records.clone() });
                        rulesets.push(Some(rules));
                    } else if self.t.chance(40) {
                        let recs = self.gen_records(1, flags);
                        rulesets.push(Some(vec![Rule { back: vec![], input: vec![], look: vec![], records: recs }]));
                    } else {
                        rulesets.push(None);
                    }
                }
                if chained {
                    Subtable::Chain1 { cov, rulesets }
                } else {
                    Subtable::Context1 { cov, rulesets }
                }
            }
            2 => {
                let ncl = 2 + self.t.below(2);
                let icd = gen_classdef(self.t, &all, ncl);
                let (bcd, lcd) = if chained && self.t.chance(50) {
                    (gen_classdef(self.t, &all, ncl), gen_classdef(self.t, &all, ncl))
                } else {
                    (icd.clone(), icd.clone())
                };
                let cov = gen_cov_with(self.t, &all, 30, &[input[0]]);
                let first_class = icd.class(input[0]) as usize;
                let mut sets: Vec<Option<Vec<Rule>>> = Vec::new();
                for c in 0..ncl {
                    if c == first_class {
                        let mut rules = Vec::new();
                        if decoy {
                            let icd2 = icd.clone();
                            rules.push(decoy_rule(self, &move |g| icd2.class(g)));
                        }
                        rules.push(Rule {
                            back: back.iter().map(|g| bcd.class(*g)).collect(),
                            input: input[1..].iter().map(|g| icd.class(*g)).collect(),
                            look: look.iter().map(|g| lcd.class(*g)).collect(),
                            records: records.clone(),
                        });
                        sets.push(Some(rules));
                    } else if self.t.chance(30) {
                        let recs = self.gen_records(1, flags);
                        sets.push(Some(vec![Rule { back: vec![], input: vec![], look: vec![], records: recs }]));
                    } else {
                        sets.push(None);
                    }
                }
                if chained {
                    Subtable::Chain2 { cov, bcd, icd, lcd, sets }
                } else {
                    Subtable::Context2 { cov, cd: icd, sets }
                }
            }
            _ => {
                let mk = |me: &mut Self, g: Gid| gen_cov_with(me.t, &all, 20, &[g]);
                let input_c: Vec<Cov> = input.iter().map(|g| mk(self, *g)).collect();
                if chained {
                    let back_c: Vec<Cov> = back.iter().map(|g| mk(self, *g)).collect();
                    let look_c: Vec<Cov> = look.iter().map(|g| mk(self, *g)).collect();
                    Subtable::Chain3 { back: back_c, input: input_c, look: look_c, records }
                } else {
                    Subtable::Context3 { covs: input_c, records }
                }
            }
        }
    }

    /// extension mode: one more lookup, of type 7 or 8
    fn gen_context_lookup(&mut self) {
        let chained = self.t.chance(50);
        let ltype = if chained { 8 } else { 7 };
        let g = self.gdef.clone();
        let flags = if self.t.chance(55) { Flags::default() } else { gen_flags(self.t, &self.u, g.as_ref(), ltype) };
        let st = self.gen_context(chained, &flags);
        let l = Lookup { ltype, flags, subtables: vec![st], extension: self.t.chance(15), share: self.t.chance(50) };
        self.lookups.push(l);
        self.nested_only.push(false);
    }

    fn gen_lookup(&mut self) {
        let has_marks = !self.u.marks.is_empty() && !self.u.nonmarks.is_empty() && self.gdef.is_some();
        let w_mark = if has_marks { 1 } else { 0 };
        let ltype = [1u16, 2, 3, 4, 5, 6, 7, 8][self.t.weighted(&[16, 22, 8 * (!self.u.nonmarks.is_empty() as u32), 14 * w_mark, 9 * w_mark, 11 * w_mark, 10, 10])];
        let g = self.gdef.clone();
        let mut flags = gen_flags(self.t, &self.u, g.as_ref(), ltype);
        if ltype == 3 {
            // real cursive lookups ignore marks and mostly set RIGHT_TO_LEFT
            if self.t.chance(50) {
                flags = Flags { ignore_marks: g.is_some(), ..Flags::default() };
            }
            flags.rtl = self.t.chance(65);
        }
        let nsub = 1 + self.t.weighted(&[65, 25, 10]);
        let pool = self.pool_any();
        let mut subtables = Vec::new();
        for _ in 0..nsub {
            let st = match ltype {
                1 => self.gen_single(&pool),
                2 => self.gen_pair(&pool, &flags),
                3 => self.gen_cursive(),
                4 => self.gen_mark_base(),
                5 => self.gen_mark_lig(),
                6 => self.gen_mark_mark(),
                7 => self.gen_context(false, &flags),
                _ => self.gen_context(true, &flags),
            };
            subtables.push(st);
        }
        // nested lookups were appended while generating; insert this lookup *before* them so
        // that parents can precede or follow their nested lookups
        let l = Lookup { ltype, flags, subtables, extension: self.t.chance(15), share: self.t.chance(50) };
        self.lookups.push(l);
        self.nested_only.push(false);
    }
}

fn gen_kern(t: &mut Tape, u: &Universe, seed: &[Gid]) -> KernModel {
    let nsub = 1 + t.weighted(&[70, 22, 8]);
    let mut subs = Vec::new();
    let succ: Vec<(Gid, Gid)> = seed.windows(2).map(|w| (w[0], w[1])).collect();
    for si in 0..nsub {
        let last = si + 1 == nsub;
        let mut coverage = KERN_HORIZONTAL;
        if t.chance(8) {
            coverage = 0; // vertical
        }
        if t.chance(6) {
            coverage |= KERN_CROSS_STREAM;
        }
        if t.chance(6) {
            coverage |= KERN_MINIMUM;
        }
        // format 2 only as the last subtable (see the rule text)
        if last && t.chance(35) {
            let nl = 2 + t.below(2);
            let nr = 2 + t.below(2);
            let n = u.all.len();
            let lf = t.below(n.min(4)) as u16 + 1;
            let ll = 1 + t.below(n - lf as usize + 1);
            let rf = t.below(n.min(4)) as u16 + 1;
            let rl = 1 + t.below(n - rf as usize + 1);
            let left = (0..ll).map(|_| t.below(nl) as u16).collect();
            let right = (0..rl).map(|_| t.below(nr) as u16).collect();
            let matrix = (0..nl).map(|r| (0..nr).map(|c| if r == 0 || c == 0 { 0 } else { t.value() }).collect()).collect();
            subs.push(KernSub { coverage, data: KernData::F2 { left_first: lf, left, right_first: rf, right, matrix, layout: t.below(3) as u8 } });
        } else {
            if t.chance(12) {
                coverage |= KERN_OVERRIDE;
            }
            let mut pairs: BTreeMap<(Gid, Gid), i16> = BTreeMap::new();
            for p in &succ {
                if t.chance(55) {
                    pairs.insert(*p, t.value());
                }
            }
            for _ in 0..t.below(6) {
                let l = u.all[t.below(u.all.len())];
                let r = u.all[t.below(u.all.len())];
                pairs.insert((l, r), t.value());
            }
            subs.push(KernSub { coverage, data: KernData::F0(pairs.into_iter().map(|((l, r), v)| (l, r, v)).collect()) });
        }
    }
    KernModel { subs, trailing: if t.chance(30) { (t.below(40) * 2) as u16 } else { 0 } }
}

pub fn build_program(tape: &[u32]) -> Program {
    build_program_mode(tape, false)
}

/// `nested_attach`: extension mode of section nested-attach (GPOS always present, more marks in
/// the seed string, sequence-lookup records pointing at lookups of types 3-6 too)
pub fn build_program_mode(tape: &[u32], nested_attach: bool) -> Program {
    let mut tape = Tape { v: tape, pos: 0 };
    let t = &mut tape;
    let n = 5 + t.below(14) as u16; // glyph ids 1..=n
    let with_gdef = !t.chance(8);
    let mut classes = vec![0u16; n as usize + 1];
    let mut attach = BTreeMap::new();
    for g in 1..=n {
        classes[g as usize] = if with_gdef { [1u16, 3, 2, 0, 4][t.weighted(&[42, 33, 12, 8, 5])] } else { 0 };
        if classes[g as usize] == 3 {
            let a = t.below(3) as u16;
            if a != 0 {
                attach.insert(g, a);
            }
        }
    }
    let all: Vec<Gid> = (1..=n).collect();
    let marks: Vec<Gid> = all.iter().copied().filter(|g| classes[*g as usize] == 3).collect();
    let nonmarks: Vec<Gid> = all.iter().copied().filter(|g| classes[*g as usize] != 3).collect();
    let ligs: Vec<Gid> = all.iter().copied().filter(|g| classes[*g as usize] == 2).collect();
    let gdef = if with_gdef {
        let nsets = if marks.is_empty() { 0 } else { t.weighted(&[40, 35, 25]) };
        let mark_sets: Vec<Cov> = (0..nsets).map(|_| gen_cov(t, &marks, 50)).collect();
        let map: BTreeMap<Gid, u16> = all.iter().filter(|g| classes[**g as usize] != 0).map(|g| (*g, classes[*g as usize])).collect();
        Some(GdefModel {
            glyph_classes: Some(ClassDefM { map, fmt: 1 + t.below(3) as u8 }),
            mark_attach: if attach.is_empty() && t.chance(50) { None } else { Some(ClassDefM { map: attach, fmt: 1 + t.below(3) as u8 }) },
            minor: if mark_sets.is_empty() { [0u16, 0, 2, 3][t.below(4)] } else { [2u16, 3][t.below(2)] },
            mark_sets,
            ivs: None,
        })
    } else {
        None
    };
    let u = Universe { all: all.clone(), classes: classes.clone(), marks, nonmarks, ligs };

    // seed string: bases followed by a few marks are common
    let seed_len = 3 + t.below(8);
    let mut seed: Vec<Gid> = Vec::new();
    while seed.len() < seed_len {
        if !u.marks.is_empty() && !seed.is_empty() && t.chance(if nested_attach { 58 } else { 40 }) {
            seed.push(u.marks[t.below(u.marks.len())]);
        } else if !u.nonmarks.is_empty() {
            seed.push(u.nonmarks[t.below(u.nonmarks.len())]);
        } else {
            seed.push(all[t.below(all.len())]);
        }
    }

    let shape = if nested_attach { t.weighted(&[85, 0, 15]) } else { t.weighted(&[70, 12, 18]) }; // GPOS only / kern only / both
    let with_gpos = shape != 1;
    let with_kern = shape != 0;

    let mut gpos = None;
    let mut custom: Vec<[u8; 4]> = Vec::new();
    let mut lang = None;
    if with_gpos {
        let mut g = Gen { t, u, gdef: gdef.clone(), seed: seed.clone(), lookups: Vec::new(), nested_only: Vec::new(), nested_attach, hint: Vec::new(), cov_boost: 0 };
        let nl = 1 + g.t.weighted(&[30, 30, 20, 12, 8]);
        for _ in 0..nl {
            g.gen_lookup();
        }
        if nested_attach {
            if !g.lookups.iter().any(|l| l.ltype == 7 || l.ltype == 8) {
                g.gen_context_lookup();
            }
            g.gen_context_lookup();
        }
        let lookups = g.lookups;
        let nested_only = g.nested_only;
        let u2 = g.u;
        let t = g.t;
        // features: consecutive chunks of the feature lookups in index order
        let order: [[u8; 4]; 6] = [*b"dist", *b"kern", *b"mark", *b"mkmk", *b"test", *b"ss01"];
        let feature_lookups: Vec<u16> = (0..lookups.len()).filter(|i| !nested_only[*i]).map(|i| i as u16).collect();
        let mut used: Vec<[u8; 4]> = order.iter().copied().filter(|tag| t.chance(if tag == b"kern" && with_kern { 35 } else { 60 })).collect();
        if used.is_empty() {
            used.push(order[t.below(6)]);
        }
        let mut features: Vec<Feature> = used.iter().map(|tag| Feature { tag: *tag, lookups: vec![] }).collect();
        let nf = features.len();
        // non-decreasing assignment
        let mut fi = 0usize;
        for (k, li) in feature_lookups.iter().enumerate() {
            let remaining_l = feature_lookups.len() - k;
            while fi + 1 < nf && t.chance((100 * (nf - fi - 1) / (remaining_l + nf - fi - 1).max(1)) as u32) {
                fi += 1;
            }
            features[fi].lookups.push(*li);
        }
        for f in features.iter_mut() {
            if f.lookups.len() > 1 && t.chance(40) {
                f.lookups.reverse();
            }
            if !f.lookups.is_empty() && t.chance(15) {
                let d = f.lookups[0];
                f.lookups.push(d);
            }
        }
        custom = used.iter().copied().filter(|tag| tag == b"test" || tag == b"ss01").collect();
        // feature list order: shuffled by rotating
        let rot = t.below(nf);
        features.rotate_left(rot);
        let all_idx: Vec<u16> = (0..nf as u16).collect();
        let scripts = match t.weighted(&[30, 30, 20, 20]) {
            0 => vec![ScriptM { tag: *b"DFLT", default: Some(all_idx.clone()), langsys: vec![] }],
            1 => vec![ScriptM { tag: *b"latn", default: Some(all_idx.clone()), langsys: vec![] }],
            2 => vec![
                ScriptM { tag: *b"DFLT", default: Some(vec![]), langsys: vec![] },
                ScriptM { tag: *b"latn", default: Some(all_idx.clone()), langsys: vec![] },
            ],
            _ => {
                lang = Some(*b"ENG ");
                vec![
                    ScriptM { tag: *b"latn", default: Some(vec![]), langsys: vec![(*b"ENG ", all_idx.clone()), (*b"DEU ", vec![])] },
                    ScriptM { tag: *b"grek", default: Some(all_idx.clone()), langsys: vec![] },
                ]
            }
        };
        let minor = if t.chance(25) { 1 } else { 0 };
        gpos = Some(GposModel { lookups, features, scripts, minor });
        return finish_program(t, n, u2, gdef, gpos, with_kern, seed, custom, lang);
    }
    // without GPOS allsorts applies its own fallback mark handling driven by GDEF classes,
    // which is policy rather than GPOS/kern semantics: kern-only fonts carry no GDEF
    finish_program(t, n, u, None, gpos, with_kern, seed, custom, lang)
}

fn finish_program(
    t: &mut Tape,
    n: u16,
    u: Universe,
    gdef: Option<GdefModel>,
    gpos: Option<GposModel>,
    with_kern: bool,
    seed: Vec<Gid>,
    custom: Vec<[u8; 4]>,
    lang: Option<[u8; 4]>,
) -> Program {
    let kern = if with_kern { Some(gen_kern(t, &u, &seed)) } else { None };
    let zero_advance_marks = t.chance(50);
    let mut advances = vec![600u16];
    for g in 1..=n {
        let mark = u.classes[g as usize] == 3;
        advances.push(if mark {
            if zero_advance_marks || t.chance(40) {
                0
            } else {
                1 + t.below(400) as u16
            }
        } else {
            100 + t.below(1100) as u16
        });
    }
    // strings: the seed, mutations of it, random ones
    let nstr = 4;
    let mut strings: Vec<Vec<Gid>> = vec![seed.clone()];
    while strings.len() < nstr {
        let mut s = seed.clone();
        match t.weighted(&[50, 30, 20]) {
            0 => {
                for _ in 0..1 + t.below(3) {
                    match t.below(4) {
                        0 if !s.is_empty() => {
                            let i = t.below(s.len());
                            s.remove(i);
                        }
                        1 if s.len() < 12 => {
                            let i = t.below(s.len() + 1);
                            s.insert(i, u.all[t.below(u.all.len())]);
                        }
                        2 if s.len() > 1 => {
                            let i = t.below(s.len() - 1);
                            s.swap(i, i + 1);
                        }
                        _ if !s.is_empty() => {
                            let i = t.below(s.len());
                            s[i] = u.all[t.below(u.all.len())];
                        }
                        _ => {}
                    }
                }
            }
            1 => {
                let len = t.below(13);
                s = (0..len).map(|_| u.all[t.below(u.all.len())]).collect();
            }
            _ => {
                // base + several marks clusters
                s.clear();
                let len = 2 + t.below(9);
                while s.len() < len {
                    if !u.marks.is_empty() && !s.is_empty() && t.chance(60) {
                        s.push(u.marks[t.below(u.marks.len())]);
                    } else {
                        let pool = if !u.ligs.is_empty() && t.chance(35) {
                            &u.ligs
                        } else if u.nonmarks.is_empty() {
                            &u.all
                        } else {
                            &u.nonmarks
                        };
                        s.push(pool[t.below(pool.len())]);
                    }
                }
            }
        }
        strings.push(s);
    }
    let strings: Vec<Vec<GlyphIn>> = strings
        .into_iter()
        .map(|s| {
            let mut v: Vec<GlyphIn> = Vec::new();
            let mut after_lig = false;
            for g in s {
                let class = u.classes[g as usize];
                let mut comp = 0;
                let mut lig = false;
                if class == 3 {
                    if after_lig && t.chance(60) {
                        comp = t.below(3) as u16;
                    }
                    lig = t.chance(2);
                } else {
                    after_lig = class == 2;
                    lig = class == 2 && t.chance(50);
                }
                v.push(GlyphIn { gid: g, comp, lig });
            }
            v
        })
        .collect();
    let kerning = (0..strings.len()).map(|i| i == 0 || !t.chance(25)).collect();
    Program { nglyphs: n + 1, gdef, gpos, kern, advances, strings, custom, lang, kerning, zero_advance_marks, axes: 0, tuple: None }
}

// ---------------------------------------------------------------------------------------------
// running allsorts

struct Built {
    font: Vec<u8>,
    gpos: Option<Vec<u8>>,
    gdef: Option<Vec<u8>>,
    kern: Option<Vec<u8>>,
    kern_layouts: Vec<Option<Kern2Layout>>,
}

fn build(p: &Program) -> Result<Built, TooBig> {
    let mut f = BasicFont::with_glyphs(p.nglyphs);
    for g in 0..p.nglyphs {
        f.metrics[g as usize] = (p.advances[g as usize], 0);
        f.cmap.insert(0xE000 + g as u32, g);
    }
    // a shorter hmtx long-metrics run when the tail shares one advance
    let mut nh = p.nglyphs;
    while nh > 1 && p.advances[nh as usize - 1] == p.advances[nh as usize - 2] {
        nh -= 1;
    }
    f.num_h_metrics = nh;
    let gpos = match &p.gpos {
        Some(g) => Some(encode_gpos(g)?),
        None => None,
    };
    let gdef = match &p.gdef {
        Some(g) => Some(encode_gdef(g)?),
        None => None,
    };
    let (kern, kern_layouts) = match &p.kern {
        Some(k) => {
            let (b, l) = encode_kern(k);
            (Some(b), l)
        }
        None => (None, vec![]),
    };
    if let Some(t) = &gpos {
        f.extra.push((*b"GPOS", t.clone()));
    }
    if let Some(t) = &gdef {
        f.extra.push((*b"GDEF", t.clone()));
    }
    if let Some(t) = &kern {
        f.extra.push((*b"kern", t.clone()));
    }
    if p.axes > 0 {
        let tags: [[u8; 4]; 4] = [*b"wght", *b"wdth", *b"opsz", *b"TEST"];
        let axes: Vec<crate::fontgen::var::AxisModel> = (0..p.axes as usize)
            .map(|i| crate::fontgen::var::AxisModel { tag: tags[i % 4], min: 100 << 16, default: 400 << 16, max: 900 << 16, flags: 0, name_id: 256 + i as u16 })
            .collect();
        f.extra.push((*b"fvar", crate::fontgen::var::fvar_table(&axes, &[], 0)));
    }
    Ok(Built { font: f.build(), gpos, gdef, kern, kern_layouts })
}

fn raw_glyphs(s: &[GlyphIn]) -> Vec<RawGlyph<()>> {
    s.iter()
        .map(|g| {
            let ch = char::from_u32(0xE000 + g.gid as u32).unwrap();
            let mut unicodes = tinyvec::TinyVec::<[char; 1]>::new();
            unicodes.push(ch);
            RawGlyph {
                unicodes,
                glyph_index: g.gid,
                liga_component_pos: g.comp,
                glyph_origin: GlyphOrigin::Char(ch),
                flags: if g.lig { RawGlyphFlags::LIGATURE } else { RawGlyphFlags::empty() },
                variation: None,
                extra_data: (),
            }
        })
        .collect()
}

fn tag_u32(t: &[u8; 4]) -> u32 {
    u32::from_be_bytes(*t)
}

/// level 1: Info.kerning / Info.placement against the reference adjustments
fn diff_infos(infos: &[Info], s: &[GlyphIn], exp: &[GlyphOut]) -> Option<String> {
    if infos.len() != s.len() {
        return Some(format!("{} infos for {} glyphs", infos.len(), s.len()));
    }
    for (i, info) in infos.iter().enumerate() {
        let e = &exp[i];
        if info.glyph.glyph_index != s[i].gid {
            return Some(format!("glyph {}: id {} became {}", i, s[i].gid, info.glyph.glyph_index));
        }
        if info.kerning as i32 != e.adv {
            return Some(format!("glyph {} (gid {}): kerning {} expected {}", i, s[i].gid, info.kerning, e.adv));
        }
        let ok = match (&info.placement, &e.attach) {
            (Placement::None, Attach::None) => e.dx == 0 && e.dy == 0,
            (Placement::Distance(dx, dy), Attach::None) => *dx == e.dx && *dy == e.dy,
            (Placement::MarkAnchor(b, ba, ma), Attach::Mark { base, ba: eba, ma: ema, post }) => {
                b == base
                    && (ma.x, ma.y) == *ema
                    && ba.x as i32 == eba.0 as i32 + post.0
                    && ba.y as i32 == eba.1 as i32 + post.1
            }
            (Placement::CursiveAnchor(next, rtl, entry_of_next, exit_of_this), Attach::Cursive { next: en, rtl: er, exit, entry }) => {
                next == en && rtl == er && (entry_of_next.x, entry_of_next.y) == *entry && (exit_of_this.x, exit_of_this.y) == *exit
            }
            _ => false,
        };
        if !ok {
            return Some(format!("glyph {} (gid {}): placement {:?} expected {:?}", i, s[i].gid, info.placement, e));
        }
    }
    None
}

struct Observed {
    infos: Vec<Info>,
    shape_err: Option<String>,
    ltr: Result<Vec<(i32, i32, i32, i32)>, String>,
    rtl: Result<Vec<(i32, i32, i32, i32)>, String>,
}

fn fail(sig: &str, msg: String) -> Fail {
    Fail::new(format!("C05:{}", sig), msg)
}

/// a `Tuple` over raw F2Dot14 values (the only safe constructor of `OwnedTuple` normalises user
/// coordinates through fvar/avar, which is not what is under test here)
fn with_tuple<R>(loc: Option<&[i16]>, f: impl FnOnce(Option<Tuple<'_>>) -> R) -> R {
    match loc {
        None => f(None),
        Some(l) => {
            let v: Vec<F2Dot14> = l.iter().map(|x| F2Dot14::from_raw(*x)).collect();
            // SAFETY: `v` outlives the call and holds `v.len()` initialised values
            let t = unsafe { Tuple::from_raw_parts(v.as_ptr(), v.len()) };
            f(Some(t))
        }
    }
}

fn observe(font_bytes: &[u8], s: &[GlyphIn], custom: &[[u8; 4]], lang: Option<[u8; 4]>, kerning: bool) -> Result<Observed, Fail> {
    observe_at(font_bytes, s, custom, lang, kerning, None)
}

fn observe_at(font_bytes: &[u8], s: &[GlyphIn], custom: &[[u8; 4]], lang: Option<[u8; 4]>, kerning: bool, loc: Option<&[i16]>) -> Result<Observed, Fail> {
    let fd = ReadScope::new(font_bytes).read::<FontData<'_>>().map_err(|e| fail("font-read", format!("{:?}", e)))?;
    let prov = fd.table_provider(0).map_err(|e| fail("font-read", format!("{:?}", e)))?;
    let mut font = Font::new(prov).map_err(|e| fail("font-read", format!("Font::new: {:?}", e)))?;
    let features = Features::Custom(custom.iter().map(|t| FeatureInfo { feature_tag: tag_u32(t), alternate: None }).collect());
    let shaped = with_tuple(loc, |tuple| font.shape(raw_glyphs(s), tag_u32(b"latn"), lang.map(|l| tag_u32(&l)), &features, tuple, kerning));
    let (infos, shape_err) = match shaped {
        Ok(i) => (i, None),
        Err((e, i)) => (i, Some(format!("{:?}", e))),
    };
    let mut pos = |dir: TextDirection| -> Result<Vec<(i32, i32, i32, i32)>, String> {
        let mut layout = GlyphLayout::new(&mut font, &infos, dir, false);
        layout
            .glyph_positions()
            .map(|v| v.iter().map(|p| (p.hori_advance, p.vert_advance, p.x_offset, p.y_offset)).collect())
            .map_err(|e| format!("{:?}", e))
    };
    let ltr = pos(TextDirection::LeftToRight);
    let rtl = pos(TextDirection::RightToLeft);
    Ok(Observed { infos, shape_err, ltr, rtl })
}

/// direct entry point: tables parsed individually, explicit feature list
fn observe_direct(b: &Built, s: &[GlyphIn], tags: &[[u8; 4]], lang: Option<[u8; 4]>, loc: Option<&[i16]>) -> Result<Option<Vec<Info>>, Fail> {
    let gpos_bytes = match &b.gpos {
        Some(g) => g,
        None => return Ok(None),
    };
    let table = ReadScope::new(gpos_bytes).read::<LayoutTable<GPOS>>().map_err(|e| fail("gpos-parse", format!("{:?}", e)))?;
    let gdef = match &b.gdef {
        Some(g) => Some(ReadScope::new(g).read::<GDEFTable>().map_err(|e| fail("gdef-parse", format!("{:?}", e)))?),
        None => None,
    };
    let kern = match &b.kern {
        Some(k) => match ReadScope::new(k).read::<KernTable<'_>>() {
            Ok(k) => Some(k),
            Err(_) => return Ok(None), // judged through Font::shape
        },
        None => None,
    };
    let cache = new_layout_cache(table);
    let script = match cache.layout_table.find_script_or_default(tag_u32(b"latn")).map_err(|e| fail("gpos-parse", format!("{:?}", e)))? {
        Some(s) => s,
        None => return Ok(None),
    };
    let langsys = match script.find_langsys_or_default(lang.map(|l| tag_u32(&l))).map_err(|e| fail("gpos-parse", format!("{:?}", e)))? {
        Some(l) => l,
        None => return Ok(None),
    };
    let mut infos = Info::init_from_glyphs(gdef.as_ref(), raw_glyphs(s));
    with_tuple(loc, |tuple| {
        gpos::apply_features(
            &cache,
            &cache.layout_table,
            gdef.as_ref(),
            kern,
            langsys,
            tags.iter().map(|t| FeatureInfo { feature_tag: tag_u32(t), alternate: None }),
            tuple,
            &mut infos,
        )
    })
    .map_err(|e| fail("apply-error", format!("gpos::apply_features: {:?}", e)))?;
    Ok(Some(infos))
}

struct RefCtx<'a> {
    p: &'a Program,
    b: &'a Built,
}

impl<'a> RefCtx<'a> {
    fn run(&self, s: &[GlyphIn], steps: &[Step], devs: u32) -> RunResult {
        let kern = match (&self.p.kern, &self.b.kern) {
            (Some(m), Some(bytes)) => Some((m, KernBytes { bytes, layouts: &self.b.kern_layouts })),
            _ => None,
        };
        Interp::new(self.p.gdef.as_ref(), self.p.gpos.as_ref(), kern, devs, s).at_location(self.p.tuple.as_deref()).run(steps)
    }
}

/// Compare everything observed through Font::shape with one reference result. None = equal.
fn diff_all(p: &Program, s: &[GlyphIn], obs: &Observed, exp: &RunResult, devs: u32, expect_kern_error: bool, rec_classes: &mut Vec<String>) -> Option<(String, String)> {
    match (&obs.shape_err, expect_kern_error) {
        (Some(e), false) => return Some(("shape-error".into(), format!("Font::shape returned Err({})", e))),
        (None, true) => return Some(("shape-error".into(), "Font::shape succeeded although the kern table is unreadable under the defect model".into())),
        _ => {}
    }
    if let Some(d) = diff_infos(&obs.infos, s, &exp.out) {
        return Some(("info-mismatch".into(), d));
    }
    let font_adv: Vec<i32> = s.iter().map(|g| p.advances[g.gid as usize] as i32).collect();
    // LTR absolute positions
    let ltr = match &obs.ltr {
        Ok(v) => v,
        Err(e) => return Some(("positions-error".into(), format!("glyph_positions(LTR) failed: {}", e))),
    };
    let rtl = match &obs.rtl {
        Ok(v) => v,
        Err(e) => return Some(("positions-error".into(), format!("glyph_positions(RTL) failed: {}", e))),
    };
    let has_cursive = exp.out.iter().any(|x| matches!(x.attach, Attach::Cursive { .. }));
    for (i, o) in exp.out.iter().enumerate() {
        let adv = font_adv[i] + o.adv;
        // the advance of a glyph with a cursive exit link is what the layout engine adjusts
        let holder = matches!(o.attach, Attach::Cursive { .. });
        if !holder {
            if ltr[i].0 != adv || ltr[i].1 != 0 {
                return Some(("position-mismatch".into(), format!("LTR glyph {}: advance ({}, {}) expected ({}, 0)", i, ltr[i].0, ltr[i].1, adv)));
            }
        }
        if !has_cursive && (rtl[i].0 != adv || rtl[i].1 != 0) {
            return Some(("position-mismatch-rtl".into(), format!("RTL glyph {}: advance ({}, {}) expected ({}, 0)", i, rtl[i].0, rtl[i].1, adv)));
        }
    }
    if has_cursive {
        // observed absolute origins under the LTR pen model
        let mut origins: Vec<(i32, i32)> = Vec::new();
        let mut pen = 0i32;
        for v in ltr.iter() {
            origins.push((pen + v.2, v.3));
            pen += v.0;
        }
        // (the defective cross-stream pass for flag-clear links walks the whole chain, so links
        // with the flag set are affected too when the run contains a flag-clear link)
        let any_flag_clear = exp.out.iter().any(|x| matches!(x.attach, Attach::Cursive { rtl: false, .. }));
        let mut target = vec![false; exp.out.len()];
        for o in &exp.out {
            if let Attach::Cursive { next, .. } = &o.attach {
                target[*next] = true;
            }
        }
        for (i, o) in exp.out.iter().enumerate() {
            match &o.attach {
                Attach::None => {
                    if !target[i] && (ltr[i].2, ltr[i].3) != (o.dx, o.dy) {
                        return Some(("position-mismatch".into(), format!("LTR glyph {} (gid {}): offset ({}, {}) expected ({}, {})", i, s[i].gid, ltr[i].2, ltr[i].3, o.dx, o.dy)));
                    }
                }
                Attach::Mark { base, ba, ma, post } => {
                    let twice = if devs & dev::POS_BASE_TWICE != 0 && matches!(exp.out[*base].attach, Attach::None) { (exp.out[*base].dx, exp.out[*base].dy) } else { (0, 0) };
                    let want = (origins[*base].0 + ba.0 as i32 - ma.0 as i32 + post.0 + twice.0, origins[*base].1 + ba.1 as i32 - ma.1 as i32 + post.1 + twice.1);
                    if origins[i] != want {
                        return Some(("position-mismatch".into(), format!("LTR glyph {} (gid {}): mark origin {:?} expected {:?} (base {} at {:?}); state {:?}", i, s[i].gid, origins[i], want, base, origins[*base], o)));
                    }
                }
                Attach::Cursive { next, rtl: rtl_flag, exit, entry } => {
                    let (a, b) = (origins[i], origins[*next]);
                    // exit anchor of this glyph and entry anchor of the next coincide
                    let x_ok = b.0 + entry.0 as i32 == a.0 + exit.0 as i32;
                    if !x_ok {
                        if devs & dev::CURS_X_ENTRY != 0 && ltr[i].0 == exit.0 as i32 {
                            rec_classes.push("cursive:x-by-defect-model".into());
                        } else {
                            return Some((
                                "position-mismatch".into(),
                                format!("LTR cursive link {}->{}: exit anchor at x {} but entry anchor at x {} (origins {:?} {:?}, exit {:?}, entry {:?}, advance of first glyph {})", i, next, a.0 + exit.0 as i32, b.0 + entry.0 as i32, a, b, exit, entry, ltr[i].0),
                            ));
                        }
                    } else {
                        rec_classes.push("cursive:x-aligned".into());
                    }
                    let y_ok = b.1 + entry.1 as i32 == a.1 + exit.1 as i32;
                    if !y_ok {
                        let _ = rtl_flag;
                        if any_flag_clear && devs & dev::CURS_Y_CLEAR != 0 {
                            rec_classes.push("cursive:y-known-wrong-flag-clear".into());
                        } else {
                            return Some((
                                "position-mismatch".into(),
                                format!("LTR cursive link {}->{} (rtl flag {}): exit anchor at y {} but entry anchor at y {} (origins {:?} {:?}, exit {:?}, entry {:?})", i, next, rtl_flag, a.1 + exit.1 as i32, b.1 + entry.1 as i32, a, b, exit, entry),
                            ));
                        }
                    } else {
                        rec_classes.push("cursive:y-aligned".into());
                    }
                }
            }
        }
        rec_classes.push("level2:ltr-cursive".into());
        // RTL: the cross-stream (y) result does not depend on the consumer's pen convention, and
        // neither does the pen-relative offset of a glyph that is neither linked nor attached.
        // The line-direction (x) effect of a link is not asserted in RTL: the module documents
        // only "pen incremented by the advance of each glyph as processed" and the plausible RTL
        // readings (pen moved before / after drawing, visual order) disagree on which advance
        // carries the adjustment.
        for (i, o) in exp.out.iter().enumerate() {
            match &o.attach {
                Attach::None => {
                    if !target[i] && (rtl[i].2, rtl[i].3) != (o.dx, o.dy) {
                        return Some(("position-mismatch-rtl".into(), format!("RTL glyph {} (gid {}): offset ({}, {}) expected ({}, {})", i, s[i].gid, rtl[i].2, rtl[i].3, o.dx, o.dy)));
                    }
                }
                Attach::Mark { base, ba, ma, post } => {
                    let twice = if devs & dev::POS_BASE_TWICE != 0 && matches!(exp.out[*base].attach, Attach::None) { exp.out[*base].dy } else { 0 };
                    let want = rtl[*base].3 + ba.1 as i32 - ma.1 as i32 + post.1 + twice;
                    if rtl[i].3 != want {
                        return Some(("position-mismatch-rtl".into(), format!("RTL glyph {} (gid {}): mark y {} expected {} (base {} at y {}); state {:?}", i, s[i].gid, rtl[i].3, want, base, rtl[*base].3, o)));
                    }
                }
                Attach::Cursive { next, rtl: rtl_flag, exit, entry } => {
                    let y_ok = rtl[*next].3 + entry.1 as i32 == rtl[i].3 + exit.1 as i32;
                    if !y_ok {
                        if any_flag_clear && devs & dev::CURS_Y_CLEAR != 0 {
                            rec_classes.push("cursive-rtl:y-known-wrong-flag-clear".into());
                        } else {
                            return Some((
                                "position-mismatch-rtl".into(),
                                format!("RTL cursive link {}->{} (rtl flag {}): exit anchor at y {} but entry anchor at y {} (exit {:?}, entry {:?})", i, next, rtl_flag, rtl[i].3 + exit.1 as i32, rtl[*next].3 + entry.1 as i32, exit, entry),
                            ));
                        }
                    } else {
                        rec_classes.push("cursive-rtl:y-aligned".into());
                    }
                }
            }
        }
        rec_classes.push("level2:rtl-cursive-y".into());
        return None;
    }
    match refm::place_ltr(&exp.out, &font_adv, devs) {
        Some(placed) => {
            let mut pen = 0i32;
            for (i, pl) in placed.iter().enumerate() {
                let (x, y) = (pen + ltr[i].2, ltr[i].3);
                if x != pl.x || y != pl.y {
                    return Some((
                        "position-mismatch".into(),
                        format!(
                            "LTR glyph {} (gid {}): origin ({}, {}) [pen {} + offset ({}, {})] expected ({}, {}); reference state {:?}",
                            i, s[i].gid, x, y, pen, ltr[i].2, ltr[i].3, pl.x, pl.y, exp.out[i]
                        ),
                    ));
                }
                pen += ltr[i].0;
            }
            rec_classes.push("level2:ltr".into());
        }
        None => rec_classes.push("level2-skipped:cursive".into()),
    }
    // RTL: only where both plausible consumer conventions agree — every glyph between a base
    // (exclusive) and its mark (inclusive) has a zero total advance
    if let Some(offs) = refm::offsets_zero_advance_marks(&exp.out, devs) {
        let mut comparable = true;
        for (i, o) in exp.out.iter().enumerate() {
            if let Attach::Mark { base, .. } = &o.attach {
                // chains resolve through earlier marks; require zero advance for everything
                // after the ultimate base up to the mark
                let mut b = *base;
                while let Attach::Mark { base: bb, .. } = &exp.out[b].attach {
                    b = *bb;
                }
                if (b + 1..=i).any(|k| font_adv[k] + exp.out[k].adv != 0) {
                    comparable = false;
                }
            }
        }
        if comparable {
            for (i, off) in offs.iter().enumerate() {
                if (rtl[i].2, rtl[i].3) != *off {
                    return Some((
                        "position-mismatch-rtl".into(),
                        format!("RTL glyph {} (gid {}): offset ({}, {}) expected ({}, {}); reference state {:?}", i, s[i].gid, rtl[i].2, rtl[i].3, off.0, off.1, exp.out[i]),
                    ));
                }
            }
            rec_classes.push("level2:rtl".into());
            if exp.out.iter().any(|o| matches!(o.attach, Attach::Mark { .. })) {
                rec_classes.push("level2:rtl-with-marks".into());
            }
        } else {
            rec_classes.push("level2-skipped:rtl-mark-advance".into());
        }
    }
    None
}

fn render_string(s: &[GlyphIn]) -> String {
    s.iter()
        .map(|g| if g.comp != 0 || g.lig { format!("{}{}{}", g.gid, if g.lig { "L" } else { "" }, if g.comp != 0 { format!("c{}", g.comp) } else { String::new() }) } else { g.gid.to_string() })
        .collect::<Vec<_>>()
        .join(" ")
}

/// libFuzzer entry: the input bytes are the entropy tape (little-endian u32s, zero padded), so the
/// fuzzer mutates exactly the decisions the generator reads.
pub fn tape_from_bytes(data: &[u8]) -> Vec<u32> {
    let mut tape = vec![0u32; TAPE_LEN];
    for (i, c) in data.chunks(4).take(TAPE_LEN).enumerate() {
        let mut b = [0u8; 4];
        b[..c.len()].copy_from_slice(c);
        tape[i] = u32::from_le_bytes(b);
    }
    tape
}

pub fn check_case(tape: &Vec<u32>, rec: &mut Rec) -> CaseResult {
    let p = build_program(tape);
    check_program(&p, rec)
}

pub fn check_program(p: &Program, rec: &mut Rec) -> CaseResult {
    let b = match build(p) {
        Ok(b) => b,
        Err(TooBig) => {
            rec.class("excluded:table-too-big");
            return Ok(());
        }
    };
    rec.artefact("font", &b.font);
    rec.hash_bytes(&b.font);
    let rc = RefCtx { p, b: &b };
    let mut any_nontrivial = false;
    let mut classes: Vec<String> = Vec::new();
    let mut evals = 0u64;
    let base_tags: [[u8; 4]; 4] = [*b"dist", *b"kern", *b"mark", *b"mkmk"];
    for (si, s) in p.strings.iter().enumerate() {
        rec.hash_bytes(render_string(s).as_bytes());
        let kerning = p.kerning[si];
        let mut tags: Vec<[u8; 4]> = base_tags.iter().copied().filter(|t| kerning || t != b"kern").collect();
        tags.extend(p.custom.iter().copied());
        let (steps, ordered) = if p.gpos.is_some() {
            refm::steps_for(p.gpos.as_ref(), p.kern.is_some(), b"latn", p.lang.as_ref(), &tags)
        } else if p.kern.is_some() {
            // no GPOS: the fallback applies the kern table whatever the kerning flag says
            (vec![Step::KernTable], true)
        } else {
            (vec![], true)
        };
        if !ordered {
            classes.push("excluded:feature-order".into());
            continue;
        }
        let r0 = rc.run(s, &steps, 0);
        let all_devs: u32 = dev::ALL.iter().fold(0, |a, b| a | b);
        let rall = rc.run(s, &steps, present_devs());
        if r0.notes.overflow || rall.notes.overflow {
            classes.push("excluded:i16-overflow".into());
            continue;
        }
        if !r0.notes.ambiguous.is_empty() || !rall.notes.ambiguous.is_empty() {
            for a in r0.notes.ambiguous.iter().chain(rall.notes.ambiguous.iter()) {
                classes.push(format!("excluded:{}", a));
            }
            continue;
        }
        evals += 1;
        let obs = observe_at(&b.font, s, &p.custom, p.lang, kerning, p.tuple.as_deref())?;
        let ctx_msg = |d: &str| {
            format!(
                "string [{}] kerning={} tuple {:?} steps {:?}: {}\nprogram: gdef {:?}\ngpos {:?}\nkern {:?}\nadvances {:?}",
                render_string(s), kerning, p.tuple, steps, d, p.gdef, p.gpos, p.kern, p.advances
            )
        };
        if std::env::var("C05_DEBUG").is_ok() {
            use std::io::Write;
            if let Ok(mut f) = std::fs::OpenOptions::new().create(true).append(true).open(std::env::var("C05_DEBUG").unwrap()) {
                let _ = writeln!(f, "gdef {:?}\ngpos {:?}\nkern {:?}", p.gdef, p.gpos, p.kern);
                // prefix trace: allsorts and the references after the first k lookups only
                if p.gpos.is_some() && steps.iter().all(|x| matches!(x, Step::Lookup(_))) {
                    for k in 1..=steps.len() {
                        let mut p2 = p.clone();
                        p2.kern = None;
                        p2.custom = vec![];
                        let g = p2.gpos.as_mut().unwrap();
                        g.features = vec![Feature { tag: *b"mark", lookups: steps[..k].iter().map(|x| if let Step::Lookup(i) = x { *i } else { 0 }).collect() }];
                        g.scripts = vec![ScriptM { tag: *b"DFLT", default: Some(vec![0]), langsys: vec![] }];
                        if let Ok(b2) = build(&p2) {
                            let rc2 = RefCtx { p: &p2, b: &b2 };
                            let o = observe(&b2.font, s, &[], None, true);
                            let _ = writeln!(f, "  after {:?}:\n    spec {:?}\n    all  {:?}\n    obs  {:?}", &steps[..k],
                                rc2.run(s, &steps[..k], 0).out.iter().map(|o| (o.adv, o.dx, o.dy)).collect::<Vec<_>>(),
                                rc2.run(s, &steps[..k], all_devs).out.iter().map(|o| (o.adv, o.dx, o.dy)).collect::<Vec<_>>(),
                                o.map(|o| o.infos.iter().map(|i| (i.kerning, i.placement)).collect::<Vec<_>>()).map_err(|e| e.msg));
                        }
                    }
                }
                let _ = writeln!(f, "string [{}] steps {:?}\n r0   {:?}\n rall {:?}\n obs  {:?}\n ltr {:?}\n rtl {:?}", render_string(s), steps, r0.out, rall.out,
                    obs.infos.iter().map(|i| (i.glyph.glyph_index, i.kerning, i.placement)).collect::<Vec<_>>(), obs.ltr, obs.rtl);
            }
        }
        let mut cls: Vec<String> = Vec::new();
        let mut verdict = diff_all(p, s, &obs, &r0, 0, false, &mut cls);
        let mut used = &r0;
        let attributed: RunResult;
        // a cursive lookup applied through a sequence-lookup record: the specification does not
        // say which side of the link the glyph at the recorded position is; both readings pass
        let readings: Vec<u32> = if r0.notes.classes.contains("nested:cursive-attempt") || rall.notes.classes.contains("nested:cursive-attempt") { vec![0, dev::READ_CURS_ENTRY] } else { vec![0] };
        let entry_reading: RunResult;
        if verdict.is_some() && readings.len() > 1 {
            let rb = rc.run(s, &steps, dev::READ_CURS_ENTRY);
            if !rb.notes.overflow && rb.notes.ambiguous.is_empty() {
                let mut c2 = Vec::new();
                if diff_all(p, s, &obs, &rb, dev::READ_CURS_ENTRY, false, &mut c2).is_none() {
                    cls = c2;
                    cls.push("nested-cursive:entry-side-reading".into());
                    entry_reading = rb;
                    used = &entry_reading;
                    verdict = None;
                }
            }
        }
        if let Some((sig, d)) = verdict {
            // attribution by defect model
            let kern_unreadable = match (&p.kern, &b.kern) {
                (Some(m), Some(bytes)) => refm::kern2_rejected(m, &KernBytes { bytes, layouts: &b.kern_layouts }),
                _ => false,
            };
            // prediction of the reference with deviation set `set`; None if the deviating run
            // meets an ambiguity or leaves the i16 range
            let predict = |set: u32| -> Option<(RunResult, bool)> {
                let kern_err = kern_unreadable && set & dev::KERN2_ARRAY != 0;
                let rs = if kern_err {
                    let steps2: Vec<Step> = steps.iter().filter(|x| **x != Step::KernTable).cloned().collect();
                    rc.run(s, &steps2, set)
                } else {
                    rc.run(s, &steps, set)
                };
                if rs.notes.overflow {
                    return None;
                }
                Some((rs, kern_err))
            };
            let explains = |set0: u32, cls_out: &mut Vec<String>| -> Option<RunResult> {
                for reading in readings.iter() {
                    let set = set0 | *reading;
                    let (rs, kern_err) = match predict(set) {
                        Some(x) => x,
                        None => continue,
                    };
                    let mut c2 = Vec::new();
                    let d = diff_all(p, s, &obs, &rs, set, kern_err, &mut c2);
                    if let Ok(path) = std::env::var("C05_DEBUG") {
                        use std::io::Write;
                        if let Ok(mut f) = std::fs::OpenOptions::new().create(true).append(true).open(path) {
                            let _ = writeln!(f, "  try set {:#x}: {:?}", set, d);
                        }
                    }
                    if d.is_none() {
                        *cls_out = c2;
                        return Some(rs);
                    }
                }
                None
            };
            let mut found: Option<(u32, RunResult)> = None;
            // (a) every deviation allsorts currently exhibits (decided once per process by the
            // pinned cases), then greedily drop each one that is not needed for this case
            let present = present_devs();
            if let Some(rs) = explains(present, &mut cls) {
                let mut set = present;
                let mut best = rs;
                for k in dev::ALL.iter() {
                    if set & *k == 0 {
                        continue;
                    }
                    if let Some(rs) = explains(set & !*k, &mut cls) {
                        set &= !*k;
                        best = rs;
                    }
                }
                if set != 0 {
                    found = Some((set, best));
                }
            }
            // (b) subsets of up to three of them (a deviating run may meet an ambiguity that a
            // smaller set avoids)
            let relevant: Vec<u32> = dev::ALL.iter().copied().filter(|k| present & *k != 0).collect();
            if found.is_none() {
                let n = relevant.len();
                let mut sets: Vec<u32> = Vec::new();
                for i in 0..n {
                    sets.push(relevant[i]);
                }
                for i in 0..n {
                    for j in i + 1..n {
                        sets.push(relevant[i] | relevant[j]);
                    }
                }
                for i in 0..n {
                    for j in i + 1..n {
                        for k in j + 1..n {
                            sets.push(relevant[i] | relevant[j] | relevant[k]);
                        }
                    }
                }
                for set in sets {
                    if let Some(rs) = explains(set, &mut cls) {
                        found = Some((set, rs));
                        break;
                    }
                }
            }
            match found {
                Some((set, rs)) => {
                    for k in dev::ALL.iter() {
                        if set & k != 0 {
                            classes.push(format!("attributed:{}", dev::name(*k)));
                        }
                    }
                    attributed = rs;
                    used = &attributed;
                }
                None => {
                    let names: Vec<&str> = relevant.iter().map(|k| dev::name(*k)).collect();
                    return Err(fail(&sig, ctx_msg(&format!("{} (no combination of the known deviations {:?} reproduces the output)", d, names))));
                }
            }
        } else {
            classes.push("matches-spec".into());
        }
        classes.extend(cls);
        // the direct entry point must agree with Font::shape (first string only; same features)
        if si == 0 && kerning {
            if let Some(infos) = observe_direct(&b, s, &tags, p.lang, p.tuple.as_deref())? {
                if let Some(d) = diff_infos(&infos, s, &used.out) {
                    return Err(fail("direct-mismatch", ctx_msg(&format!("gpos::apply_features disagrees with the result accepted for Font::shape: {}", d))));
                }
                classes.push("entry:apply_features".into());
            }
        }
        let nontrivial = r0.out.iter().any(|o| !o.is_trivial());
        any_nontrivial |= nontrivial;
        for c in &r0.notes.classes {
            classes.push(c.clone());
        }
        if r0.out.iter().filter(|o| matches!(o.attach, Attach::Mark { .. })).count() >= 2 {
            let mut per_base: BTreeMap<usize, usize> = BTreeMap::new();
            for o in &r0.out {
                if let Attach::Mark { base, .. } = &o.attach {
                    *per_base.entry(*base).or_default() += 1;
                }
            }
            if per_base.values().any(|c| *c >= 2) {
                classes.push("marks:several-on-one-base".into());
            }
        }
        if p.gpos.is_none() && p.kern.is_some() {
            classes.push("entry:fallback-kern-only".into());
        }
        if !kerning {
            classes.push("kerning-off".into());
        }
    }
    classes.sort();
    classes.dedup();
    for c in classes.iter().take(60) {
        rec.class(c);
    }
    rec.evaluations(evals.saturating_sub(1));
    rec.set_nontrivial(any_nontrivial);
    rec.sample(|| format!("{} lookups, strings: {}", p.gpos.as_ref().map(|g| g.lookups.len()).unwrap_or(0), p.strings.iter().map(|s| render_string(s)).collect::<Vec<_>>().join(" | ")));
    Ok(())
}


// ---------------------------------------------------------------------------------------------
// pinned minimal cases: one per known deviation. They decide (once per process) which of the
// deviations allsorts currently exhibits, and make a silently repaired finding visible.

fn simple_lookup(ltype: u16, flags: Flags, st: Subtable) -> Lookup {
    Lookup { ltype, flags, subtables: vec![st], extension: false, share: false }
}

fn single_xa(glyphs: &[Gid], xa: i16) -> Subtable {
    Subtable::Single1 { cov: Cov::new(glyphs.to_vec(), 1), fmt: 4, value: Value { xa, ..Value::default() } }
}

fn anchor(x: i16, y: i16) -> AnchorM {
    AnchorM { x, y, fmt: 1, point: 0, dev: [DevM::None; 2] }
}

/// glyphs 1,2 bases, 3,4,5 marks (attach classes 2,1,1), 6 ligature; mark set 0 = {4}
fn pinned_program(lookups: Vec<Lookup>, features: Vec<(&[u8; 4], Vec<u16>)>, kern: Option<KernModel>, string: &[Gid]) -> Program {
    let classes: BTreeMap<Gid, u16> = [(1, 1), (2, 1), (3, 3), (4, 3), (5, 3), (6, 2)].into_iter().collect();
    let attach: BTreeMap<Gid, u16> = [(3, 2), (4, 1), (5, 1)].into_iter().collect();
    let gdef = GdefModel {
        glyph_classes: Some(ClassDefM { map: classes, fmt: 2 }),
        mark_attach: Some(ClassDefM { map: attach, fmt: 2 }),
        mark_sets: vec![Cov::new(vec![4], 1)],
        minor: 2,
        ivs: None,
    };
    let has_gpos = !lookups.is_empty();
    let feats: Vec<Feature> = features.iter().map(|(t, l)| Feature { tag: **t, lookups: l.clone() }).collect();
    let nf = feats.len() as u16;
    let gpos = GposModel { lookups, features: feats, scripts: vec![ScriptM { tag: *b"DFLT", default: Some((0..nf).collect()), langsys: vec![] }], minor: 0 };
    Program {
        nglyphs: 8,
        gdef: if has_gpos { Some(gdef) } else { None },
        gpos: if has_gpos { Some(gpos) } else { None },
        kern,
        advances: vec![600, 500, 520, 0, 0, 0, 700, 500],
        strings: vec![string.iter().map(|g| GlyphIn { gid: *g, comp: 0, lig: false }).collect()],
        custom: vec![],
        lang: None,
        kerning: vec![true],
        zero_advance_marks: true,
        axes: 0,
        tuple: None,
    }
}

/// one axis, one region (0, 1, 1), delta set (0,0) = 40; shaped at the region's peak
fn pinned_variation(p: &mut Program) {
    use crate::refmodel::varmodel::{AxisRegion, IvsModel};
    let ivs = IvsModel { regions: vec![vec![AxisRegion { start: 0, peak: 16384, end: 16384 }]], subtables: vec![(vec![0], vec![vec![40]])] };
    if let Some(g) = p.gdef.as_mut() {
        g.ivs = Some(ivs);
    }
    p.axes = 1;
    p.tuple = Some(vec![16384]);
}

pub fn pinned_case(k: u32) -> Program {
    let plain = Flags::default();
    let cov = |g: &[Gid]| Cov::new(g.to_vec(), 1);
    match k {
        dev::PAIR_NO_SKIP => pinned_program(
            vec![simple_lookup(
                2,
                plain,
                Subtable::Pair1 { cov: cov(&[1]), fmt1: 4, fmt2: 4, sets: vec![vec![(1, Value { xa: -100, ..Value::default() }, Value { xa: 10, ..Value::default() })]] },
            )],
            vec![(b"kern", vec![0])],
            None,
            &[1, 1, 1],
        ),
        dev::CTX_NO_SKIP => pinned_program(
            vec![
                simple_lookup(7, plain, Subtable::Context3 { covs: vec![cov(&[1]), cov(&[1])], records: vec![(0, 1)] }),
                simple_lookup(1, plain, single_xa(&[1], 50)),
            ],
            vec![(b"kern", vec![0])],
            None,
            &[1, 1, 1],
        ),
        dev::NESTED_FLAGS => pinned_program(
            vec![
                simple_lookup(7, Flags { ignore_marks: true, ..plain }, Subtable::Context3 { covs: vec![cov(&[1]), cov(&[2])], records: vec![(1, 1)] }),
                simple_lookup(1, plain, single_xa(&[2, 3], 50)),
            ],
            vec![(b"kern", vec![0])],
            None,
            &[1, 3, 2],
        ),
        dev::YADV_DROP => pinned_program(
            vec![simple_lookup(1, plain, Subtable::Single1 { cov: cov(&[1]), fmt: 12, value: Value { xa: 50, ya: 10, ..Value::default() } })],
            vec![(b"kern", vec![0])],
            None,
            &[1, 2],
        ),
        dev::MARK_FLAGS => pinned_program(
            vec![simple_lookup(
                4,
                Flags { mark_attach_type: 1, ..plain },
                Subtable::MarkBase { mark_cov: cov(&[3]), base_cov: cov(&[1]), class_count: 1, marks: vec![(0, anchor(10, 20))], bases: vec![vec![Some(anchor(300, 400))]] },
            )],
            vec![(b"mark", vec![0])],
            None,
            &[1, 3],
        ),
        dev::MKMK_ANY => pinned_program(
            vec![simple_lookup(
                6,
                plain,
                Subtable::MarkMark { mark1_cov: cov(&[5]), mark2_cov: cov(&[3]), class_count: 1, marks: vec![(0, anchor(10, 20))], mark2s: vec![vec![Some(anchor(30, 400))]] },
            )],
            vec![(b"mkmk", vec![0])],
            None,
            &[1, 3, 4, 5],
        ),
        dev::CURS_FLAGS => pinned_program(
            vec![simple_lookup(
                3,
                Flags { rtl: true, ..plain },
                Subtable::Cursive { cov: cov(&[1, 2]), recs: vec![(Some(anchor(0, 10)), Some(anchor(480, 30))), (Some(anchor(0, 50)), Some(anchor(500, 70)))] },
            )],
            vec![(b"test", vec![0])],
            None,
            &[1, 3, 2],
        ),
        dev::KERN_ASSIGN => pinned_program(
            vec![simple_lookup(1, plain, single_xa(&[1], 50))],
            vec![(b"dist", vec![0])],
            Some(KernModel { subs: vec![KernSub { coverage: KERN_HORIZONTAL, data: KernData::F0(vec![(1, 2, -30)]) }], trailing: 0 }),
            &[1, 2],
        ),
        dev::KERN2_ARRAY => pinned_program(
            vec![],
            vec![],
            Some(KernModel {
                subs: vec![KernSub {
                    coverage: KERN_HORIZONTAL,
                    data: KernData::F2 { left_first: 1, left: vec![1], right_first: 2, right: vec![1], matrix: vec![vec![0, 0], vec![0, -70]], layout: 0 },
                }],
                trailing: 0,
            }),
            &[1, 2],
        ),
        dev::MARKSET_NONMARK => pinned_program(
            vec![simple_lookup(1, Flags { mark_filter_set: Some(0), ..plain }, single_xa(&[1], 50))],
            vec![(b"kern", vec![0])],
            None,
            &[1, 2],
        ),
        dev::POS_BASE_TWICE => pinned_program(
            vec![
                simple_lookup(1, plain, Subtable::Single1 { cov: cov(&[1]), fmt: 3, value: Value { xp: 100, yp: 7, ..Value::default() } }),
                simple_lookup(
                    4,
                    plain,
                    Subtable::MarkBase { mark_cov: cov(&[3]), base_cov: cov(&[1]), class_count: 1, marks: vec![(0, anchor(10, 20))], bases: vec![vec![Some(anchor(300, 400))]] },
                ),
            ],
            vec![(b"dist", vec![0]), (b"mark", vec![1])],
            None,
            &[1, 3],
        ),
        dev::CURS_X_ENTRY => pinned_program(
            vec![simple_lookup(
                3,
                Flags { rtl: true, ignore_marks: true, ..plain },
                Subtable::Cursive { cov: cov(&[1, 2]), recs: vec![(Some(anchor(0, 10)), Some(anchor(480, 30))), (Some(anchor(20, 50)), Some(anchor(500, 70)))] },
            )],
            vec![(b"test", vec![0])],
            None,
            &[1, 2],
        ),
        dev::VAR_PLACE_STATIC0 => {
            // xPlacement 0 + xPlaDevice -> VariationIndex (0,0): delta 40 at the peak of the only region
            let mut v = Value::default();
            v.dev[0] = DevM::Var { outer: 0, inner: 0 };
            let mut p = pinned_program(vec![simple_lookup(1, plain, Subtable::Single1 { cov: cov(&[1]), fmt: 0x11, value: v })], vec![(b"kern", vec![0])], None, &[1, 2]);
            pinned_variation(&mut p);
            p
        }
        dev::ANCHOR_VAR => {
            let mut ba = anchor(300, 400);
            ba.fmt = 3;
            ba.dev[0] = DevM::Var { outer: 0, inner: 0 };
            let mut p = pinned_program(
                vec![simple_lookup(
                    4,
                    plain,
                    Subtable::MarkBase { mark_cov: cov(&[3]), base_cov: cov(&[1]), class_count: 1, marks: vec![(0, anchor(10, 20))], bases: vec![vec![Some(ba)]] },
                )],
                vec![(b"mark", vec![0])],
                None,
                &[1, 3],
            );
            pinned_variation(&mut p);
            p
        }
        dev::CURS_Y_CLEAR => pinned_program(
            vec![simple_lookup(
                3,
                Flags { rtl: false, ignore_marks: true, ..plain },
                Subtable::Cursive { cov: cov(&[1, 2]), recs: vec![(Some(anchor(0, 10)), Some(anchor(480, 30))), (Some(anchor(0, 50)), Some(anchor(500, 70)))] },
            )],
            vec![(b"test", vec![0])],
            None,
            &[1, 2],
        ),
        _ => pinned_program(
            vec![Lookup {
                ltype: 1,
                flags: plain,
                subtables: vec![Subtable::Single1 { cov: cov(&[1]), fmt: 0, value: Value::default() }, single_xa(&[1], 50)],
                extension: false,
                share: false,
            }],
            vec![(b"kern", vec![0])],
            None,
            &[1, 2],
        ),
    }
}

#[derive(Clone, Copy, Debug, PartialEq, Eq)]
pub enum PinnedStatus {
    /// allsorts reproduces the deviation
    Present,
    /// allsorts matches the specification on the pinned case
    Absent,
    /// neither
    Unexplained,
}

pub fn pinned_status(k: u32) -> Result<(PinnedStatus, String), Fail> {
    let mut p = pinned_case(k);
    p.custom = vec![*b"test"];
    let p = p;
    let b = build(&p).map_err(|_| fail("pinned-case", "pinned case does not encode".into()))?;
    let s = &p.strings[0];
    let tags: Vec<[u8; 4]> = vec![*b"dist", *b"kern", *b"mark", *b"mkmk", *b"test"];
    let steps = if p.gpos.is_some() { refm::steps_for(p.gpos.as_ref(), p.kern.is_some(), b"latn", None, &tags).0 } else { vec![Step::KernTable] };
    let rc = RefCtx { p: &p, b: &b };
    let obs = observe_at(&b.font, s, &p.custom, None, true, p.tuple.as_deref())?;
    let r0 = rc.run(s, &steps, 0);
    let kern_unreadable = match (&p.kern, &b.kern) {
        (Some(m), Some(bytes)) => refm::kern2_rejected(m, &KernBytes { bytes, layouts: &b.kern_layouts }),
        _ => false,
    };
    let rk = rc.run(s, &steps, k);
    let mut c = Vec::new();
    let d0 = diff_all(&p, s, &obs, &r0, 0, false, &mut c);
    let dk = diff_all(&p, s, &obs, &rk, k, kern_unreadable && k == dev::KERN2_ARRAY, &mut c);
    let render = format!(
        "{} on [{}]: allsorts {:?} ltr {:?}; spec {:?}; deviation {:?}",
        dev::name(k),
        render_string(s),
        obs.infos.iter().map(|i| (i.kerning, i.placement)).collect::<Vec<_>>(),
        obs.ltr.as_ref().map(|v| v.iter().map(|p| (p.0, p.2, p.3)).collect::<Vec<_>>()),
        r0.out,
        rk.out
    );
    Ok(match (d0, dk) {
        (None, None) => (PinnedStatus::Unexplained, format!("{} — spec and deviation coincide on the pinned case", render)),
        (None, Some(_)) => (PinnedStatus::Absent, render),
        (Some(_), None) => (PinnedStatus::Present, render),
        (Some((_, a)), Some((_, b))) => (PinnedStatus::Unexplained, format!("{} — vs spec: {}; vs deviation: {}", render, a, b)),
    })
}

static PRESENT: std::sync::OnceLock<u32> = std::sync::OnceLock::new();
static LISTED: std::sync::OnceLock<u32> = std::sync::OnceLock::new();

/// is deviation `k` listed with status `known` in known_findings.json (signature `C05:<name>`)?
/// Read directly (not through the strict-mode filter) so that replays attribute like runs do.
fn listed_known(k: u32) -> bool {
    let mask = *LISTED.get_or_init(|| {
        let known = crate::engine::known::known_for("C05");
        let mut m = 0;
        for d in dev::ALL.iter() {
            if known.contains_key(&format!("C05:{}", dev::name(*d))) {
                m |= *d;
            }
        }
        m
    });
    mask & k != 0
}

/// deviations allsorts currently exhibits on their pinned cases
pub fn present_devs() -> u32 {
    *PRESENT.get_or_init(|| {
        let mut m = 0;
        let mut dump = String::new();
        for k in dev::ALL.iter() {
            let st = pinned_status(*k);
            // only deviations that known_findings.json lists as `known` may explain a mismatch: a
            // repaired (or never listed) deviation that shows up again must be reported
            if let Ok((PinnedStatus::Present, _)) = &st {
                if listed_known(*k) {
                    m |= *k;
                }
            }
            match st {
                Ok((st, text)) => dump.push_str(&format!("{:?}: {}\n", st, text)),
                Err(f) => dump.push_str(&format!("error {}: {}\n", f.sig, f.msg)),
            }
        }
        if let Ok(path) = std::env::var("C05_PINNED") {
            let _ = std::fs::write(path, dump);
        }
        m
    })
}

fn strategy_len(n: usize) -> impl Strategy<Value = Vec<u32>> {
    proptest::collection::vec(any::<u32>(), n..=n)
}

fn strategy() -> impl Strategy<Value = Vec<u32>> {
    proptest::collection::vec(any::<u32>(), TAPE_LEN..=TAPE_LEN)
}

impl Property for C05 {
    fn id(&self) -> &'static str {
        "C05"
    }
    fn rule(&self) -> String {
        "a fixed-length entropy tape drawn by proptest drives a generator of GDEF (glyph classes, mark attach classes, mark glyph sets; classdef/coverage formats 1-2) + GPOS programs \
         (1-5 feature lookups plus nested ones, types 1.1/1.2, 2.1/2.2, 3, 4, 5, 6, 7.1-7.3, 8.1-8.3, optional extension (type 9) wrapping, lookup flags, 1-3 subtables, \
         value formats over all 16 non-device bit combinations plus NULL device offsets, anchor formats 1-3, script/langsys variants, features dist/kern/mark/mkmk/test/ss01) and/or a kern table \
         (1-3 subtables, format 0 / format 2 in three layouts, coverage bits horizontal/minimum/cross-stream/override); my own encoders put the tables into a complete font and 4 glyph strings \
         (a seed string the rules were derived from, mutations of it, random strings, base+marks clusters; 0-12 glyphs, marks with ligature component indices) are shaped with Font::shape \
         (kerning on/off; kern-only fonts through the fallback) and, for the first string, gpos::apply_features. Info.kerning/Info.placement, then glyph_positions() LTR (absolute pen positions, arbitrary advances) \
         and RTL (only where every glyph between a base and its mark has zero advance), are compared with an interpreter written from the OpenType spec. \
         14 known deviations of allsorts are defect models of the interpreter: 14 pinned minimal cases decide per run which of them allsorts exhibits; a mismatching string passes only if the reference \
         with a subset of those deviations reproduces allsorts' output exactly (classes attributed:*), anything else fails. \
         Non-trivial = the spec reference produced a non-zero adjustment or an attachment for some string; distinct by hash of font bytes + strings. \
         Extension sections: device-variation = a tape program whose value formats get device bits and whose anchors become format 3, every device offset pointing at NULL, a hinting Device table (formats 1-3) \
         or a VariationIndex table into a generated GDEF ItemVariationStore (1-3 axes, 1-4 valid regions, 1-2 subtables with word and byte deltas), shaped with no tuple or at a generated normalised location \
         (expected value = static + floor(sum scalar x delta + 0.5); near-ties excluded). kern-tables = kern tables of 1-4 subtables mixing format 0 and format 2 in any order with all coverage bits, in kern-only fonts \
         (fallback) and GPOS fonts without a kern feature. gsub-marklig = fonts with a GSUB of 1-3 LigatureSubst lookups (ligatures of 1-4 components incl. ligatures of ligatures; IgnoreMarks / mark attachment type / \
         mark filtering set / plain) and a MultipleSubst lookup (on bases and on marks) under ccmp/liga, GDEF, and GPOS MarkLigPos (+ MarkBasePos, MarkMarkPos); strings are expansions of ligatures with marks after \
         components; Font::shape applies GSUB then GPOS; the reference applies the two GSUB lookup types itself and associates every mark with the ligature component it followed in the original glyph sequence \
         (two independent formulations cross-checked), then the GPOS interpreter; 4 further deviations (2 variation, 2 component bookkeeping) are pinned and attributed by defect model like the others."
            .to_string()
    }
    fn assumptions(&self) -> Vec<String> {
        vec![
            "mark attachment overrides placements applied to the mark earlier; placements applied later shift the attached mark".into(),
            "PairPos format 2 applies (ends the subtable search) whenever the first glyph is covered, format 1 only when the pair is listed".into(),
            "nested lookups are applied at the matched input position regardless of the nested lookup's own flags; a nested pair lookup finds its second glyph with the nested lookup's flags".into(),
            "mark-to-base/ligature: the base is the nearest preceding glyph whose GDEF class is not mark; mark-to-mark: the preceding glyph not skipped by the mark-filtering part of the flags, which must be a mark".into(),
            "yAdvance is ignored in a horizontal run (the other fields of the value record still apply)".into(),
            "RTL absolute positions are asserted only when every glyph between a base and its mark has zero advance; cursive links are checked LTR only, as coincidence of exit and entry anchors".into(),
            "kern format 2 left class values are offsets from the subtable start (Apple reference; OpenType text 'adding the class values to the address of the subtable'); a format 2 subtable is only generated as the last subtable".into(),
            "excluded and counted (classes excluded:*): accumulated values outside i16, placement combined with a cursive link on the same glyph, mark-to-mark across different ligature components, ligature component index beyond the component count, hits in kern 'minimum' or cross-stream subtables".into(),
            "never generated: mark filtering set combined with markAttachmentType/ignoreMarks on one lookup; ignoreBase/ignoreLigatures on mark attachment lookups; marks in cursive coverage; non-marks in mark coverage; sequence indices beyond the input; a lookup in two features; in section programs: device/VariationIndex tables and GSUB (ligature components are fed as liga_component_pos)".into(),
            "hinting Device tables (delta formats 1-3) have no effect on shaping in font units; a VariationIndex delta is the interpolated delta of its delta set rounded half up, values within 0.02 of a tie are not asserted; invalid regions, delta-set indices out of range and VariationIndex tables without a store are not generated".into(),
            "a mark belongs to the ligature component it followed in the original glyph sequence; LigatureAttach tables have one component record per original component (a ligature made of ligatures has the sum); ligature lookups skip nothing but marks; MultipleSubst is not applied to ligature glyphs, marks decompose into marks and bases into bases; a base split by MultipleSubst whose parts become different components of one ligature is excluded and counted".into(),
            "cursive links in RTL: only the cross-stream (y) coincidence of exit and entry anchors, the y of attached marks and the offsets of unlinked glyphs are asserted; the x effect is not (the pen convention for RTL is undocumented and the plausible readings put the adjustment on different glyphs)".into(),
            "kern format 2: a pair with a glyph outside a class table (class 0) in an override or minimum subtable is excluded (whether it counts as present is unspecified); kern version 1 (Apple) headers are not generated: KernTable rejects every version but 0".into(),
        ]
    }
    fn run(&self, ctx: &mut Ctx) {
        ctx.enumerate("pinned-findings", dev::ALL.len() as u64, true, |i, rec| {
            let k = dev::ALL[i as usize];
            let (st, text) = pinned_status(k)?;
            match st {
                // the pinned case of a deviation shows it: fails with the finding's own signature —
                // tolerated (and printed as KNOWN-FINDING) iff known_findings.json lists it as known
                PinnedStatus::Present => {
                    rec.class(&format!("finding-present:{}", dev::name(k)));
                    return Err(fail(dev::name(k), text));
                }
                PinnedStatus::Absent => rec.class(&format!("finding-absent:{}", dev::name(k))),
                PinnedStatus::Unexplained => return Err(fail("pinned-case", text)),
            }
            rec.sample(|| text.clone());
            rec.nontrivial();
            rec.hash_u64(k as u64);
            Ok(())
        });
        let n = ctx.cases(250_000, 4_000_000);
        ctx.section("programs", n, strategy(), |tape, rec| check_case(tape, rec));
        // --- extension sections (see c05_ext.rs) ---
        ctx.enumerate("pinned-findings-gsub", ext::xdev::ALL.len() as u64, true, |i, rec| {
            let k = ext::xdev::ALL[i as usize];
            let (st, text) = ext::xpinned_status(k)?;
            match st {
                PinnedStatus::Present => {
                    rec.class(&format!("finding-present:{}", ext::xdev::name(k)));
                    return Err(fail(ext::xdev::name(k), text));
                }
                PinnedStatus::Absent => rec.class(&format!("finding-absent:{}", ext::xdev::name(k))),
                PinnedStatus::Unexplained => return Err(fail("pinned-case", text)),
            }
            rec.sample(|| text.clone());
            rec.nontrivial();
            rec.hash_u64(0x1000 + k as u64);
            Ok(())
        });
        let n = ctx.cases(28_000, 600_000);
        ctx.section("device-variation", n, strategy_len(TAPE_LEN + ext::DEV_TAIL), |tape, rec| check_program(&ext::build_program_dev(tape), rec));
        let n = ctx.cases(14_000, 400_000);
        ctx.section("kern-tables", n, strategy_len(TAPE_LEN + ext::KERN_TAIL), |tape, rec| check_program(&ext::build_program_kern(tape), rec));
        let n = ctx.cases(20_000, 400_000);
        ctx.section("nested-attach", n, strategy(), |tape, rec| check_program(&build_program_mode(tape, true), rec));
        let n = ctx.cases(28_000, 600_000);
        ctx.section("gsub-marklig", n, strategy_len(ext::LIGA_TAPE), |tape, rec| ext::check_liga_case(tape, rec));
    }
}
