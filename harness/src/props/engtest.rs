//! ENGTEST — exercises the engine's handling of process-level failures (not a listed property).
//! Every misbehaviour below must be reported as a violation with an addressable case.
use crate::engine::{Ctx, Fail, Property};

pub struct ENGTEST;

#[inline(never)]
fn recurse(n: u64) -> u64 {
    let pad = [n; 32];
    if n == 0 {
        return pad[3];
    }
    recurse(n - 1) + std::hint::black_box(pad[7])
}

impl Property for ENGTEST {
    fn id(&self) -> &'static str {
        "ENGTEST"
    }
    fn rule(&self) -> String {
        "engine self-test".into()
    }
    fn run(&self, ctx: &mut Ctx) {
        ctx.enumerate("misbehave", 64, false, |i, rec| {
            rec.nontrivial();
            rec.hash_u64(i);
            match i {
                5 => {
                    std::hint::black_box(recurse(10_000_000));
                }
                9 => {
                    rec.guard_alloc(100);
                    let v: Vec<u8> = Vec::with_capacity(1 << 30);
                    std::hint::black_box(&v);
                }
                13 => loop {
                    std::thread::sleep(std::time::Duration::from_millis(100));
                },
                17 => std::process::abort(),
                21 => return Err(Fail::new("ENGTEST:semantic", "semantic failure")),
                25 => {
                    // slow but terminating
                    std::thread::sleep(std::time::Duration::from_secs(23));
                }
                _ => {}
            }
            Ok(())
        });
    }
}
