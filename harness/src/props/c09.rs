//! C09 — every font the library writes is a valid, self-consistent sfnt.
//! Generators: subset / prince::subset (all cmap targets) on fixture fonts and on generated
//! BasicFonts, whole_font with generated tag lists, variations::instance at generated user
//! coordinates, and the tables delivered by the WOFF2 table provider. Oracle: the independent
//! validator `refmodel::sfnt_validate`, plus self-load through allsorts' own readers.

use crate::engine::util::{mix64, pick};
use crate::engine::{fixtures, CaseResult, Ctx, Fail, Property, Rec};
use crate::fontgen::basic::{glyf_simple, BasicFont, SimpleGlyph};
use crate::fontgen::buf::Buf;
use crate::refmodel::sfnt_validate::{validate_cff, validate_container, validate_tables, Opts, Tag};
use allsorts::binary::read::ReadScope;
use allsorts::cff::cff2::CFF2;
use allsorts::cff::outline::CFF2Outlines;
use allsorts::cff::CFF;
use allsorts::font::Font;
use allsorts::font_data::FontData;
use allsorts::outline::{OutlineBuilder, OutlineSink};
use allsorts::pathfinder_geometry::line_segment::LineSegment2F;
use allsorts::pathfinder_geometry::vector::Vector2F;
use allsorts::subset::prince::PrinceCmapTarget;
use allsorts::tables::glyf::GlyfTable;
use allsorts::tables::loca::LocaTable;
use allsorts::tables::{Fixed, FontTableProvider, HeadTable, HheaTable, HmtxTable, MaxpTable};
use allsorts::tag;
use proptest::prelude::*;
use std::collections::{BTreeMap, BTreeSet};
use std::sync::OnceLock;

pub struct C09;

fn fail(sig: &str, msg: String) -> Fail {
    Fail::new(format!("C09:{}", sig), msg)
}

// ------------------------------------------------------------------------------ sources

#[derive(Clone, Copy, Debug, PartialEq)]
pub enum Outline {
    Glyf,
    Cff,
    Cff2,
    None,
}

pub struct Source {
    pub rel: String,
    pub bytes: Vec<u8>,
    pub num_glyphs: u16,
    pub tags: Vec<u32>,
    pub outline: Outline,
    /// fvar axes (min, default, max) raw 16.16
    pub axes: Vec<(i32, i32, i32)>,
    /// validator codes the source itself raises (cross-table layer)
    pub codes: BTreeSet<&'static str>,
    pub container_codes: BTreeSet<&'static str>,
    pub woff2: bool,
}

fn be16(d: &[u8], at: usize) -> Option<u16> {
    d.get(at..at + 2).map(|b| u16::from_be_bytes([b[0], b[1]]))
}
fn be32(d: &[u8], at: usize) -> Option<u32> {
    d.get(at..at + 4).map(|b| u32::from_be_bytes([b[0], b[1], b[2], b[3]]))
}

/// all tables of a provider, owned
fn provider_tables<P: FontTableProvider>(p: &P) -> Option<BTreeMap<Tag, Vec<u8>>> {
    let mut m = BTreeMap::new();
    for t in p.table_tags()? {
        if let Ok(Some(d)) = p.table_data(t) {
            m.insert(t.to_be_bytes(), d.into_owned());
        }
    }
    Some(m)
}

fn as_refs(m: &BTreeMap<Tag, Vec<u8>>) -> BTreeMap<Tag, &[u8]> {
    m.iter().map(|(k, v)| (*k, &v[..])).collect()
}

fn load_source(rel: &str) -> Option<Source> {
    let bytes = fixtures::read(rel)?;
    let (tables, woff2, is_sfnt) = {
        let fd = ReadScope::new(&bytes).read::<FontData<'_>>().ok()?;
        let p = fd.table_provider(0).ok()?;
        (provider_tables(&p)?, matches!(fd, FontData::Woff2(_)), matches!(fd, FontData::OpenType(_)))
    };
    let maxp = tables.get(b"maxp")?;
    let num_glyphs = be16(maxp, 4)?;
    let outline = if tables.contains_key(b"glyf") && tables.contains_key(b"loca") {
        Outline::Glyf
    } else if tables.contains_key(b"CFF ") {
        Outline::Cff
    } else if tables.contains_key(b"CFF2") {
        Outline::Cff2
    } else {
        Outline::None
    };
    let mut axes = Vec::new();
    if let Some(fvar) = tables.get(b"fvar") {
        // fvar header: version(4) axesArrayOffset(2) reserved(2) axisCount(2) axisSize(2) ...
        let off = be16(fvar, 4)? as usize;
        let n = be16(fvar, 8)? as usize;
        let sz = be16(fvar, 10)? as usize;
        for i in 0..n {
            let at = off + i * sz;
            axes.push((be32(fvar, at + 4)? as i32, be32(fvar, at + 8)? as i32, be32(fvar, at + 12)? as i32));
        }
    }
    let rep = validate_tables(&as_refs(&tables), Opts { exact_sizes: false, charstrings: tables.get(b"CFF ").map(|c| c.len() < 400_000).unwrap_or(true) });
    let codes = rep.issues.iter().map(|i| i.code).collect();
    let container_codes = if is_sfnt && be32(&bytes, 0) != Some(0x7474_6366) {
        validate_container(&bytes).issues.iter().map(|i| i.code).collect()
    } else {
        BTreeSet::new()
    };
    let tags = tables.keys().map(|t| u32::from_be_bytes(*t)).collect();
    Some(Source { rel: rel.to_string(), bytes, num_glyphs, tags, outline, axes, codes, container_codes, woff2 })
}

pub fn sources() -> &'static Vec<Source> {
    static S: OnceLock<Vec<Source>> = OnceLock::new();
    S.get_or_init(|| {
        let mut rels = fixtures::list("fonts", &["ttf", "otf", "woff", "woff2"], 470_000);
        rels.retain(|r| !r.contains("woff1/") || r.contains("valid-"));
        let mut v: Vec<Source> = rels.iter().filter_map(|r| load_source(r)).collect();
        v.retain(|s| s.num_glyphs > 0);
        v
    })
}

/// the one large CID-keyed fixture, loaded only by the sections that use it
fn cid_source() -> Option<&'static Source> {
    static S: OnceLock<Option<Source>> = OnceLock::new();
    S.get_or_init(|| load_source("fonts/noto/NotoSansJP-Regular.otf")).as_ref()
}

fn variable_sources() -> Vec<&'static Source> {
    sources().iter().filter(|s| !s.axes.is_empty()).collect()
}

// ------------------------------------------------------------------------------ self-load

struct CountSink(u64);
impl OutlineSink for CountSink {
    fn move_to(&mut self, _to: Vector2F) {
        self.0 += 1;
    }
    fn line_to(&mut self, _to: Vector2F) {
        self.0 += 1;
    }
    fn quadratic_curve_to(&mut self, _c: Vector2F, _to: Vector2F) {
        self.0 += 1;
    }
    fn cubic_curve_to(&mut self, _c: LineSegment2F, _to: Vector2F) {
        self.0 += 1;
    }
    fn close(&mut self) {
        self.0 += 1;
    }
}

const MAX_GLYPH_QUERIES: u16 = 3000;

/// advance + outline of every glyph through allsorts' own readers
fn load_glyphs<P: FontTableProvider>(p: &P, what: &str, expect_glyphs: Option<u16>, want_font: bool) -> CaseResult {
    let rd = |t: u32, name: &str| p.read_table_data(t).map_err(|e| fail("self-load", format!("{}: cannot read {}: {:?}", what, name, e)));
    let maxp_d = rd(tag::MAXP, "maxp")?;
    let maxp = ReadScope::new(&maxp_d).read::<MaxpTable>().map_err(|e| fail("self-load", format!("{}: maxp: {:?}", what, e)))?;
    let n = maxp.num_glyphs;
    if let Some(e) = expect_glyphs {
        if e != n {
            return Err(fail("num-glyphs", format!("{}: output has {} glyphs, expected {}", what, n, e)));
        }
    }
    let hhea_d = rd(tag::HHEA, "hhea")?;
    let hhea = ReadScope::new(&hhea_d).read::<HheaTable>().map_err(|e| fail("self-load", format!("{}: hhea: {:?}", what, e)))?;
    let hmtx_d = rd(tag::HMTX, "hmtx")?;
    let hmtx = ReadScope::new(&hmtx_d)
        .read_dep::<HmtxTable<'_>>((usize::from(n), usize::from(hhea.num_h_metrics)))
        .map_err(|e| fail("self-load", format!("{}: hmtx: {:?}", what, e)))?;
    let limit = n.min(MAX_GLYPH_QUERIES);
    for g in 0..limit {
        hmtx.horizontal_advance(g).map_err(|e| fail("self-load", format!("{}: horizontal_advance({}) of {}: {:?}", what, g, n, e)))?;
    }
    let mut sink = CountSink(0);
    if p.has_table(tag::GLYF) {
        let head_d = rd(tag::HEAD, "head")?;
        let head = ReadScope::new(&head_d).read::<HeadTable>().map_err(|e| fail("self-load", format!("{}: head: {:?}", what, e)))?;
        let loca_d = rd(tag::LOCA, "loca")?;
        let loca = ReadScope::new(&loca_d)
            .read_dep::<LocaTable<'_>>((usize::from(n), head.index_to_loc_format))
            .map_err(|e| fail("self-load", format!("{}: loca: {:?}", what, e)))?;
        let glyf_d = rd(tag::GLYF, "glyf")?;
        let mut glyf = ReadScope::new(&glyf_d).read_dep::<GlyfTable<'_>>(&loca).map_err(|e| fail("self-load", format!("{}: glyf: {:?}", what, e)))?;
        for g in 0..limit {
            glyf.visit(g, &mut sink).map_err(|e| fail("self-load", format!("{}: outline of glyph {} of {}: {:?}", what, g, n, e)))?;
        }
    } else if p.has_table(tag::CFF) {
        let d = rd(tag::CFF, "CFF")?;
        let mut cff = ReadScope::new(&d).read::<CFF<'_>>().map_err(|e| fail("self-load", format!("{}: CFF: {:?}", what, e)))?;
        cff_charset_queries(&cff, limit, what)?;
        for g in 0..limit {
            cff.visit(g, &mut sink).map_err(|e| fail("self-load", format!("{}: CFF outline of glyph {} of {}: {:?}", what, g, n, e)))?;
        }
    } else if p.has_table(tag::CFF2) && !p.has_table(tag::FVAR) {
        let d = rd(tag::CFF2, "CFF2")?;
        let cff2 = ReadScope::new(&d).read::<CFF2<'_>>().map_err(|e| fail("self-load", format!("{}: CFF2: {:?}", what, e)))?;
        let mut o = CFF2Outlines { table: &cff2, tuple: None };
        for g in 0..limit {
            o.visit(g, &mut sink).map_err(|e| fail("self-load", format!("{}: CFF2 outline of glyph {} of {}: {:?}", what, g, n, e)))?;
        }
    }
    let _ = want_font;
    Ok(())
}

/// "the library itself can ... query every retained glyph": the name (SID) / CID of every glyph of a
/// written CFF font through the library's own charset reader
fn cff_charset_queries(cff: &CFF<'_>, n: u16, what: &str) -> CaseResult {
    let Some(font) = cff.fonts.first() else { return Ok(()) };
    for g in 0..n {
        if font.charset.id_for_glyph(g).is_none() {
            return Err(fail(
                "self-query:cff-glyph-without-charset-entry",
                format!("{}: CFF charset.id_for_glyph({}) is None in a font of {} glyphs ({} CharStrings)", what, g, n, font.char_strings_index.len()),
            ));
        }
    }
    Ok(())
}

fn self_load_file(out: &[u8], what: &str, expect_glyphs: Option<u16>, has_cmap: bool, must_be_static: bool) -> CaseResult {
    let fd = ReadScope::new(out).read::<FontData<'_>>().map_err(|e| fail("self-load", format!("{}: FontData::read: {:?}", what, e)))?;
    let p = fd.table_provider(0).map_err(|e| fail("self-load", format!("{}: table_provider: {:?}", what, e)))?;
    load_glyphs(&p, what, expect_glyphs, has_cmap)?;
    if has_cmap {
        let mut font = Font::new(p).map_err(|e| fail("self-load", format!("{}: Font::new: {:?}", what, e)))?;
        let n = font.num_glyphs();
        for g in 0..n.min(MAX_GLYPH_QUERIES) {
            if font.horizontal_advance(g).is_none() {
                return Err(fail("self-load", format!("{}: Font::horizontal_advance({}) of {} is None", what, g, n)));
            }
        }
        if must_be_static && font.is_variable() {
            return Err(fail("instance-still-variable", format!("{}: is_variable() is true for an instance", what)));
        }
    }
    Ok(())
}

// ------------------------------------------------------------------------------ output check

#[derive(Clone, Copy, PartialEq, Debug)]
enum Origin {
    Subset,
    WholeFont,
    Instance,
}

/// Validate one written font. `mask`: validator codes the source raises itself (tables copied
/// verbatim can only be as good as the source).
fn check_output(out: &[u8], what: &str, origin: Origin, expect_glyphs: Option<u16>, mask: &BTreeSet<&'static str>, load: bool, rec: &mut Rec) -> CaseResult {
    rec.artefact("output", out);
    let crep = validate_container(out);
    if let Some(i) = crep.issues.first() {
        return Err(fail(&format!("container:{}", i.code), format!("{}: {}", what, i.msg)));
    }
    let odd = crep.records.iter().filter(|r| r.length % 4 != 0).count();
    rec.set_nontrivial(crep.records.len() >= 5 && odd >= 1);
    rec.class(match crep.records.len() {
        0..=4 => "out-tables:<5",
        5..=9 => "out-tables:5-9",
        10..=14 => "out-tables:10-14",
        _ => "out-tables:15+",
    });
    rec.class(match odd {
        0 => "odd-length-tables:0",
        1 => "odd-length-tables:1",
        2..=3 => "odd-length-tables:2-3",
        _ => "odd-length-tables:4+",
    });
    // flavour against outlines: "OpenType fonts containing CFF data (version 1 or 2) should use
    // 'OTTO'", and CFF loaders (FreeType's cff_face_init) refuse any other sfnt version; every
    // writer of allsorts selects CFF_MAGIC from the presence of the table
    let has = |t: &[u8; 4]| crep.tables.contains_key(t);
    if (has(b"CFF ") || has(b"CFF2")) && !has(b"glyf") {
        rec.class("flavour:cff-outlines");
        if crep.flavour != 0x4F54_544F {
            return Err(fail(
                "container:cff-outlines-without-OTTO-version",
                format!("{}: the file has a {} table and no glyf table but sfntVersion 0x{:08X}", what, if has(b"CFF ") { "CFF" } else { "CFF2" }, crep.flavour),
            ));
        }
    }
    let charstrings = crep.tables.get(b"CFF ").map(|c| c.len() < 300_000).unwrap_or(true);
    let trep = validate_tables(&crep.tables, Opts { exact_sizes: origin != Origin::WholeFont, charstrings });
    for i in &trep.issues {
        if mask.contains(i.code) {
            rec.class("inherited-from-source");
            continue;
        }
        if origin == Origin::WholeFont && i.code.ends_with(":missing") {
            continue;
        }
        return Err(fail(&format!("tables:{}", i.code), format!("{}: {}", what, i.msg)));
    }
    for f in &trep.cmap_formats {
        rec.class(&format!("out-cmap-format:{}", f));
    }
    if let Some(s) = trep.short_loca {
        rec.class(if s { "out-loca:short" } else { "out-loca:long" });
    }
    rec.class_if(trep.composite_glyphs > 0, "out-has-composite-glyphs");
    if let Some(c) = trep.cff_cid {
        rec.class(if c { "out-cff:cid-keyed" } else { "out-cff:name-keyed" });
    }
    if origin == Origin::Instance {
        for t in [b"fvar", b"avar", b"gvar", b"cvar", b"HVAR", b"VVAR", b"MVAR"] {
            if has(t) {
                return Err(fail("instance-variation-table", format!("{}: instance still carries '{}'", what, String::from_utf8_lossy(t))));
            }
        }
    }
    if load {
        self_load_file(out, what, expect_glyphs, has(b"cmap"), origin == Origin::Instance)?;
    }
    rec.hash_bytes(out);
    Ok(())
}

// ------------------------------------------------------------------------------ subset

#[derive(Clone, Debug)]
pub struct SubsetCase {
    pub src: u32,
    pub picks: Vec<u32>,
    /// contiguous run: (start pick, length)
    pub run: Option<(u32, u16)>,
    pub order: u8,
    /// 0 subset, 1 prince Unrestricted, 2 prince MacRoman, 3 prince Omit, 4 prince MacRomanCmap
    pub api: u8,
    pub convert: bool,
    pub seed: u64,
}

fn subset_strategy() -> impl Strategy<Value = SubsetCase> {
    (
        any::<u32>(),
        proptest::collection::vec(any::<u32>(), 0..24),
        proptest::option::weighted(0.3, (any::<u32>(), prop_oneof![4 => 1u16..40, 2 => 40u16..300, 1 => 250u16..420])),
        prop_oneof![6 => Just(0u8), 4 => Just(1u8), 8 => Just(2u8), 1 => Just(3u8), 1 => Just(4u8), 1 => Just(5u8)],
        prop_oneof![4 => Just(0u8), 2 => Just(1u8), 2 => Just(2u8), 1 => Just(3u8), 2 => Just(4u8)],
        any::<bool>(),
        any::<u64>(),
    )
        .prop_map(|(src, picks, run, order, api, convert, seed)| SubsetCase { src, picks, run, order, api, convert, seed })
}

fn glyph_list(n: u16, picks: &[u32], run: Option<(u32, u16)>, order: u8, seed: u64) -> Vec<u16> {
    let mut set: BTreeSet<u16> = BTreeSet::new();
    if n > 1 {
        for p in picks {
            set.insert(1 + pick((n - 1) as usize, *p) as u16);
        }
        if let Some((s, l)) = run {
            let start = 1 + pick((n - 1) as usize, s) as u16;
            for g in start..start.saturating_add(l).min(n) {
                set.insert(g);
            }
        }
    }
    let mut rest: Vec<u16> = set.into_iter().collect();
    match order {
        1 => rest.reverse(),
        2 => {
            // deterministic shuffle
            let mut keyed: Vec<(u64, u16)> = rest.iter().map(|g| (mix64(seed ^ *g as u64), *g)).collect();
            keyed.sort();
            rest = keyed.into_iter().map(|k| k.1).collect();
        }
        _ => {}
    }
    let mut v = vec![0u16];
    v.extend(rest);
    // lists that break the documented preconditions (the call may fail; if it succeeds the
    // output must still be a valid font)
    match order {
        3 => v.push(n.saturating_add((seed % 5) as u16)),
        4 => {
            let d = v[(seed as usize) % v.len()];
            v.push(d);
        }
        5 if v.len() > 1 => v.swap(0, 1),
        _ => {}
    }
    v
}

fn run_subset<P: FontTableProvider>(p: &P, ids: &[u16], c: &SubsetCase) -> (Result<Vec<u8>, String>, &'static str) {
    match c.api {
        0 => (allsorts::subset::subset(p, ids).map_err(|e| format!("{:?}", e)), "subset"),
        k => {
            let (target, name) = match k {
                1 => (PrinceCmapTarget::Unrestricted, "prince:unrestricted"),
                2 => (PrinceCmapTarget::MacRoman, "prince:macroman"),
                3 => (PrinceCmapTarget::Omit, "prince:omit"),
                _ => {
                    let mut a = Box::new([0u8; 256]);
                    let n = ids.len().clamp(1, 256) as u64;
                    for (i, e) in a.iter_mut().enumerate() {
                        let r = mix64(c.seed ^ (i as u64) << 20);
                        if r % 3 != 0 {
                            *e = ((r >> 8) % n) as u8;
                        }
                    }
                    (PrinceCmapTarget::MacRomanCmap(a), "prince:macroman-cmap")
                }
            };
            (allsorts::subset::prince::subset(p, ids, target, c.convert).map_err(|e| format!("{:?}", e)), name)
        }
    }
}

fn check_subset_on(src_name: &str, bytes: &[u8], n: u16, outline: Outline, c: &SubsetCase, rec: &mut Rec) -> CaseResult {
    match check_subset_inner(src_name, bytes, n, outline, c, rec) {
        // a glyph list that breaks the documented preconditions (glyph 0 first, no duplicates, ids in
        // range) was accepted and the output is not a valid font: one signature for the whole class
        Err(f) if c.order >= 3 && !f.sig.starts_with("C09:harness") && !f.sig.starts_with("panic:") => Err(Fail::new(
            "C09:irregular-glyph-list-accepted",
            format!("glyph list breaking the documented preconditions was accepted and produced an invalid font [{}]: {}", f.sig, f.msg),
        )),
        r => r,
    }
}

fn check_subset_inner(src_name: &str, bytes: &[u8], n: u16, outline: Outline, c: &SubsetCase, rec: &mut Rec) -> CaseResult {
    let fd = ReadScope::new(bytes).read::<FontData<'_>>().map_err(|e| fail("harness:source", format!("{}: {:?}", src_name, e)))?;
    let p = fd.table_provider(0).map_err(|e| fail("harness:source", format!("{}: {:?}", src_name, e)))?;
    let ids = glyph_list(n, &c.picks, c.run, c.order, c.seed);
    let (res, api) = run_subset(&p, &ids, c);
    rec.class(&format!("api:{}", api));
    rec.class(match outline {
        Outline::Glyf => "source:glyf",
        Outline::Cff => "source:CFF",
        Outline::Cff2 => "source:CFF2",
        Outline::None => "source:no-outlines",
    });
    let what = format!("{}({}, {} glyphs {:?}…)", api, src_name, ids.len(), &ids[..ids.len().min(12)]);
    let out = match res {
        Ok(o) => o,
        Err(e) => {
            rec.class("result:Err");
            rec.sample(|| format!("{} -> Err {}", what, e));
            return Ok(());
        }
    };
    rec.class("result:Ok");
    rec.class(match ids.len() {
        1 => "glyphs:1",
        2..=9 => "glyphs:2-9",
        10..=99 => "glyphs:10-99",
        100..=255 => "glyphs:100-255",
        _ => "glyphs:256+",
    });
    rec.sample(|| format!("{} -> {} bytes", what, out.len()));
    let empty = BTreeSet::new();
    if c.api != 0 && outline != Outline::Glyf {
        // prince::subset returns a bare CFF table for CFF / CFF2 sources
        rec.artefact("output", &out);
        rec.class("output:bare-CFF");
        let (issues, cid) = validate_cff(&out, if c.order >= 3 { None } else { Some(ids.len()) }, true);
        if let Some(i) = issues.first() {
            return Err(fail(&format!("tables:{}", i.code), format!("{}: bare CFF: {}", what, i.msg)));
        }
        if let Some(cid) = cid {
            rec.class(if cid { "out-cff:cid-keyed" } else { "out-cff:name-keyed" });
        }
        let mut cff = ReadScope::new(&out).read::<CFF<'_>>().map_err(|e| fail("self-load", format!("{}: bare CFF does not load: {:?}", what, e)))?;
        let mut sink = CountSink(0);
        let ncs = cff.fonts.first().map(|f| f.char_strings_index.len()).unwrap_or(0).min(ids.len());
        cff_charset_queries(&cff, ncs as u16, &what)?;
        for g in 0..ncs as u16 {
            cff.visit(g, &mut sink).map_err(|e| fail("self-load", format!("{}: bare CFF outline of glyph {}: {:?}", what, g, e)))?;
        }
        rec.hash_bytes(&out);
        rec.set_nontrivial(out.len() % 4 != 0);
        return Ok(());
    }
    let irregular = c.order >= 3;
    rec.class_if(irregular, "glyph-list:breaks-precondition-but-Ok");
    // a glyf subset also pulls in the components of retained composite glyphs
    let expect = if outline == Outline::Glyf || irregular { None } else { Some(ids.len() as u16) };
    check_output(&out, &what, Origin::Subset, expect, &empty, true, rec)?;
    let got = validate_container(&out).tables.get(b"maxp").and_then(|m| be16(m, 4)).unwrap_or(0);
    if (got as usize) < ids.len() && !irregular {
        return Err(fail("num-glyphs", format!("{}: output has {} glyphs for {} requested", what, got, ids.len())));
    }
    rec.class_if(got as usize > ids.len(), "subset:components-added");
    Ok(())
}

fn check_subset_fixture(c: &SubsetCase, rec: &mut Rec) -> CaseResult {
    let srcs = sources();
    // 1 in 24 cases uses the large CID-keyed fixture
    let s: &Source = if c.src % 24 == 0 {
        match cid_source() {
            Some(s) => s,
            None => &srcs[pick(srcs.len(), c.src)],
        }
    } else {
        &srcs[pick(srcs.len(), c.src)]
    };
    rec.class_if(s.woff2, "source:woff2-provider");
    rec.class_if(!s.axes.is_empty(), "source:variable");
    check_subset_on(&s.rel, &s.bytes, s.num_glyphs, s.outline, c, rec)
}

// ---- generated TrueType sources

#[derive(Clone, Debug)]
pub struct GenFont {
    pub glyphs: Vec<(u8, u8, u16)>,
    pub num_h_metrics_pick: u32,
    pub long_loca: bool,
    pub chars: Vec<(u32, u32)>,
    pub extra_lens: Vec<u16>,
    pub seed: u64,
}

fn gen_font_strategy() -> impl Strategy<Value = GenFont> {
    (
        proptest::collection::vec((0u8..6, 0u8..8, any::<u16>()), 1..48),
        any::<u32>(),
        any::<bool>(),
        proptest::collection::vec((prop_oneof![6 => 0x20u32..0x250, 2 => 0x250u32..0xFFFE, 1 => 0x10000u32..0x10400], any::<u32>()), 0..24),
        proptest::collection::vec(prop_oneof![1 => Just(0u16), 4 => 1u16..40], 0..4),
        any::<u64>(),
    )
        .prop_map(|(glyphs, num_h_metrics_pick, long_loca, chars, extra_lens, seed)| GenFont { glyphs, num_h_metrics_pick, long_loca, chars, extra_lens, seed })
}

/// `instr`: instructions that follow the last component, and which component(s) carry
/// WE_HAVE_INSTRUCTIONS (index; `components.len()` = every component). `xform`: a scale
/// (WE_HAVE_A_SCALE) on the first component.
fn composite_glyph(components: &[(u16, i16, i16)], instr: Option<(&[u8], usize)>, xform: Option<i16>) -> Vec<u8> {
    let mut b = Buf::new();
    b.i16(-1).i16(0).i16(0).i16(500).i16(700);
    for (k, (g, dx, dy)) in components.iter().enumerate() {
        let more = if k + 1 < components.len() { 0x0020 } else { 0 };
        let words = *dx < -128 || *dx > 127 || *dy < -128 || *dy > 127 || k % 2 == 0;
        let have_instr = match instr {
            Some((_, c)) if c == k || c >= components.len() => 0x0100,
            _ => 0,
        };
        let scale = if k == 0 && xform.is_some() { 0x0008 } else { 0 };
        b.u16(0x0002 | more | have_instr | scale | if words { 1 } else { 0 }).u16(*g);
        if words {
            b.i16(*dx).i16(*dy);
        } else {
            b.i8(*dx as i8).i8(*dy as i8);
        }
        if scale != 0 {
            b.i16(xform.unwrap());
        }
    }
    if let Some((ins, _)) = instr {
        b.u16(ins.len() as u16).bytes(ins);
    }
    b.into_vec()
}

fn build_gen_font(g: &GenFont) -> BasicFont {
    let n = g.glyphs.len() as u16;
    let mut f = BasicFont::with_glyphs(n);
    let mut depth = vec![0u8; n as usize];
    for (i, (kind, ilen, r)) in g.glyphs.iter().enumerate() {
        let rec = match kind {
            0 if i > 0 => Vec::new(),
            1 | 2 if i > 1 => {
                // composite of one or two earlier glyphs
                // allsorts (like HarfBuzz) limits composite nesting to 6 levels: stay below
                let shallow = |g: u16, depth: &[u8]| if depth[g as usize] >= 4 { 0 } else { g };
                let a = 1 + (*r as usize % (i - 1).max(1)) as u16;
                let mut comps = vec![(shallow(a.min(i as u16 - 1), &depth), (*r % 300) as i16 - 150, *ilen as i16 * 10)];
                if *kind == 2 {
                    comps.push((shallow((*r as usize / 7 % i) as u16, &depth), 5, -5));
                }
                depth[i] = 1 + comps.iter().map(|c| depth[c.0 as usize]).max().unwrap_or(0);
                // one composite in three carries instructions, the flag on any one component or on
                // all of them; one in four scales its first component
                let ins: Vec<u8> = (0..*ilen).map(|k| k.wrapping_mul(29)).collect();
                let instr = if *r % 3 == 0 { Some((&ins[..], (*r as usize / 3) % (comps.len() + 1))) } else { None };
                let xform = if *r % 4 == 1 { Some(0x2000 + (*r % 0x3000) as i16) } else { None };
                composite_glyph(&comps, instr, xform)
            }
            _ => {
                let mut sg = SimpleGlyph::rect(10, 0, 100 + (*r % 400) as i16, 100 + (*r / 400) as i16);
                if *kind == 5 {
                    sg.contours.push(vec![(20, 20, true), (40, 60, false), (60, 20, true)]);
                }
                sg.instructions = (0..*ilen).map(|k| k.wrapping_mul(37)).collect();
                glyf_simple(&sg)
            }
        };
        f.glyph_records[i] = rec;
        f.metrics[i] = (300 + (*r % 700), (*r % 90) as i16 - 20);
    }
    f.num_h_metrics = 1 + pick(n as usize, g.num_h_metrics_pick) as u16;
    f.long_loca = g.long_loca;
    for (c, r) in &g.chars {
        if char::from_u32(*c).is_some() {
            f.cmap.insert(*c, pick(n as usize, *r) as u16);
        }
    }
    for (k, l) in g.extra_lens.iter().enumerate() {
        let t: Tag = *[b"cvt ", b"fpgm", b"prep", b"gasp"][k % 4];
        let mut d: Vec<u8> = (0..*l).map(|i| mix64(g.seed ^ i as u64) as u8).collect();
        if &t == b"cvt " && d.len() % 2 == 1 {
            d.push(0);
        }
        f.extra.push((t, d));
    }
    f
}

fn check_subset_generated(c: &(GenFont, SubsetCase), rec: &mut Rec) -> CaseResult {
    let (g, sc) = c;
    let f = build_gen_font(g);
    let bytes = f.build();
    rec.artefact("source", &bytes);
    rec.class("source:generated");
    rec.class_if(f.num_h_metrics < f.num_glyphs(), "source:numberOfHMetrics<numGlyphs");
    check_subset_on("generated", &bytes, f.num_glyphs(), Outline::Glyf, sc, rec)
}

// ------------------------------------------------------------------------------ subsets of generated CFF / CFF2 fonts

/// C18-generated name-keyed / CID-keyed CFF fonts (the generator C07 subsets, here biased to more
/// than 255 glyphs so that the Type 1 -> CID conversion runs; with and without local / global subroutines).
/// One case in five is in *ISOAdobe-prefix mode* (`IsoPrefix`).
fn gen_cff_strategy() -> impl Strategy<Value = (crate::props::c18::Case, Option<IsoPrefix>)> {
    (crate::props::c07::c18_case_strategy(), prop_oneof![2 => Just(0usize), 2 => 257usize..=330, 1 => Just(1usize)], iso_prefix_strategy()).prop_map(|(mut c, big, iso)| {
        let iso = if big == 1 { Some(iso) } else { None };
        let big = iso.as_ref().map(|i| i.nglyphs).unwrap_or(big);
        if big > 0 {
            c.nglyphs = big;
            c.cuts = c.cuts.min(1);
            c.deep = false;
            c.max_segs = c.max_segs.min(5);
        }
        c.variable = false;
        // CFF2 sources are left to C07: the CFF2 -> CFF conversion copies operand lists longer than the 48 a CFF
        // charstring may hold (known finding C07:cff2-operand-list-over-48-not-split, attributed there by a
        // defect model); here every such subset would only fail to self-load
        if c.kind == crate::props::c18::Kind::Cff2 || iso.is_some() {
            c.kind = crate::props::c18::Kind::NameKeyed;
            c.nfd = 1;
        }
        (c, iso)
    })
}

/// ISOAdobe-prefix mode: a name-keyed source of 226..=300 glyphs whose charset (format 0 or 1) names
/// glyphs 1..=prefix by SIDs 1..=prefix (the order of the predefined ISOAdobe charset, which ends with
/// SID 228) and the glyphs after them by SID glyph+gap (still standard strings, <= 390); the glyph list
/// is 0, 1, ..., head plus a few glyphs anywhere, so the subset's charset starts in ISOAdobe order for
/// min(prefix, head) glyphs and the subset size lies on both sides of 229 (the size of ISOAdobe) and of
/// the 256-glyph CID threshold.
#[derive(Clone, Debug)]
pub struct IsoPrefix {
    pub nglyphs: usize,
    pub prefix: u16,
    pub gap: u16,
    pub format1: bool,
    /// the glyph list starts 0, 1, ..., head
    pub head: u16,
    /// how many of the SubsetCase's random picks are kept
    pub tail: usize,
    pub keep_order: bool,
}

const ISO_ADOBE_GLYPHS: usize = 229;

fn iso_prefix_strategy() -> impl Strategy<Value = IsoPrefix> {
    (
        prop_oneof![3 => 226usize..=262, 1 => 263usize..=300],
        prop_oneof![2 => 200u16..228, 2 => Just(228u16), 1 => Just(229u16), 2 => 230u16..=300],
        1u16..=40,
        any::<bool>(),
        prop_oneof![2 => 215u16..228, 1 => Just(228u16), 1 => Just(229u16), 3 => 230u16..=254, 1 => 255u16..=262],
        0usize..=6,
        proptest::bool::weighted(0.1),
    )
        .prop_map(|(nglyphs, prefix, gap, format1, head, tail, keep_order)| IsoPrefix { nglyphs, prefix, gap, format1, head, tail, keep_order })
}

impl IsoPrefix {
    /// SIDs of glyphs 1..nglyphs
    fn sids(&self) -> Vec<u16> {
        (1..self.nglyphs as u16).map(|g| if g <= self.prefix { g } else { g + self.gap }).collect()
    }
}

fn check_subset_generated_cff(c: &((crate::props::c18::Case, Option<IsoPrefix>), SubsetCase), rec: &mut Rec) -> CaseResult {
    use crate::fontgen::cff::CharsetModel;
    use crate::props::c18;
    let ((cc, iso), sc) = c;
    let mut sc = sc.clone();
    let b = match iso {
        Some(i) => {
            let sids = i.sids();
            c18::build_with_charset(cc, if i.format1 { CharsetModel::Format1(sids) } else { CharsetModel::Format0(sids) })
        }
        None => c18::build(cc),
    };
    let n = b.glyphs.len() as u16;
    if let Some(i) = iso {
        sc.run = Some((0, i.head));
        sc.picks.truncate(i.tail);
        if !i.keep_order {
            sc.order = 0;
        }
        rec.class("source:generated-cff-isoadobe-prefix-charset");
        rec.class(match i.prefix.min(n - 1) {
            0..=227 => "iso-prefix:shorter-than-228",
            228 => "iso-prefix:exactly-228",
            _ => "iso-prefix:longer-than-228",
        });
        // the class of the ISOAdobe decision: what the subset's charset looks like
        let ids = glyph_list(n, &sc.picks, sc.run, sc.order, sc.seed);
        let sids = i.sids();
        let out_sids: Vec<u16> = ids[1..].iter().filter_map(|g| sids.get(usize::from(*g).wrapping_sub(1)).copied()).collect();
        let lead = out_sids.iter().zip(1u16..).take_while(|(s, k)| **s == *k).count();
        let stays_name_keyed = ids.len() <= 255 || (sc.api != 0 && !sc.convert);
        if sc.order < 3 {
            rec.class(match ids.len() {
                0..=228 => "iso-subset:glyphs<229",
                229 => "iso-subset:glyphs=229",
                230..=255 => "iso-subset:glyphs-230..255",
                _ => "iso-subset:glyphs-256+",
            });
            rec.class(match (lead == out_sids.len(), lead >= ISO_ADOBE_GLYPHS - 1, ids.len() > ISO_ADOBE_GLYPHS) {
                (true, _, false) => "iso-subset:charset-is-leading-part-of-ISOAdobe",
                (_, true, true) if stays_name_keyed => "iso-subset:charset-is-ISOAdobe-plus-more-glyphs(name-keyed-output)",
                (_, true, true) => "iso-subset:charset-is-ISOAdobe-plus-more-glyphs(cid-output)",
                _ => "iso-subset:charset-leaves-ISOAdobe-order-before-228",
            });
        }
    }
    let cff2 = cc.kind == c18::Kind::Cff2;
    let otf = crate::fontgen::cff::build_otf(b.table.clone(), cff2, n, &[]);
    rec.artefact("source", &otf);
    rec.class(match cc.kind {
        c18::Kind::NameKeyed => "source:generated-cff-name-keyed",
        c18::Kind::Cid => "source:generated-cff-cid-keyed",
        c18::Kind::Cff2 => "source:generated-cff2",
    });
    rec.class_if(n > 255, "source:generated-cff>255-glyphs");
    rec.class_if(cc.cuts == 0 && cc.nfrags == 0, "source:generated-cff-without-subroutines");
    check_subset_on("generated-cff", &otf, n, if cff2 { Outline::Cff2 } else { Outline::Cff }, &sc, rec)
}

// ------------------------------------------------------------------------------ whole_font

#[derive(Clone, Debug)]
pub struct WholeCase {
    pub src: u32,
    pub keep: Vec<u8>,
    pub keys: Vec<u32>,
    pub dups: Vec<u32>,
    pub keep_all_required: bool,
}

fn whole_strategy() -> impl Strategy<Value = WholeCase> {
    (
        any::<u32>(),
        proptest::collection::vec(any::<u8>(), 1..32),
        proptest::collection::vec(any::<u32>(), 1..32),
        proptest::collection::vec(any::<u32>(), 0..4),
        proptest::bool::weighted(0.6),
    )
        .prop_map(|(src, keep, keys, dups, keep_all_required)| WholeCase { src, keep, keys, dups, keep_all_required })
}

fn check_whole(c: &WholeCase, rec: &mut Rec) -> CaseResult {
    let srcs: Vec<&Source> = sources().iter().filter(|s| !s.woff2).collect();
    let s = srcs[pick(srcs.len(), c.src)];
    let fd = ReadScope::new(&s.bytes).read::<FontData<'_>>().map_err(|e| fail("harness:source", format!("{}: {:?}", s.rel, e)))?;
    let p = fd.table_provider(0).map_err(|e| fail("harness:source", format!("{}: {:?}", s.rel, e)))?;
    let required = [tag::CMAP, tag::HEAD, tag::MAXP, tag::HHEA, tag::HMTX, tag::GLYF, tag::LOCA, tag::CFF, tag::CFF2, tag::POST, tag::NAME, tag::OS_2];
    let mut tags: Vec<u32> = Vec::new();
    for (i, t) in s.tags.iter().enumerate() {
        let keep = c.keep[i % c.keep.len()] < 200 || (c.keep_all_required && required.contains(t));
        if keep {
            tags.push(*t);
        }
    }
    // permute
    let mut keyed: Vec<(u32, usize, u32)> = tags.iter().enumerate().map(|(i, t)| (c.keys[i % c.keys.len()], i, *t)).collect();
    keyed.sort();
    tags = keyed.into_iter().map(|k| k.2).collect();
    // duplicates
    for d in &c.dups {
        if !tags.is_empty() {
            let t = tags[pick(tags.len(), *d)];
            let at = pick(tags.len() + 1, d.rotate_left(13));
            tags.insert(at, t);
        }
    }
    let what = format!("whole_font({}, {} tags)", s.rel, tags.len());
    let out = match allsorts::subset::whole_font(&p, &tags) {
        Ok(o) => o,
        Err(e) => {
            rec.class("result:Err");
            rec.sample(|| format!("{} -> Err {:?}", what, e));
            return Ok(());
        }
    };
    rec.class("result:Ok");
    let has = |t: u32| tags.contains(&t);
    let outline_ok = match s.outline {
        Outline::Glyf => has(tag::GLYF),
        Outline::Cff => has(tag::CFF),
        Outline::Cff2 => has(tag::CFF2),
        Outline::None => true,
    };
    let loadable = has(tag::CMAP) && has(tag::HHEA) && has(tag::HMTX) && outline_ok && s.codes.is_empty() && (s.axes.is_empty() || has(tag::FVAR));
    rec.class(if loadable { "whole:complete-font" } else { "whole:partial-font" });
    rec.class_if(!c.dups.is_empty(), "whole:duplicate-tags");
    rec.sample(|| format!("{} -> {} bytes", what, out.len()));
    check_output(&out, &what, Origin::WholeFont, Some(s.num_glyphs), &s.codes, loadable, rec)
}

// ------------------------------------------------------------------------------ instance

#[derive(Clone, Debug)]
pub struct InstanceCase {
    pub src: u32,
    pub coords: Vec<(u8, u32)>,
}

fn instance_strategy() -> impl Strategy<Value = InstanceCase> {
    (any::<u32>(), proptest::collection::vec((0u8..8, any::<u32>()), 6)).prop_map(|(src, coords)| InstanceCase { src, coords })
}

fn check_instance(c: &InstanceCase, rec: &mut Rec) -> CaseResult {
    let srcs = variable_sources();
    if srcs.is_empty() {
        return Err(fail("harness:no-variable-fixtures", "no variable fixture fonts found".into()));
    }
    let s = srcs[pick(srcs.len(), c.src)];
    let fd = ReadScope::new(&s.bytes).read::<FontData<'_>>().map_err(|e| fail("harness:source", format!("{}: {:?}", s.rel, e)))?;
    let p = fd.table_provider(0).map_err(|e| fail("harness:source", format!("{}: {:?}", s.rel, e)))?;
    let mut user: Vec<Fixed> = Vec::new();
    let mut kinds = Vec::new();
    for (i, (min, def, max)) in s.axes.iter().enumerate() {
        let (k, r) = c.coords[i % c.coords.len()];
        let span = (*max as i64 - *min as i64).max(0) as u64;
        let inside = (*min as i64 + ((r as u64 * (span + 1)) >> 32) as i64) as i32;
        let v = match k {
            0 => *min,
            1 => *def,
            2 => *max,
            3 => min.saturating_sub((r >> 8) as i32),
            4 => max.saturating_add((r >> 8) as i32),
            5 => (inside >> 16) << 16,
            _ => inside,
        };
        kinds.push(k);
        user.push(Fixed::from_raw(v));
    }
    let what = format!("instance({}, {:?})", s.rel, user.iter().map(|f| f.raw_value() as f64 / 65536.0).collect::<Vec<_>>());
    let (out, _tuple) = match allsorts::variations::instance(&p, &user) {
        Ok(o) => o,
        Err(e) => {
            rec.class("result:Err");
            rec.sample(|| format!("{} -> Err {:?}", what, e));
            return Ok(());
        }
    };
    rec.class("result:Ok");
    rec.class(match s.outline {
        Outline::Cff2 => "instance:CFF2",
        _ => "instance:glyf",
    });
    rec.class_if(kinds.iter().all(|k| *k == 1), "instance:all-default");
    rec.class_if(kinds.iter().any(|k| *k == 3 || *k == 4), "instance:outside-axis-range");
    rec.sample(|| format!("{} -> {} bytes", what, out.len()));
    check_output(&out, &what, Origin::Instance, Some(s.num_glyphs), &s.codes, true, rec)
}


// ------------------------------------------------------------------------------ instances of generated variable fonts

/// C12's generated gvar fonts (simple + composite glyphs with byte/word xy offsets and anchor
/// arguments, HVAR/MVAR/cvar/avar variants) instanced at C12's user tuples; every Ok output goes
/// through the same checks as the fixture `instance` section. The variable font itself and its
/// first instance are also subset with two glyph lists.
fn check_instance_generated(case: &crate::props::c12::Case, rec: &mut Rec) -> CaseResult {
    let (font, users) = crate::props::c12::generated_font_and_users(case);
    rec.artefact("source", &font);
    let src = validate_container(&font);
    let num_glyphs = src.tables.get(b"maxp").and_then(|m| be16(m, 4)).ok_or_else(|| fail("harness:c12-font", "generated variable font has no maxp".into()))?;
    let mask: BTreeSet<&'static str> = validate_tables(&src.tables, Opts { exact_sizes: false, charstrings: false }).issues.iter().map(|i| i.code).collect();
    rec.class_if(!mask.is_empty(), "instance-generated:source-raises-validator-codes");
    let fd = ReadScope::new(&font).read::<FontData<'_>>().map_err(|e| fail("harness:c12-font", format!("{:?}", e)))?;
    let p = fd.table_provider(0).map_err(|e| fail("harness:c12-font", format!("{:?}", e)))?;
    let mut first_ok: Option<Vec<u8>> = None;
    let mut oks = 0u64;
    for (ui, user) in users.iter().enumerate() {
        let tuple: Vec<Fixed> = user.iter().map(|v| Fixed::from_raw(*v)).collect();
        let what = format!("instance(generated gvar font, {} glyphs, tuple {} = {:?})", num_glyphs, ui, user.iter().map(|v| *v as f64 / 65536.0).collect::<Vec<_>>());
        match allsorts::variations::instance(&p, &tuple) {
            Ok((out, _)) => {
                oks += 1;
                check_output(&out, &what, Origin::Instance, Some(num_glyphs), &mask, true, rec)?;
                if first_ok.is_none() && ui > 0 {
                    first_ok = Some(out);
                }
            }
            Err(e) => {
                rec.class("instance-generated:Err");
                rec.sample(|| format!("{} -> Err {:?}", what, e));
            }
        }
    }
    rec.class(if oks == users.len() as u64 { "instance-generated:all-tuples-Ok" } else { "instance-generated:some-tuples-Err" });
    // subsets of the variable font and of one instance
    let all: Vec<u16> = (0..num_glyphs).collect();
    let mut some: Vec<u16> = vec![0];
    some.extend((1..num_glyphs).rev().step_by(2));
    let empty = BTreeSet::new();
    let mut subset_of = |bytes: &[u8], name: &str, rec: &mut Rec| -> CaseResult {
        let fd = ReadScope::new(bytes).read::<FontData<'_>>().map_err(|e| fail("self-load", format!("{}: {:?}", name, e)))?;
        let p = fd.table_provider(0).map_err(|e| fail("self-load", format!("{}: {:?}", name, e)))?;
        for ids in [&all, &some] {
            let what = format!("subset({}, {:?})", name, ids);
            match allsorts::subset::subset(&p, ids) {
                Ok(out) => {
                    oks += 1;
                    check_output(&out, &what, Origin::Subset, None, &empty, true, rec)?;
                    rec.class("instance-generated:subset-Ok");
                }
                Err(_) => rec.class("instance-generated:subset-Err"),
            }
        }
        Ok(())
    };
    subset_of(&font, "generated gvar font", rec)?;
    if let Some(inst) = &first_ok {
        subset_of(inst, "instance of generated gvar font", rec)?;
    }
    rec.evaluations(oks.saturating_sub(1));
    rec.hash_bytes(&font);
    Ok(())
}

// ------------------------------------------------------------------------------ WOFF2 tables

fn check_woff2_tables(i: u64, rec: &mut Rec) -> CaseResult {
    let files = fixtures::list("fonts/woff2", &["woff2"], 1 << 21);
    let Some(rel) = files.get(i as usize) else { return Ok(()) };
    let Some(bytes) = fixtures::read(rel) else { return Ok(()) };
    let fd = ReadScope::new(&bytes).read::<FontData<'_>>().map_err(|e| fail("harness:source", format!("{}: {:?}", rel, e)))?;
    let members = match &fd {
        FontData::Woff2(w) => w.collection_directory.as_ref().map(|d| d.fonts().count()).unwrap_or(1),
        _ => 1,
    };
    for m in 0..members {
        let what = format!("woff2 tables of {} member {}", rel, m);
        let p = fd.table_provider(m).map_err(|e| fail("woff2-provider", format!("{}: {:?}", what, e)))?;
        let tables = provider_tables(&p).ok_or_else(|| fail("woff2-provider", format!("{}: no tag list", what)))?;
        let trep = validate_tables(&as_refs(&tables), Opts { exact_sizes: false, charstrings: true });
        if let Some(i) = trep.issues.first() {
            return Err(fail(&format!("tables:{}", i.code), format!("{}: {}", what, i.msg)));
        }
        // the reconstructed tables assembled into a file by my own encoder must load
        let list: Vec<(Tag, Vec<u8>)> = tables.iter().map(|(k, v)| (*k, v.clone())).collect();
        let flavour = if tables.contains_key(b"CFF ") || tables.contains_key(b"CFF2") { 0x4F54_544F } else { 0x0001_0000 };
        let file = crate::fontgen::sfnt::build_sfnt(flavour, &list);
        self_load_file(&file, &what, trep.num_glyphs, tables.contains_key(b"cmap"), false)?;
        load_glyphs(&p, &what, trep.num_glyphs, false)?;
        rec.class_if(tables.contains_key(b"glyf"), "woff2:glyf");
        rec.class_if(tables.contains_key(b"CFF "), "woff2:CFF");
    }
    rec.set_nontrivial(true);
    rec.hash_bytes(&bytes);
    rec.evaluations(members as u64);
    Ok(())
}

/// sanity of the reference: what the validators say about the fixtures themselves (never a failure)
fn check_fixture_sanity(i: u64, rec: &mut Rec) -> CaseResult {
    let srcs = sources();
    let Some(s) = srcs.get(i as usize) else { return Ok(()) };
    rec.class(if s.codes.is_empty() { "fixture:tables-valid" } else { "fixture:tables-have-issues" });
    for c in &s.codes {
        rec.class(&format!("fixture-issue:{}", c));
    }
    for c in &s.container_codes {
        rec.class(&format!("fixture-container-issue:{}", c));
    }
    rec.sample(|| format!("{}: {} glyphs, {:?}, axes {}, issues {:?} / {:?}", s.rel, s.num_glyphs, s.outline, s.axes.len(), s.codes, s.container_codes));
    rec.set_nontrivial(true);
    rec.hash_bytes(s.rel.as_bytes());
    Ok(())
}



// ------------------------------------------------------------------------------ generated WOFF2

mod w2gen {
    //! Tables reconstructed by the WOFF2 provider from *generated* WOFF2 files (font models and
    //! builders of C11, `fontgen::woff2` encoder): mutual consistency of head / maxp / hhea /
    //! hmtx / loca / glyf through the independent validator, plus self-load.
    use super::*;
    use crate::fontgen::basic;
    use crate::fontgen::glyfgen::{self as gg, Glyph, Simple};
    use crate::fontgen::woff2 as w2;
    use crate::props::c11::{self, Built, DKind, DTable, Group, Member};

    pub const KNOWN_HMTX_SIG: &str = "C11:hmtx-lsb-array-not-skipping-long-metrics";
    const TTCF: u32 = 0x7474_6366;

    #[derive(Clone, Debug)]
    pub struct EncOpts {
        /// per glyph group: 0 = null transform, else transform 0
        pub glyf_xform: Vec<u8>,
        /// per hmtx table: wanted flag bits (masked by what is legal for the metrics)
        pub hmtx_want: Vec<u8>,
        pub order: Vec<u16>,
        pub choices: Vec<u8>,
        pub bbox_choose: bool,
        pub v2: bool,
        pub chunk: u32,
    }

    pub fn enc_strategy() -> impl Strategy<Value = EncOpts> {
        (
            proptest::collection::vec(prop_oneof![1 => Just(0u8), 3 => Just(1u8)], 3),
            proptest::collection::vec(0u8..4, 3),
            proptest::collection::vec(any::<u16>(), 0..6),
            proptest::collection::vec(any::<u8>(), 0..16),
            any::<bool>(),
            any::<bool>(),
            prop_oneof![Just(65536u32), 64u32..5000, Just(1u32 << 20)],
        )
            .prop_map(|(glyf_xform, hmtx_want, order, choices, bbox_choose, v2, chunk)| EncOpts { glyf_xform, hmtx_want, order, choices, bbox_choose, v2, chunk })
    }

    pub struct Plan {
        pub group_xf: Vec<bool>,
        /// per dtable
        pub hmtx_flags: Vec<u8>,
    }

    pub fn plan(b: &Built, e: &EncOpts) -> Plan {
        let group_xf: Vec<bool> = (0..b.groups.len()).map(|g| e.glyf_xform[g % e.glyf_xform.len()] != 0).collect();
        let mut hmtx_flags = vec![0u8; b.dtables.len()];
        let mut k = 0;
        for (i, t) in b.dtables.iter().enumerate() {
            if let DKind::Hmtx { group: Some(g), legal, .. } = &t.kind {
                let want = e.hmtx_want[k % e.hmtx_want.len()];
                k += 1;
                // hmtx is only transformed together with glyf (the transform needs the glyph boxes)
                if group_xf[*g] {
                    hmtx_flags[i] = want & legal;
                }
            }
        }
        Plan { group_xf, hmtx_flags }
    }

    pub fn encode(b: &Built, p: &Plan, e: &EncOpts) -> Vec<u8> {
        let mut ch = w2::Choices::new(&e.choices);
        let mut st = w2::XStats::new();
        let policy = if e.bbox_choose { w2::BboxPolicy::Choose } else { w2::BboxPolicy::ElideWhenEqual };
        // directory order: by generated keys, every loca directly behind its glyf
        let mut idx: Vec<usize> = (0..b.dtables.len()).collect();
        if !e.order.is_empty() {
            idx.sort_by_key(|i| (e.order[i % e.order.len()].wrapping_mul(*i as u16 + 1), *i));
        }
        let mut order = Vec::with_capacity(idx.len());
        for i in idx {
            match b.dtables[i].kind {
                DKind::Loca(_) => {}
                DKind::Glyf(g) => {
                    order.push(i);
                    if let Some(l) = b.dtables.iter().position(|t| matches!(t.kind, DKind::Loca(x) if x == g)) {
                        order.push(l);
                    }
                }
                _ => order.push(i),
            }
        }
        let mut dir_pos = vec![0u16; b.dtables.len()];
        let mut tabs = Vec::with_capacity(order.len());
        for (pos, &i) in order.iter().enumerate() {
            dir_pos[i] = pos as u16;
            let t = &b.dtables[i];
            let et = match &t.kind {
                DKind::Plain => w2::EncTable::plain(t.tag, &t.data, false),
                DKind::Glyf(g) if p.group_xf[*g] => {
                    let grp = &b.groups[*g];
                    let data = w2::transform_glyf(&grp.glyphs, if grp.long { 1 } else { 0 }, policy, None, &mut ch, &mut st);
                    w2::EncTable::transformed(t.tag, 0, t.data.len() as u32, data, false)
                }
                DKind::Loca(g) if p.group_xf[*g] => w2::EncTable::transformed(t.tag, 0, t.data.len() as u32, Vec::new(), false),
                DKind::Glyf(_) | DKind::Loca(_) => w2::EncTable::plain(t.tag, &t.data, false),
                DKind::Hmtx { metrics, nhm, .. } => {
                    if p.hmtx_flags[i] != 0 {
                        w2::EncTable::transformed(t.tag, 1, t.data.len() as u32, w2::transform_hmtx(metrics, *nhm, p.hmtx_flags[i]), false)
                    } else {
                        w2::EncTable::plain(t.tag, &t.data, false)
                    }
                }
            };
            tabs.push(et);
        }
        let total: usize = tabs.iter().map(|t| t.data.len()).sum();
        let opts = w2::ContainerOpts {
            brotli: w2::BrotliOpts { wbits: 16, chunks: vec![if total > 8192 { e.chunk.max(64) } else { e.chunk.max(1) }], meta_every: 0, meta_skip: 0 },
            major: 1,
            minor: 0,
            metadata: None,
            private: Vec::new(),
        };
        if b.members.len() == 1 {
            w2::encode_woff2(b.members[0].flavour, &tabs, None, &opts, &mut ch, &mut st)
        } else {
            let fonts = b
                .members
                .iter()
                .map(|m| {
                    let mut idx: Vec<u16> = m.tables.iter().map(|t| dir_pos[*t]).collect();
                    idx.sort_by_key(|i| b.dtables[order[*i as usize]].tag);
                    (m.flavour, idx)
                })
                .collect();
            let col = w2::EncCollection { version: if e.v2 { 0x0002_0000 } else { 0x0001_0000 }, fonts };
            w2::encode_woff2(TTCF, &tabs, Some(&col), &opts, &mut ch, &mut st)
        }
    }

    /// Validate what the provider delivers for every member of the generated file.
    pub fn check_delivered(b: &Built, p: &Plan, bytes: &[u8], what: &str, rec: &mut Rec) -> CaseResult {
        rec.artefact("woff2", bytes);
        rec.hash_bytes(bytes);
        let fd = ReadScope::new(bytes).read::<FontData<'_>>().map_err(|e| fail("woff2-generated:read", format!("{}: FontData::read of a conforming generated WOFF2: {:?}", what, e)))?;
        let mut known: Option<Fail> = None;
        for (mi, m) in b.members.iter().enumerate() {
            let who = format!("{} member {}", what, mi);
            let prov = fd.table_provider(mi).map_err(|e| fail("woff2-generated:provider", format!("{}: table_provider: {:?}", who, e)))?;
            let mut tables = provider_tables(&prov).ok_or_else(|| fail("woff2-generated:provider", format!("{}: no tag list", who)))?;
            // the CFF flavoured members of the C11 model carry placeholder bytes, not a CFF table
            tables.remove(b"CFF ");
            // members of a generated collection may share one cmap although their glyph counts differ
            // (model artefact); this section is about head/maxp/hhea/hmtx/loca/glyf
            if b.members.len() > 1 {
                tables.remove(b"cmap");
            }
            let hm_i = m.tables.iter().copied().find(|t| matches!(b.dtables[*t].kind, DKind::Hmtx { .. }));
            let (flags, nhm, nglyphs) = match hm_i.map(|t| (&b.dtables[t].kind, t)) {
                Some((DKind::Hmtx { metrics, nhm, .. }, t)) => (p.hmtx_flags[t], *nhm, metrics.len()),
                _ => (0, 0, 0),
            };
            let trep = validate_tables(&as_refs(&tables), Opts { exact_sizes: true, charstrings: false });
            for i in &trep.issues {
                match i.code {
                    // the model places arbitrary component ids (self references included)
                    "glyf:component-cycle" => rec.class("w2gen:model-has-component-cycle"),
                    "hmtx:too-long"
                        if flags & w2::HMTX_NO_MONOSPACE_LSB != 0
                            && tables.get(b"hmtx").map(|h| h.len()) == Some(4 * nhm + 2 * (nglyphs - nhm) + 2 * nhm) =>
                    {
                        // known finding of C11 (defect model: lsb array rebuilt from glyph 0 instead of
                        // glyph numberOfHMetrics): exactly 2 * numberOfHMetrics bytes too long, flag bit 1 set
                        known.get_or_insert(Fail::new(KNOWN_HMTX_SIG, format!("{}: hmtx flags {:#04b}, numberOfHMetrics {}, numGlyphs {}: {}", who, flags, nhm, nglyphs, i.msg)));
                    }
                    _ => return Err(fail(&format!("woff2-generated:{}", i.code), format!("{}: {}", who, i.msg))),
                }
            }
            if trep.num_glyphs.map(usize::from) != Some(nglyphs) {
                return Err(fail("woff2-generated:num-glyphs", format!("{}: maxp.numGlyphs {:?}, model has {}", who, trep.num_glyphs, nglyphs)));
            }
            // self-load: advances of every glyph, outlines of every non-composite glyph
            let glyphs = m.group.map(|g| &b.groups[g].glyphs);
            if tables.contains_key(b"fvar") {
                // the model's extra tables carry arbitrary bytes; Font::new parses fvar eagerly, so
                // a font with an (arbitrary) extra table under that tag is not expected to load
                rec.class("woff2-generated:self-load-skipped(arbitrary fvar table)");
                continue;
            }
            let mut font = Font::new(prov).map_err(|e| fail("woff2-generated:self-load", format!("{}: Font::new: {:?}", who, e)))?;
            let n = font.num_glyphs();
            for g in 0..n {
                if font.horizontal_advance(g).is_none() {
                    return Err(fail("woff2-generated:self-load", format!("{}: horizontal_advance({}) of {} is None", who, g, n)));
                }
            }
            if let Some(glyphs) = glyphs {
                let p2 = &font.font_table_provider;
                let rd = |t: u32| p2.read_table_data(t).map_err(|e| fail("woff2-generated:self-load", format!("{}: table {:08X}: {:?}", who, t, e)));
                let head_d = rd(tag::HEAD)?;
                let head = ReadScope::new(&head_d).read::<HeadTable>().map_err(|e| fail("woff2-generated:self-load", format!("{}: head: {:?}", who, e)))?;
                let loca_d = rd(tag::LOCA)?;
                let loca = ReadScope::new(&loca_d)
                    .read_dep::<LocaTable<'_>>((usize::from(n), head.index_to_loc_format))
                    .map_err(|e| fail("woff2-generated:self-load", format!("{}: loca: {:?}", who, e)))?;
                let glyf_d = rd(tag::GLYF)?;
                let mut glyf = ReadScope::new(&glyf_d).read_dep::<GlyfTable<'_>>(&loca).map_err(|e| fail("woff2-generated:self-load", format!("{}: glyf: {:?}", who, e)))?;
                let mut sink = CountSink(0);
                let step = (glyphs.len() / 400).max(1);
                for (g, gl) in glyphs.iter().enumerate().step_by(step) {
                    // an empty contour is refused by the outline visitor (documented limitation), and
                    // composites of the model may be cyclic
                    let visit = match gl {
                        Glyph::Simple(s) => s.contours.iter().all(|c| !c.is_empty()),
                        Glyph::Empty | Glyph::EmptyHeader => true,
                        Glyph::Composite(_) => false,
                    };
                    if visit {
                        glyf.visit(g as u16, &mut sink).map_err(|e| fail("woff2-generated:self-load", format!("{}: outline of glyph {} of {}: {:?}", who, g, n, e)))?;
                    }
                }
            }
            rec.class(match (m.group, m.group.map(|g| p.group_xf[g])) {
                (None, _) => "w2gen:no-glyf",
                (_, Some(true)) => "w2gen:glyf-transformed",
                _ => "w2gen:glyf-null-transform",
            });
            rec.class(&format!("w2gen:hmtx-flags={}", flags));
            if let (Some(h), Some(g)) = (tables.get(b"head"), m.group) {
                let src_long = b.groups[g].long;
                let out_long = h.get(51) == Some(&1);
                rec.class(match (src_long, out_long) {
                    (false, false) => "w2gen:loca short->short",
                    (false, true) => "w2gen:loca short->long (decoder switched)",
                    (true, true) => "w2gen:loca long->long",
                    (true, false) => "w2gen:loca long->short",
                });
            }
        }
        rec.class(if b.members.len() > 1 { "w2gen:collection" } else { "w2gen:single" });
        rec.evaluations(b.members.len() as u64 - 1);
        match known {
            Some(f) => Err(f),
            None => Ok(()),
        }
    }

    pub fn check_generated(c: &(c11::Case, EncOpts), rec: &mut Rec) -> CaseResult {
        let (case, e) = c;
        let b = c11::build(case);
        let p = plan(&b, e);
        let bytes = encode(&b, &p, e);
        rec.set_nontrivial(p.group_xf.iter().any(|x| *x));
        rec.sample(|| format!("generated WOFF2: {} bytes, {} member(s), glyph counts {:?}, glyf xform {:?}", bytes.len(), b.members.len(), b.groups.iter().map(|g| g.glyphs.len()).collect::<Vec<_>>(), p.group_xf));
        check_delivered(&b, &p, &bytes, "generated WOFF2", rec)
    }

    // ---- large fonts around the short/long loca boundary

    fn push(b: &mut Built, tag: Tag, data: Vec<u8>, kind: DKind) -> usize {
        b.dtables.push(DTable { tag, data, kind });
        b.dtables.len() - 1
    }

    /// one staircase contour of `npts` points, all deltas small and positive: the compact source
    /// encoding needs 2 bytes per point, a decoder writing 16-bit deltas needs 5
    fn stair(npts: usize, instr: usize) -> Glyph {
        let pts: Vec<(i16, i16, bool)> = (0..npts).map(|k| (3 + 7 * k as i16, 2 + 5 * k as i16, true)).collect();
        let mut s = Simple { contours: vec![pts], instructions: (0..instr).map(|i| i as u8).collect(), bbox: (0, 0, 0, 0) };
        s.bbox = s.computed_bbox();
        Glyph::Simple(s)
    }

    /// a font of `n` staircase glyphs; the last one carries `extra` instruction bytes
    fn big_font(n: usize, npts: usize, extra: usize, long: bool, nhm_all: bool, sibling: bool) -> Option<Built> {
        let mut glyphs: Vec<Glyph> = (0..n).map(|_| stair(npts, 0)).collect();
        glyphs[n - 1] = stair(npts, extra);
        let styles = vec![gg::STYLE_SHORT | gg::STYLE_SAME | gg::STYLE_REPEAT; n];
        let (glyf, loca) = gg::encode_glyf_loca(&glyphs, &styles, long, 2);
        if !long && glyf.len() > 131_070 {
            return None;
        }
        let nhm = if nhm_all { n } else { (n / 3).max(1) };
        let metrics: Vec<(u16, i16)> = glyphs.iter().enumerate().map(|(i, g)| (if i < nhm { 500 + (i % 7) as u16 } else { 500 + ((nhm - 1) % 7) as u16 }, g.x_min())).collect();
        let mut b = Built::default();
        b.groups.push(Group { glyphs, long, glyf: glyf.clone(), loca: loca.clone() });
        let mut cmap = BTreeMap::new();
        cmap.insert(0x41u16, 1u16.min(n as u16 - 1));
        let mut tables = vec![
            push(&mut b, *b"head", basic::head(1000, long, (0, -200, 1000, 800)), DKind::Plain),
            push(&mut b, *b"hhea", basic::hhea(800, -200, 506, nhm as u16), DKind::Plain),
            push(&mut b, *b"maxp", basic::maxp_v1(n as u16), DKind::Plain),
            push(&mut b, *b"cmap", basic::cmap_table(&[(3, 1, basic::cmap_format4(&cmap))]), DKind::Plain),
            push(&mut b, *b"name", basic::name_minimal(), DKind::Plain),
            push(&mut b, *b"OS/2", basic::os2_v4(0x41, 0x41, 400), DKind::Plain),
            push(&mut b, *b"post", basic::post_v3(), DKind::Plain),
        ];
        tables.push(push(&mut b, *b"hmtx", basic::hmtx(&metrics, nhm as u16), DKind::Hmtx { group: Some(0), metrics: metrics.clone(), nhm, legal: 3 }));
        tables.push(push(&mut b, *b"glyf", glyf, DKind::Glyf(0)));
        tables.push(push(&mut b, *b"loca", loca, DKind::Loca(0)));
        let base = Member { flavour: 0x0001_0000, tables: tables.clone(), group: Some(0) };
        b.members.push(base);
        if sibling {
            // a second member sharing everything but hhea/hmtx (all glyphs have long metrics)
            let mut t2: Vec<usize> = tables.iter().copied().filter(|t| &b.dtables[*t].tag != b"hmtx" && &b.dtables[*t].tag != b"hhea").collect();
            let m2: Vec<(u16, i16)> = metrics.iter().map(|m| (m.0 + 11, m.1)).collect();
            t2.push(push(&mut b, *b"hhea", basic::hhea(800, -200, 517, n as u16), DKind::Plain));
            t2.push(push(&mut b, *b"hmtx", basic::hmtx(&m2, n as u16), DKind::Hmtx { group: Some(0), metrics: m2, nhm: n, legal: 3 }));
            b.members.push(Member { flavour: 0x0001_0000, tables: t2, group: Some(0) });
        }
        Some(b)
    }

    /// rebuilt glyf sizes to aim at: far below, straddling 131 070 / 131 072, far above
    const TARGETS: [usize; 11] = [100_000, 131_040, 131_066, 131_068, 131_070, 131_072, 131_074, 131_076, 131_104, 160_000, 199_998];
    /// (source loca long, glyf transformed, hmtx flags wanted, all glyphs long metrics, sibling member)
    const VARIANTS: [(bool, bool, u8, bool, bool); 6] = [
        (false, true, 0, true, false),
        (false, true, 1, true, false),
        (false, true, 1, false, true),
        (true, true, 1, true, false),
        (false, true, 3, false, false),
        (false, false, 0, true, false),
    ];
    pub const BIG_ITEMS: u64 = (TARGETS.len() * VARIANTS.len()) as u64;

    fn delivered_glyf_len(b: &Built, p: &Plan, e: &EncOpts) -> Result<usize, Fail> {
        let bytes = encode(b, p, e);
        let fd = ReadScope::new(&bytes).read::<FontData<'_>>().map_err(|e| fail("woff2-generated:read", format!("probe font: {:?}", e)))?;
        let prov = fd.table_provider(0).map_err(|e| fail("woff2-generated:provider", format!("probe font: {:?}", e)))?;
        let g = prov.read_table_data(tag::GLYF).map_err(|e| fail("woff2-generated:provider", format!("probe font glyf: {:?}", e)))?;
        Ok(g.len())
    }

    pub fn check_big(item: u64, rec: &mut Rec) -> CaseResult {
        let target = TARGETS[item as usize % TARGETS.len()];
        let (long, xform, hmtx_want, nhm_all, sibling) = VARIANTS[item as usize / TARGETS.len() % VARIANTS.len()];
        let e = EncOpts { glyf_xform: vec![xform as u8], hmtx_want: vec![hmtx_want], order: vec![], choices: vec![], bbox_choose: false, v2: item % 2 == 1, chunk: 65536 };
        const NPTS: usize = 24;
        // how many bytes does the decoder write per glyph? (measured on a small probe font; the
        // value only steers the generator)
        let per_glyph = {
            let probe = big_font(64, NPTS, 0, long, true, false).ok_or_else(|| fail("harness:w2gen", "probe font too large".into()))?;
            let pp = plan(&probe, &e);
            let l = delivered_glyf_len(&probe, &pp, &e)?;
            if l % 64 != 0 || l == 0 {
                return Err(fail("harness:w2gen", format!("probe font: delivered glyf of {} bytes is not 64 equal records", l)));
            }
            l / 64
        };
        let n = target / per_glyph;
        let extra = target - n * per_glyph;
        let b = match big_font(n, NPTS, extra, long, nhm_all, sibling) {
            Some(b) => b,
            None => {
                rec.class("w2gen-big:source-does-not-fit-short-loca (skipped)");
                return Ok(());
            }
        };
        let p = plan(&b, &e);
        let bytes = encode(&b, &p, &e);
        let what = format!("generated WOFF2 with {} glyphs (source glyf {} bytes, loca {}, glyf {}, hmtx flags {:#04b}{})", n, b.groups[0].glyf.len(), if long { "long" } else { "short" }, if xform { "transformed" } else { "null transform" }, p.hmtx_flags.iter().copied().max().unwrap_or(0), if sibling { ", 2 members" } else { "" });
        // classify by the size the decoder actually delivered
        let got_len = {
            let fd = ReadScope::new(&bytes).read::<FontData<'_>>().map_err(|e| fail("woff2-generated:read", format!("{}: {:?}", what, e)))?;
            let prov = fd.table_provider(0).map_err(|e| fail("woff2-generated:provider", format!("{}: {:?}", what, e)))?;
            prov.read_table_data(tag::GLYF).map(|g| g.len()).unwrap_or(0)
        };
        rec.class(match got_len {
            0..=131_069 => "w2gen-big:delivered-glyf<131070",
            131_070 => "w2gen-big:delivered-glyf=131070",
            131_071 => "w2gen-big:delivered-glyf=131071",
            131_072 => "w2gen-big:delivered-glyf=131072",
            131_073..=131_200 => "w2gen-big:delivered-glyf 131073..131200",
            _ => "w2gen-big:delivered-glyf>131200",
        });
        rec.class_if(xform && got_len != target, "w2gen-big:target-size-missed");
        rec.set_nontrivial(xform && !long && got_len > 100_000);
        rec.sample(|| format!("{} -> delivered glyf {} bytes (target {})", what, got_len, target));
        check_delivered(&b, &p, &bytes, &what, rec)
    }
}

// ------------------------------------------------------------------------------ validator self-test

/// The validator must accept a canonical font built by my encoders and must raise the expected
/// code for each deliberate corruption (guards the oracle itself).
fn check_validator_selftest(i: u64, rec: &mut Rec) -> CaseResult {
    use crate::fontgen::container::{encode_sfnt, Blob, Member, Model, SfntLayout};
    let mut f = BasicFont::with_glyphs(7);
    f.glyph_records[5] = composite_glyph(&[(1, 10, 10), (2, -200, 300)], None, None);
    f.glyph_records[6] = Vec::new();
    f.glyph_records[3] = {
        let mut g = SimpleGlyph::rect(0, 0, 300, 300);
        g.instructions = vec![1, 2, 3];
        glyf_simple(&g)
    };
    f.num_h_metrics = 4;
    f.cmap.insert(0x41, 1);
    f.cmap.insert(0x42, 2);
    f.cmap.insert(0x10000, 3);
    f.extra.push((*b"cvt ", vec![0, 1, 0, 2, 0, 3]));
    f.extra.push((*b"prep", vec![7; 5]));
    let base = f.build();
    let tables: BTreeMap<Tag, Vec<u8>> = f.tables().into_iter().collect();
    let sf = |m: String| fail("validator-selftest", m);
    let container_codes = |b: &[u8]| -> Vec<&'static str> { validate_container(b).issues.iter().map(|i| i.code).collect() };
    let table_codes = |t: &BTreeMap<Tag, Vec<u8>>| -> Vec<&'static str> { validate_tables(&as_refs(t), Opts::default()).issues.iter().map(|i| i.code).collect() };
    let dir = crate::fontgen::sfnt::parse_directory(&base).ok_or_else(|| sf("base font has no directory".into()))?.1;
    let entry = |t: &[u8; 4]| dir.iter().find(|e| &e.tag == t).cloned().unwrap();
    let expect = |codes: Vec<&'static str>, want: &str, what: &str| -> CaseResult {
        if codes.iter().any(|c| *c == want) {
            Ok(())
        } else {
            Err(sf(format!("corruption '{}' should raise {}, validator raised {:?}", what, want, codes)))
        }
    };
    // cmap subtable offsets
    let cmap = &tables[b"cmap"];
    let sub = |k: usize| be32(cmap, 4 + 8 * k + 4).unwrap() as usize;
    rec.set_nontrivial(true);
    rec.hash_u64(i);
    match i {
        0 => {
            let c = container_codes(&base);
            let t = table_codes(&tables);
            if !c.is_empty() || !t.is_empty() {
                return Err(sf(format!("canonical generated font is not accepted: container {:?}, tables {:?}", c, t)));
            }
            Ok(())
        }
        1 => {
            let mut b = base.clone();
            let e = entry(b"hmtx");
            b[e.offset as usize + 1] ^= 0x40;
            let c = container_codes(&b);
            expect(c.clone(), "table:checksum", "byte flipped in hmtx")?;
            expect(c, "head:checksum-adjustment", "byte flipped in hmtx")
        }
        2 => {
            let mut b = base.clone();
            b[7] = b[7].wrapping_add(16);
            expect(container_codes(&b), "dir:search-range", "searchRange + 16")
        }
        3 => {
            let mut b = base.clone();
            let (a0, a1) = (12usize, 28usize);
            for k in 0..16 {
                b.swap(a0 + k, a1 + k);
            }
            expect(container_codes(&b), "dir:not-sorted", "first two records swapped")
        }
        4 => {
            let mut b = base.clone();
            let e = dir.iter().find(|e| e.length % 4 != 0).cloned().ok_or_else(|| sf("no odd-length table".into()))?;
            b[(e.offset + e.length) as usize] = 1;
            expect(container_codes(&b), "table:padding-nonzero", "padding byte set to 1")
        }
        5 => {
            let last = dir.iter().max_by_key(|e| e.offset).cloned().unwrap();
            if last.length % 4 == 0 {
                return Err(sf("last table of the base font needs no padding; adjust the self-test font".into()));
            }
            let b = &base[..base.len() - 1];
            expect(container_codes(b), "table:padding-missing", "last padding byte removed")
        }
        6 | 7 | 8 => {
            let pool: Vec<Blob> = tables.iter().map(|(t, d)| Blob { tag: *t, data: d.clone(), within: None }).collect();
            let model = Model { members: vec![Member { flavour: 0x0001_0000, tables: (0..pool.len()).collect() }], pool };
            let mut lay = SfntLayout::canonical();
            let want = match i {
                6 => {
                    lay.aligned = false;
                    "table:unaligned"
                }
                7 => {
                    lay.gaps = vec![4];
                    lay.gap_fill = 0xAA;
                    "gap:nonzero"
                }
                _ => {
                    lay.sorted_dir = false;
                    lay.dir_keys = vec![5, 1, 4, 2, 3];
                    "dir:not-sorted"
                }
            };
            let enc = encode_sfnt(&model, &lay, false);
            expect(container_codes(&enc.bytes), want, "free-layout encoder")
        }
        9 => {
            // two records pointing at one byte range
            let mut b = base.clone();
            let (a, c) = (entry(b"cvt "), entry(b"prep"));
            let at = c.record_at;
            b[at + 8..at + 12].copy_from_slice(&a.offset.to_be_bytes());
            expect(container_codes(&b), "table:overlap", "prep record points at the cvt data")
        }
        10 => {
            let mut t = tables.clone();
            t.get_mut(b"maxp").unwrap()[5] += 1;
            let c = table_codes(&t);
            expect(c.clone(), "loca:too-short", "maxp.numGlyphs + 1")?;
            expect(c, "hmtx:too-short", "maxp.numGlyphs + 1")
        }
        11 => {
            let mut t = tables.clone();
            let l = t.get_mut(b"loca").unwrap();
            let (a, b) = (be16(l, 2).unwrap(), be16(l, 4).unwrap());
            l[2..4].copy_from_slice(&b.to_be_bytes());
            l[4..6].copy_from_slice(&a.to_be_bytes());
            expect(table_codes(&t), "loca:not-monotonic", "loca entries 1 and 2 swapped")
        }
        12 | 13 => {
            let mut f2 = f.clone();
            f2.glyph_records[5] = composite_glyph(&[(if i == 12 { 999 } else { 5 }, 0, 0)], None, None);
            let t: BTreeMap<Tag, Vec<u8>> = f2.tables().into_iter().collect();
            expect(table_codes(&t), if i == 12 { "glyf:component-out-of-range" } else { "glyf:component-cycle" }, "component id 999 / self reference")
        }
        14 => {
            let mut f2 = f.clone();
            let l = f2.glyph_records[2].len();
            f2.glyph_records[2].truncate(l - 4);
            let t: BTreeMap<Tag, Vec<u8>> = f2.tables().into_iter().collect();
            expect(table_codes(&t), "glyf:glyph-malformed", "simple glyph truncated by 4 bytes")
        }
        15 => {
            let mut t = tables.clone();
            let c = t.get_mut(b"cmap").unwrap();
            // format 4 subtable: endCode array starts at +14; make the last endCode 0xFFFE
            let s4 = sub(0);
            let sc = be16(c, s4 + 6).unwrap() as usize / 2;
            c[s4 + 14 + 2 * (sc - 1) + 1] = 0xFE;
            expect(table_codes(&t), "cmap4:last-end-code", "last endCode 0xFFFE")
        }
        16 => {
            let mut t = tables.clone();
            let c = t.get_mut(b"cmap").unwrap();
            let s4 = sub(0);
            c[s4 + 9] ^= 0x02; // searchRange
            expect(table_codes(&t), "cmap4:search-fields", "format 4 searchRange changed")
        }
        17 => {
            let mut t = tables.clone();
            let c = t.get_mut(b"cmap").unwrap();
            let s12 = sub(1);
            if be16(c, s12) != Some(12) {
                return Err(sf("second cmap subtable of the base font is not format 12".into()));
            }
            // first group: start glyph id := 200
            c[s12 + 16 + 8 + 3] = 200;
            expect(table_codes(&t), "cmap:gid-out-of-range", "format 12 start glyph 200 of 7")
        }
        18 => {
            let mut t = tables.clone();
            let c = t.get_mut(b"cmap").unwrap();
            let s12 = sub(1);
            let n = be32(c, s12 + 12).unwrap() as usize;
            if n < 2 {
                return Err(sf("format 12 subtable of the base font has fewer than 2 groups".into()));
            }
            for k in 0..12 {
                c.swap(s12 + 16 + k, s12 + 28 + k);
            }
            expect(table_codes(&t), "cmap12:groups-unordered", "first two groups swapped")
        }
        19 => {
            let mut t = tables.clone();
            t.get_mut(b"post").unwrap().push(0);
            expect(table_codes(&t), "post:length", "post 3.0 of 33 bytes")
        }
        20 => {
            let mut t = tables.clone();
            t.get_mut(b"hhea").unwrap()[35] = 8;
            expect(table_codes(&t), "hhea:num-h-metrics>num-glyphs", "numberOfHMetrics 8 of 7")
        }
        21 => {
            let mut t = tables.clone();
            t.get_mut(b"head").unwrap()[51] = 2;
            expect(table_codes(&t), "head:index-to-loc-format", "indexToLocFormat 2")
        }
        22 => {
            let mut t = tables.clone();
            t.get_mut(b"hmtx").unwrap().push(0);
            t.get_mut(b"hmtx").unwrap().push(0);
            expect(table_codes(&t), "hmtx:too-long", "hmtx with one extra bearing")
        }
        _ => Ok(()),
    }
}
const SELFTEST_ITEMS: u64 = 23;

impl Property for C09 {
    fn id(&self) -> &'static str {
        "C09"
    }
    fn rule(&self) -> String {
        "Writers exercised: subset::subset and subset::prince::subset (Unrestricted / MacRoman / Omit / supplied MacRoman array, with and without CID conversion) with generated glyph lists \
         (glyph 0 first, distinct ids, individual picks plus contiguous runs of up to 420 glyphs, sorted / reversed / shuffled) on every fixture font <= 470 kB (TrueType, CFF, CFF2, variable, WOFF and WOFF2 providers; the 2 MB CID-keyed fixture in 1 of 24 cases) \
         and on generated BasicFonts (empty, simple, composite glyphs, odd instruction and table lengths, numberOfHMetrics < numGlyphs, short/long loca, BMP and astral cmaps); subset::whole_font with generated tag lists (subsets, permutations, duplicates, with and without the required tables); \
         variations::instance on the variable fixtures at generated user coordinates (min / default / max / inside / outside) and on C12's generated gvar fonts (simple and composite glyphs with byte/word offsets and anchor arguments; HVAR/MVAR/cvar/avar variants) at C12's user tuples, those fonts and one instance each also subset with two glyph lists; the tables delivered by the WOFF2 provider for every WOFF2 fixture and for generated WOFF2 files (C11's font models through the independent fontgen::woff2 encoder: single fonts and collections, glyf transformed or null-transformed, hmtx transformed with every legal flag combination, short/long loca; plus large fonts whose rebuilt glyf is 100-200 kB and straddles 131 070 / 131 072 bytes while head declares short offsets, so that the decoder has to switch loca format). \
         Every Ok output is checked by the independent validator refmodel::sfnt_validate: header, search fields, sorted directory, 4-byte alignment, bounds, overlap, zero padding (including the last table), per-table checksums, whole-file sum / head.checkSumAdjustment; \
         and for subsets, instances and WOFF2 tables: maxp/hhea/hmtx sizes, head.indexToLocFormat/loca width and monotonicity, every glyph parses inside its loca slice, component ids < numGlyphs and acyclic, cmap structure (formats 0/4/6/12: lengths, search fields, segment order, last segment 0xFFFF, all glyph ids < numGlyphs), post 2.0/3.0 sizes, \
         CFF/CFF2 (INDEX and DICT syntax, CharStrings count = numGlyphs, charset/Encoding/FDSelect/FDArray/Private/Subrs resolve, every charstring walks to endchar with all subroutine references in range); instances carry no variation tables. \
         Self-load: FontData::read, Font::new, advance and outline visit of every retained glyph. whole_font outputs: file-level rules always; table relations only where the source font satisfies them (codes raised by the source are masked). \
         A few glyph lists deliberately break the documented preconditions (duplicate, glyph 0 not first, id out of range): the call may fail, but if it returns Ok the output must still be valid. A validator self-test section feeds the validator a canonical generated font (must be accepted) and 22 targeted corruptions (each must raise its code). Non-trivial = output with >= 5 tables of which >= 1 has a length that is not a multiple of 4 (padding exercised); distinct by hash of the output bytes."
            .to_string()
    }
    fn assumptions(&self) -> Vec<String> {
        vec![
            "fixture fonts are read through allsorts' container readers (checked by C10); table contents are examined only by the independent validator".into(),
            "head bbox ⊇ glyph bboxes and contiguous table layout are recommendations, not asserted".into(),
            "the Type 2 charstring walk checks syntax, hint-mask lengths, subroutine references and termination, not path semantics (C18)".into(),
            "glyph queries are capped at 3000 glyphs per output".into(),
        ]
    }
    fn run(&self, ctx: &mut Ctx) {
        let n = ctx.cases(48_000, 600_000);
        ctx.section("subset-fixtures", n, subset_strategy(), |c, rec| check_subset_fixture(c, rec));
        let n = ctx.cases(60_000, 800_000);
        ctx.section("subset-generated", n, (gen_font_strategy(), subset_strategy()), |c, rec| check_subset_generated(c, rec));
        let n = ctx.cases(15_000, 600_000);
        ctx.section("subset-generated-cff", n, (gen_cff_strategy(), subset_strategy()), |c, rec| check_subset_generated_cff(c, rec));
        let n = ctx.cases(24_000, 300_000);
        ctx.section("whole-font", n, whole_strategy(), |c, rec| check_whole(c, rec));
        let n = ctx.cases(24_000, 300_000);
        ctx.section("instance", n, instance_strategy(), |c, rec| check_instance(c, rec));
        let n = ctx.cases(1_500, 60_000);
        ctx.section("instance-generated", n, crate::props::c12::case_strategy(), |c, rec| check_instance_generated(c, rec));
        let files = fixtures::list("fonts/woff2", &["woff2"], 1 << 21).len() as u64;
        ctx.enumerate("woff2-tables", files, true, |i, rec| check_woff2_tables(i, rec));
        let n = ctx.cases(1_200, 40_000);
        ctx.section("woff2-generated", n, (crate::props::c11::case_strategy(), w2gen::enc_strategy()), |c, rec| w2gen::check_generated(c, rec));
        ctx.enumerate("woff2-generated-large", w2gen::BIG_ITEMS, true, |i, rec| w2gen::check_big(i, rec));
        ctx.enumerate("validator-selftest", SELFTEST_ITEMS, true, |i, rec| check_validator_selftest(i, rec));
        let nsrc = sources().len() as u64;
        ctx.enumerate("fixture-sanity", nsrc, true, |i, rec| check_fixture_sanity(i, rec));
    }
}
