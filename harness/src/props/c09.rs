//! C09 — not built yet.
use crate::engine::{Ctx, Property};

pub struct C09;

impl Property for C09 {
    fn id(&self) -> &'static str {
        "C09"
    }
    fn rule(&self) -> String {
        "not implemented".to_string()
    }
    fn run(&self, _ctx: &mut Ctx) {}
}
