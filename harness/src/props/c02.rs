//! C02 — shaping is total and yields well-formed glyph runs.
//!
//! Generator: (font, faults, text, script, language, features, tuple, kerning, presentation,
//! direction, vertical). Fonts are the per-script fixtures of the repository (intact, or with
//! 1–4 byte-level faults confined to the bodies of GSUB/GPOS/GDEF/kern/morx — located with the
//! harness' own sfnt directory reader — so the font still loads) and a few small synthetic
//! layout fonts built with `fontgen` (cyclic contextual lookups, deep nesting, ligatures whose
//! components run past the end of the text, cursive chains, a `kern`-only font and a `morx`
//! font). Text is a token list resolved against the alphabet of the script (see c02_text.rs).
//!
//! Oracle (exactly the property statement): `map_glyphs → shape → glyph_positions` returns
//! without panic/abort/stack overflow/hang; on the returned run (Ok and Err alike) every
//! attachment index is inside the run, every attributed character is a character of the run
//! submitted for shaping (the `map_glyphs` output) or U+25CC, for intact fonts every glyph id is
//! below the glyph count, and `glyph_positions` returns Ok with one position per glyph or Err.

use crate::engine::util::pick;
use crate::engine::{fixtures, CaseResult, Ctx, Fail, Property, Rec};
use crate::fontgen::basic::BasicFont;
use crate::fontgen::buf::Buf;
use crate::fontgen::sfnt::parse_directory;
use allsorts::binary::read::ReadScope;
use allsorts::font::MatchingPresentation;
use allsorts::font_data::FontData;
use allsorts::glyph_position::{GlyphLayout, TextDirection};
use allsorts::gpos::Placement;
use allsorts::gsub::{FeatureInfo, FeatureMask, Features};
use allsorts::tables::variable_fonts::fvar::FvarTable;
use allsorts::tables::{F2Dot14, FontTableProvider};
use allsorts::Font;
use arbitrary::Unstructured;
use proptest::prelude::*;
use std::collections::BTreeSet;
use std::sync::OnceLock;

#[path = "c02_text.rs"]
pub mod text;
#[path = "c02_layout.rs"]
pub mod layout;
#[path = "c02_morx.rs"]
pub mod morx;
#[path = "c02_fraclig.rs"]
pub mod fraclig;
use text::{alphabet_for, Tok};

pub struct C02;

// ------------------------------------------------------------------------------------------
// fonts
// ------------------------------------------------------------------------------------------

/// (group name, alphabet / matching script tag, fixtures relative to tests/)
const GROUPS: &[(&str, &[u8; 4], &[&str])] = &[
    ("arabic", b"arab", &[
        "fonts/arabic/KacstBook.ttf",
        "fonts/arabic/NafeesNastaleeq.ttf",
        "fonts/arabic/Scheherazade-Regular.ttf",
        "fonts/arabic/ae_Arab.ttf",
        "fonts/arabic/amiri-quran.ttf",
        "fonts/arabic/amiri-regular.ttf",
        "fonts/noto/NotoNaskhArabic-Regular.ttf",
    ]),
    ("syriac", b"syrc", &[
        "fonts/syriac/SyrCOMAdiabene.otf",
        "fonts/syriac/SyrCOMAntioch.otf",
        "fonts/syriac/SyrCOMBatnan.otf",
        "fonts/syriac/SyrCOMEdessa.otf",
        "fonts/syriac/SyrCOMMalankara.otf",
        "fonts/syriac/SyrCOMNisibin.otf",
        "fonts/syriac/SyrCOMUrhoy.otf",
        "fonts/noto/NotoSansSyriacEastern-Regular.ttf",
    ]),
    ("devanagari", b"deva", &[
        "fonts/devanagari/AnnapurnaSIL-Regular.ttf",
        "fonts/devanagari/lohit_hi.ttf",
        "fonts/devanagari/sahadeva.ttf",
        "fonts/noto/NotoSansDevanagari-Regular.ttf",
        "fonts/noto/NotoSerifDevanagari-Regular.ttf",
    ]),
    ("bengali", b"beng", &[
        "fonts/bengali/Lohit-Bengali.ttf",
        "fonts/bengali/Siyamrupali_1_01.ttf",
        "fonts/noto/NotoSansBengali-Regular.ttf",
        "fonts/noto/NotoSerifBengali-Regular.ttf",
    ]),
    ("gurmukhi", b"guru", &["fonts/gurmukhi/Saab.ttf", "fonts/noto/NotoSansGurmukhi-Regular.ttf"]),
    ("gujarati", b"gujr", &[
        "fonts/gujarati/Rekha.ttf",
        "fonts/gujarati/Samyak-Gujarati.ttf",
        "fonts/gujarati/lohit_gu.ttf",
        "fonts/gujarati/padmaa.ttf",
        "fonts/noto/NotoSansGujarati-Regular.ttf",
        "fonts/noto/NotoSerifGujarati-Regular.ttf",
    ]),
    ("oriya", b"orya", &["fonts/oriya/lohit_or.ttf", "fonts/oriya/utkalm.ttf", "fonts/noto/NotoSansOriya-Regular.ttf"]),
    ("tamil", b"taml", &[
        "fonts/tamil/TAMu_Kalyani.ttf",
        "fonts/tamil/lohit_ta.ttf",
        "fonts/noto/NotoSansTamil-Regular.ttf",
        "fonts/noto/NotoSerifTamil-Regular.ttf",
    ]),
    ("telugu", b"telu", &[
        "fonts/telugu/Mandali-Regular.ttf",
        "fonts/telugu/lohit_te.ttf",
        "fonts/noto/NotoSansTelugu-Regular.ttf",
        "fonts/noto/NotoSerifTelugu-Regular.ttf",
    ]),
    ("kannada", b"knda", &[
        "fonts/kannada/lohit_kn.ttf",
        "fonts/noto/NotoSansKannada-Regular.ttf",
        "fonts/noto/NotoSerifKannada-Regular.ttf",
    ]),
    ("malayalam", b"mlym", &[
        "fonts/malayalam/Chilanka-Regular.ttf",
        "fonts/malayalam/Dyuthi-Regular.ttf",
        "fonts/malayalam/Rachana-Regular.ttf",
        "fonts/malayalam/Rachana_w01.ttf",
        "fonts/malayalam/lohit_ml.ttf",
        "fonts/noto/NotoSansMalayalam-Regular.ttf",
        "fonts/noto/NotoSerifMalayalam-Regular.ttf",
    ]),
    ("sinhala", b"sinh", &["fonts/noto/NotoSansSinhala-Regular.ttf", "fonts/noto/NotoSerifSinhala-Regular.ttf"]),
    ("khmer", b"khmr", &[
        "fonts/khmer/Battambang-Regular.ttf",
        "fonts/noto/NotoSansKhmer-Regular.ttf",
        "fonts/noto/NotoSerifKhmer-Regular.ttf",
    ]),
    ("myanmar", b"mymr", &["fonts/myanmar/Padauk-Regular.ttf"]),
    ("thai", b"thai", &["fonts/noto/NotoSansThai-Regular.ttf"]),
    ("lao", b"lao ", &["fonts/noto/NotoSansLao-Regular.ttf"]),
    ("latin", b"latn", &[
        "fonts/opentype/Klei.otf",
        "fonts/opentype/OpenSans-Regular.ttf",
        "fonts/opentype/SourceCodePro-Regular.otf",
        "fonts/opentype/Ubuntu Mono with Numderline.ttf",
        "fonts/opentype/cff2/SourceSans3-Instance.256.otf",
        "fonts/opentype/cff2/SourceSans3.abc.otf",
        "fonts/noto/NotoSansJP-Regular.otf",
    ]),
    ("variable", b"latn", &[
        "fonts/opentype/NotoSans-VF.abc.ttf",
        "fonts/opentype/cff2/SourceSansVariable-Roman.abc.otf",
        "fonts/variable/Inter[slnt,wght].abc.ttf",
        "fonts/variable/UnderlineTest-VF.ttf",
    ]),
];

const LAYOUT_TAGS: &[&[u8; 4]] = &[b"GSUB", b"GPOS", b"GDEF", b"kern", b"morx"];

pub struct LayoutTable {
    pub tag: [u8; 4],
    pub offset: usize,
    pub len: usize,
    /// byte position of the directory record (for the `Hide` fault)
    pub record_at: usize,
    /// structurally interesting 2-byte aligned positions inside the table (relative)
    pub hot: Vec<u32>,
    /// located count / offset / format / class / index fields (deep scan)
    pub anchors: Vec<layout::Anchor>,
}

/// A string that makes one lookup of the font apply.
pub struct Probe {
    /// index into `FontEntry::tables`
    pub table: u8,
    pub lookup: u16,
    pub ty: u16,
    pub text: String,
    /// a feature that references the lookup (None: none found)
    pub feature: Option<u32>,
}

pub struct FontEntry {
    pub group: &'static str,
    pub name: String,
    pub script: [u8; 4],
    pub synthetic: bool,
    pub bytes: Vec<u8>,
    pub tables: Vec<LayoutTable>,
    pub lang_tags: Vec<u32>,
    pub feature_tags: Vec<u32>,
    pub has_gsub_or_gpos: bool,
    pub variable: bool,
    pub probes: Vec<Probe>,
    /// built per case from a C04 program and/or a C05 tape
    pub generated: bool,
    /// texts for this font are spelled with U+E000 + glyph id
    pub pua: bool,
    /// false for generated fonts whose substitutions name glyphs the font does not have (the
    /// glyph id clause of the property only speaks about well-formed fonts)
    pub well_formed: bool,
    /// variation tuples at the condition boundaries of the generated FeatureVariations
    pub tuples: Vec<Vec<i16>>,
}

pub struct FontSet {
    /// fonts grouped; groups without any readable font are dropped
    pub groups: Vec<Vec<FontEntry>>,
    /// (group, font) of the fonts that can exercise each feature-specific code path
    pub focus_fonts: Vec<Vec<(u16, u16)>>,
}

/// Feature-specific code paths of gsub.rs / Font::shape that get their own generator class.
#[derive(Clone, Copy, Debug, PartialEq)]
pub enum Focus {
    /// `FeatureMask::FRAC`: gsub_apply_lookups_frac / find_fraction
    Frac = 0,
    /// vert / vrt2 (VRT2 falls back to VERT; IS_VERT_ALT flag; vertical advances)
    Vert = 1,
    /// number / case / discretionary features behind non-default mask bits
    Numbers = 2,
    /// `Features::Custom` with `fina`: applied to the last glyph only
    CustomFina = 3,
    /// `Features::Custom` with aalt / salt and an alternate index
    Alternates = 4,
    /// variation tuple: `rvrn` ahead of everything, FeatureVariations
    Rvrn = 5,
}

const FOCUS_ALL: [Focus; 6] = [Focus::Frac, Focus::Vert, Focus::Numbers, Focus::CustomFina, Focus::Alternates, Focus::Rvrn];

fn focus_tags(f: Focus) -> &'static [&'static [u8; 4]] {
    match f {
        Focus::Frac => &[b"frac", b"afrc"],
        Focus::Vert => &[b"vert", b"vrt2"],
        Focus::Numbers => &[b"onum", b"lnum", b"tnum", b"pnum", b"zero", b"ordn", b"smcp", b"c2sc", b"dlig", b"hlig"],
        Focus::CustomFina => &[b"fina"],
        Focus::Alternates => &[b"aalt", b"salt"],
        Focus::Rvrn => &[b"rvrn"],
    }
}

static FONTS: OnceLock<FontSet> = OnceLock::new();

pub fn fonts() -> &'static FontSet {
    FONTS.get_or_init(|| {
        let mut groups = Vec::new();
        for (gname, script, paths) in GROUPS {
            let mut g = Vec::new();
            for p in paths.iter() {
                if let Some(bytes) = fixtures::read(p) {
                    if let Some(e) = make_entry(gname, p.to_string(), **script, false, bytes) {
                        g.push(e);
                    }
                }
            }
            if !g.is_empty() {
                groups.push(g);
            }
        }
        let mut g = Vec::new();
        for (name, script, bytes) in synthetic_fonts() {
            let name = if name == "synthetic/multi-script" { format!("{}:{}", name, String::from_utf8_lossy(&script)) } else { name.to_string() };
            if let Some(e) = make_entry("synthetic", name, script, true, bytes) {
                g.push(e);
            }
        }
        if !g.is_empty() {
            groups.push(g);
        }
        let mut focus_fonts = vec![Vec::new(); FOCUS_ALL.len()];
        for (gi, g) in groups.iter().enumerate() {
            for (fi, e) in g.iter().enumerate() {
                for f in FOCUS_ALL {
                    let has = focus_tags(f).iter().any(|t| e.feature_tags.contains(&tagv(t)));
                    if has || (f == Focus::Rvrn && e.variable) {
                        focus_fonts[f as usize].push((gi as u16, fi as u16));
                    }
                }
            }
        }
        if trace_enabled() {
            for g in &groups {
                for e in g {
                    let a: Vec<String> = e.tables.iter().map(|t| format!("{}:{}b/{}a/{}a0", String::from_utf8_lossy(&t.tag), t.len, t.anchors.len(), t.anchors.iter().filter(|a| a.depth == 0).count())).collect();
                    let mut types: std::collections::BTreeMap<(u8, u16), usize> = std::collections::BTreeMap::new();
                    for p in &e.probes {
                        *types.entry((p.table, p.ty)).or_default() += 1;
                    }
                    trace(format!("C02-FONT {} tables=[{}] probes={} by (table,type)={:?}", e.name, a.join(" "), e.probes.len(), types));
                }
            }
        }
        FontSet { groups, focus_fonts }
    })
}

fn make_entry(group: &'static str, name: String, script: [u8; 4], synthetic: bool, bytes: Vec<u8>) -> Option<FontEntry> {
    let (_, dir) = parse_directory(&bytes)?;
    let mut tables = Vec::new();
    let mut lang_tags = BTreeSet::new();
    let mut feature_tags = BTreeSet::new();
    let mut has = false;
    let mut deep_scans: Vec<(u8, layout::Scan)> = Vec::new();
    for e in &dir {
        if !LAYOUT_TAGS.iter().any(|t| **t == e.tag) {
            continue;
        }
        let (o, l) = (e.offset as usize, e.length as usize);
        let body = match bytes.get(o..o.checked_add(l)?) {
            Some(b) => b,
            None => continue,
        };
        let mut anchors = Vec::new();
        let hot = match &e.tag {
            b"GSUB" | b"GPOS" => {
                has = true;
                let s = scan_layout(body, &e.tag == b"GPOS");
                lang_tags.extend(s.lang_tags);
                feature_tags.extend(s.feature_tags);
                let deep = layout::scan(body, &e.tag == b"GPOS");
                anchors = deep.anchors.clone();
                deep_scans.push((tables.len() as u8, deep));
                s.hot
            }
            b"GDEF" => {
                let h = scan_gdef(body);
                anchors = simple_anchors(&h, &[(0, layout::Kind::Value), (2, layout::Kind::Value), (4, layout::Kind::Offset), (6, layout::Kind::Offset), (8, layout::Kind::Offset), (10, layout::Kind::Offset), (12, layout::Kind::Offset)]);
                h
            }
            b"kern" => {
                let h = scan_kern(body);
                anchors = simple_anchors(&h, &[(2, layout::Kind::Count), (6, layout::Kind::Count), (8, layout::Kind::Format), (10, layout::Kind::Count)]);
                h
            }
            _ => {
                // morx: what shape applies when there is no GSUB
                has = true;
                (0..body.len().min(1024) as u32 / 2).map(|i| i * 2).collect()
            }
        };
        let hot: Vec<u32> = hot.into_iter().filter(|p| (*p as usize) + 2 <= l).collect();
        anchors.retain(|a| a.off as usize + a.width as usize <= l);
        tables.push(LayoutTable { tag: e.tag, offset: o, len: l, record_at: e.record_at, hot, anchors });
    }
    let probes = build_probes(&bytes, &script, &deep_scans);
    Some(FontEntry {
        group,
        name,
        script,
        synthetic,
        bytes,
        tables,
        lang_tags: lang_tags.into_iter().collect(),
        feature_tags: feature_tags.into_iter().collect(),
        has_gsub_or_gpos: has,
        variable: dir.iter().any(|e| &e.tag == b"fvar"),
        probes,
        generated: false,
        pua: false,
        well_formed: true,
        tuples: Vec::new(),
    })
}

/// positions found by the simple GDEF / kern scanners, with a kind for the well-known ones
fn simple_anchors(hot: &[u32], known: &[(u32, layout::Kind)]) -> Vec<layout::Anchor> {
    hot.iter()
        .map(|o| layout::Anchor {
            off: *o,
            width: 2,
            kind: known.iter().find(|(k, _)| k == o).map(|(_, k)| *k).unwrap_or(layout::Kind::Value),
            lookup: 0xFFFF,
            depth: if known.iter().any(|(k, _)| k == o) { 0 } else { 1 },
            what: "field",
        })
        .collect()
}

/// Spell the reaching glyph sequences of every lookup as text: glyph -> character through the
/// font's cmap (independent reader), glyphs without a character through the substitutions that
/// produce them (ligatures, positional forms), two levels deep.
fn build_probes(bytes: &[u8], script: &[u8; 4], scans: &[(u8, layout::Scan)]) -> Vec<Probe> {
    use crate::refmodel::cmap;
    use std::collections::BTreeMap;
    let mut rev: BTreeMap<u16, Vec<char>> = BTreeMap::new();
    if let Some(table) = crate::fontgen::sfnt::find_table(bytes, b"cmap") {
        if let Some(recs) = cmap::records(table) {
            if let Some((i, cmap::Enc::Unicode)) = cmap::select(&recs) {
                if let Some(m) = cmap::subtable(table, recs[i].offset).and_then(|s| s.mappings(300_000)) {
                    let a = alphabet_for(script);
                    for (c, g) in m {
                        if let Some(ch) = char::from_u32(c) {
                            let preferred = text::in_ranges(a.blocks, c) || c < 0x80;
                            let e = rev.entry(g).or_insert_with(|| vec![ch]);
                            let cur_pref = e.len() == 1 && (text::in_ranges(a.blocks, e[0] as u32) || (e[0] as u32) < 0x80);
                            if preferred && !cur_pref {
                                *e = vec![ch];
                            }
                        }
                    }
                }
            }
        }
    }
    for _ in 0..2 {
        for (_, scan) in scans {
            for (out, ins) in &scan.producers {
                if rev.contains_key(out) || ins.len() > 8 {
                    continue;
                }
                let mut s = Vec::new();
                let mut ok = true;
                for g in ins {
                    match rev.get(g) {
                        Some(cs) if s.len() + cs.len() <= 12 => s.extend(cs.iter().copied()),
                        _ => {
                            ok = false;
                            break;
                        }
                    }
                }
                if ok && !s.is_empty() {
                    rev.insert(*out, s);
                }
            }
        }
    }
    let mut probes = Vec::new();
    for (ti, scan) in scans {
        for (li, info) in scan.lookups.iter().enumerate() {
            for seq in &info.seqs {
                let mut s = String::new();
                let mut ok = !seq.is_empty();
                for g in seq {
                    match rev.get(g) {
                        Some(cs) => s.extend(cs.iter()),
                        None => {
                            ok = false;
                            break;
                        }
                    }
                }
                if ok && s.chars().count() <= 24 && probes.len() < 6000 {
                    probes.push(Probe { table: *ti, lookup: li as u16, ty: info.ty, text: s, feature: info.features.first().copied() });
                }
            }
        }
    }
    probes
}

// ---- independent mini reader of the OpenType layout common table formats: only used to find
// ---- field positions worth corrupting and the tags a font declares.

fn r16(t: &[u8], o: usize) -> Option<usize> {
    t.get(o..o.checked_add(2)?).map(|b| u16::from_be_bytes([b[0], b[1]]) as usize)
}
fn r32(t: &[u8], o: usize) -> Option<usize> {
    t.get(o..o.checked_add(4)?).map(|b| u32::from_be_bytes([b[0], b[1], b[2], b[3]]) as usize)
}

struct LayoutScan {
    hot: Vec<u32>,
    lang_tags: Vec<u32>,
    feature_tags: Vec<u32>,
}

const HOT_CAP: usize = 40_000;

fn scan_layout(t: &[u8], is_gpos: bool) -> LayoutScan {
    let mut hot: BTreeSet<u32> = BTreeSet::new();
    let mut langs = Vec::new();
    let mut feats = Vec::new();
    let h = |hot: &mut BTreeSet<u32>, o: usize, words: usize| {
        for k in 0..words {
            if hot.len() < HOT_CAP {
                hot.insert((o + 2 * k) as u32);
            }
        }
    };
    h(&mut hot, 0, 5);
    if r16(t, 2) == Some(1) {
        h(&mut hot, 10, 2);
        if let Some(fv) = r32(t, 10) {
            if fv != 0 {
                h(&mut hot, fv, 4);
                let n = r32(t, fv + 4).unwrap_or(0).min(8);
                for i in 0..n {
                    let rec = fv + 8 + 8 * i;
                    h(&mut hot, rec, 4);
                    for k in 0..2 {
                        if let Some(o) = r32(t, rec + 4 * k) {
                            h(&mut hot, fv + o, 6);
                        }
                    }
                }
            }
        }
    }
    // script list
    if let Some(sl) = r16(t, 4) {
        let n = r16(t, sl).unwrap_or(0).min(64);
        h(&mut hot, sl, 1);
        for i in 0..n {
            let rec = sl + 2 + 6 * i;
            h(&mut hot, rec, 3);
            let st = match r16(t, rec + 4) {
                Some(o) => sl + o,
                None => continue,
            };
            h(&mut hot, st, 2);
            let mut langsys = Vec::new();
            if let Some(d) = r16(t, st) {
                if d != 0 {
                    langsys.push(st + d);
                }
            }
            let ln = r16(t, st + 2).unwrap_or(0).min(32);
            for j in 0..ln {
                let lrec = st + 4 + 6 * j;
                h(&mut hot, lrec, 3);
                if let Some(tag) = r32(t, lrec) {
                    langs.push(tag as u32);
                }
                if let Some(o) = r16(t, lrec + 4) {
                    langsys.push(st + o);
                }
            }
            for ls in langsys {
                h(&mut hot, ls, 6);
            }
        }
    }
    // feature list
    if let Some(fl) = r16(t, 6) {
        let n = r16(t, fl).unwrap_or(0).min(256);
        h(&mut hot, fl, 1);
        for i in 0..n {
            let rec = fl + 2 + 6 * i;
            h(&mut hot, rec + 4, 1);
            if let Some(tag) = r32(t, rec) {
                feats.push(tag as u32);
            }
            if let Some(o) = r16(t, rec + 4) {
                h(&mut hot, fl + o, 4);
            }
        }
    }
    // lookup list
    if let Some(ll) = r16(t, 8) {
        let n = r16(t, ll).unwrap_or(0).min(1024);
        h(&mut hot, ll, 1);
        for i in 0..n {
            h(&mut hot, ll + 2 + 2 * i, 1);
            let lt = match r16(t, ll + 2 + 2 * i) {
                Some(o) => ll + o,
                None => continue,
            };
            h(&mut hot, lt, 3);
            let ty = r16(t, lt).unwrap_or(0);
            let flag = r16(t, lt + 2).unwrap_or(0);
            let cnt = r16(t, lt + 4).unwrap_or(0).min(64);
            if flag & 0x10 != 0 {
                h(&mut hot, lt + 6 + 2 * cnt, 1);
            }
            for j in 0..cnt {
                h(&mut hot, lt + 6 + 2 * j, 1);
                let mut sub = match r16(t, lt + 6 + 2 * j) {
                    Some(o) => lt + o,
                    None => continue,
                };
                let ext = if is_gpos { 9 } else { 7 };
                if ty == ext {
                    h(&mut hot, sub, 4);
                    match r32(t, sub + 4) {
                        Some(o) => sub += o,
                        None => continue,
                    }
                }
                h(&mut hot, sub, 8);
                // one level down: coverage / class definitions / sets referenced by the header
                for k in 1..6 {
                    if let Some(o) = r16(t, sub + 2 * k) {
                        if o >= 4 && sub + o + 2 <= t.len() {
                            h(&mut hot, sub + o, 4);
                        }
                    }
                }
            }
        }
    }
    LayoutScan { hot: hot.into_iter().collect(), lang_tags: langs, feature_tags: feats }
}

fn scan_gdef(t: &[u8]) -> Vec<u32> {
    let mut hot = BTreeSet::new();
    for k in 0..9usize {
        hot.insert((2 * k) as u32);
    }
    for k in 2..7usize {
        if let Some(o) = r16(t, 2 * k) {
            if o != 0 {
                for w in 0..6 {
                    hot.insert((o + 2 * w) as u32);
                }
            }
        }
    }
    hot.into_iter().collect()
}

fn scan_kern(t: &[u8]) -> Vec<u32> {
    let mut hot = BTreeSet::new();
    hot.insert(0);
    hot.insert(2);
    let n = r16(t, 2).unwrap_or(0).min(16);
    let mut at = 4usize;
    for _ in 0..n {
        for w in 0..16 {
            hot.insert((at + 2 * w) as u32);
        }
        match r16(t, at + 2) {
            Some(l) if l >= 6 => at += l,
            _ => break,
        }
    }
    hot.into_iter().collect()
}

// ------------------------------------------------------------------------------------------
// synthetic layout fonts (fontgen; encoders written from the OpenType / AAT specifications)
// ------------------------------------------------------------------------------------------

fn tagv(t: &[u8; 4]) -> u32 {
    u32::from_be_bytes(*t)
}

/// GSUB/GPOS table with one script (DFLT) + `latn`, default langsys listing all features.
/// `features`: (tag, lookup indices); `lookups`: (type, flag, subtables).
fn layout_table(features: &[(&[u8; 4], Vec<u16>)], lookups: &[(u16, u16, Vec<Vec<u8>>)]) -> Vec<u8> {
    // script list
    let mut langsys = Buf::new();
    langsys.u16(0).u16(0xFFFF).u16(features.len() as u16);
    for i in 0..features.len() {
        langsys.u16(i as u16);
    }
    let langsys = langsys.into_vec();
    let mut script = Buf::new();
    script.u16(4).u16(0).bytes(&langsys);
    let script = script.into_vec();
    let mut sl = Buf::new();
    sl.u16(2);
    sl.tag(b"DFLT").u16(2 + 12);
    sl.tag(b"latn").u16(2 + 12);
    sl.bytes(&script);
    let sl = sl.into_vec();
    // feature list
    let mut fl = Buf::new();
    fl.u16(features.len() as u16);
    let mut off = 2 + 6 * features.len();
    let mut bodies = Vec::new();
    for (tag, idx) in features {
        fl.tag(tag).u16(off as u16);
        let mut b = Buf::new();
        b.u16(0).u16(idx.len() as u16);
        for i in idx {
            b.u16(*i);
        }
        off += b.len();
        bodies.push(b.into_vec());
    }
    for b in bodies {
        fl.bytes(&b);
    }
    let fl = fl.into_vec();
    // lookup list
    let mut ll = Buf::new();
    ll.u16(lookups.len() as u16);
    let mut off = 2 + 2 * lookups.len();
    let mut bodies = Vec::new();
    for (ty, flag, subs) in lookups {
        ll.u16(off as u16);
        let mut b = Buf::new();
        b.u16(*ty).u16(*flag).u16(subs.len() as u16);
        let mut so = 6 + 2 * subs.len();
        for s in subs {
            b.u16(so as u16);
            so += s.len();
        }
        for s in subs {
            b.bytes(s);
        }
        off += b.len();
        bodies.push(b.into_vec());
    }
    for b in bodies {
        ll.bytes(&b);
    }
    let ll = ll.into_vec();
    let mut t = Buf::new();
    t.u16(1).u16(0).u16(10).u16((10 + sl.len()) as u16).u16((10 + sl.len() + fl.len()) as u16);
    t.bytes(&sl).bytes(&fl).bytes(&ll);
    t.into_vec()
}

fn coverage1(glyphs: &[u16]) -> Vec<u8> {
    let mut b = Buf::new();
    b.u16(1).u16(glyphs.len() as u16);
    for g in glyphs {
        b.u16(*g);
    }
    b.into_vec()
}

/// SingleSubst format 1 (delta)
fn single_subst(cov: &[u16], delta: i16) -> Vec<u8> {
    let mut b = Buf::new();
    b.u16(1).u16(6).i16(delta).bytes(&coverage1(cov));
    b.into_vec()
}

/// MultipleSubst format 1: every covered glyph -> seq
fn multiple_subst(cov: &[u16], seq: &[u16]) -> Vec<u8> {
    let mut b = Buf::new();
    let n = cov.len();
    b.u16(1).u16((6 + 2 * n) as u16).u16(n as u16);
    let covb = coverage1(cov);
    let seq_len = 2 + 2 * seq.len();
    for i in 0..n {
        b.u16((6 + 2 * n + covb.len() + i * seq_len) as u16);
    }
    b.bytes(&covb);
    for _ in 0..n {
        b.u16(seq.len() as u16);
        for g in seq {
            b.u16(*g);
        }
    }
    b.into_vec()
}

/// LigatureSubst format 1: first glyph `first`, ligatures (components after the first, result)
fn ligature_subst(first: u16, ligs: &[(Vec<u16>, u16)]) -> Vec<u8> {
    let mut set = Buf::new();
    set.u16(ligs.len() as u16);
    let mut off = 2 + 2 * ligs.len();
    let mut bodies = Vec::new();
    for (comps, lig) in ligs {
        set.u16(off as u16);
        let mut l = Buf::new();
        l.u16(*lig).u16((comps.len() + 1) as u16);
        for c in comps {
            l.u16(*c);
        }
        off += l.len();
        bodies.push(l.into_vec());
    }
    for b in bodies {
        set.bytes(&b);
    }
    let covb = coverage1(&[first]);
    let mut b = Buf::new();
    b.u16(1).u16(8).u16(1).u16((8 + covb.len()) as u16).bytes(&covb).bytes(&set.into_vec());
    b.into_vec()
}

/// Context format 1 (GSUB 5 / GPOS 7): first glyph `first`, one rule: rest-of-input + records
fn context1(first: u16, rest: &[u16], recs: &[(u16, u16)]) -> Vec<u8> {
    let mut rule = Buf::new();
    rule.u16((rest.len() + 1) as u16).u16(recs.len() as u16);
    for g in rest {
        rule.u16(*g);
    }
    for (i, l) in recs {
        rule.u16(*i).u16(*l);
    }
    let covb = coverage1(&[first]);
    let mut b = Buf::new();
    b.u16(1).u16(8).u16(1).u16((8 + covb.len()) as u16).bytes(&covb);
    b.u16(1).u16(4).bytes(&rule.into_vec());
    b.into_vec()
}

/// Chained context format 3
fn chain3(back: &[&[u16]], input: &[&[u16]], ahead: &[&[u16]], recs: &[(u16, u16)]) -> Vec<u8> {
    let n = back.len() + input.len() + ahead.len();
    let header = 2 + 2 + 2 * back.len() + 2 + 2 * input.len() + 2 + 2 * ahead.len() + 2 + 4 * recs.len();
    let mut covs = Vec::new();
    let mut off = header;
    let mut offs = Vec::new();
    for c in back.iter().chain(input.iter()).chain(ahead.iter()) {
        let cb = coverage1(c);
        offs.push(off as u16);
        off += cb.len();
        covs.push(cb);
    }
    debug_assert_eq!(offs.len(), n);
    let mut b = Buf::new();
    b.u16(3);
    let mut k = 0;
    for part in [back.len(), input.len(), ahead.len()] {
        b.u16(part as u16);
        for _ in 0..part {
            b.u16(offs[k]);
            k += 1;
        }
    }
    b.u16(recs.len() as u16);
    for (i, l) in recs {
        b.u16(*i).u16(*l);
    }
    for c in covs {
        b.bytes(&c);
    }
    b.into_vec()
}

fn anchor(x: i16, y: i16) -> Vec<u8> {
    let mut b = Buf::new();
    b.u16(1).i16(x).i16(y);
    b.into_vec()
}

/// CursivePos format 1: every covered glyph has entry and exit anchors
fn cursive_pos(cov: &[u16]) -> Vec<u8> {
    let covb = coverage1(cov);
    let n = cov.len();
    let mut b = Buf::new();
    let base = 6 + 4 * n;
    b.u16(1).u16(base as u16).u16(n as u16);
    let mut off = base + covb.len();
    for _ in 0..n {
        b.u16(off as u16).u16((off + 6) as u16);
        off += 12;
    }
    b.bytes(&covb);
    for i in 0..n {
        b.bytes(&anchor(10 + i as i16, 20)).bytes(&anchor(300, -50 - i as i16));
    }
    b.into_vec()
}

/// MarkBasePos / MarkMarkPos format 1 with one class
fn mark_base_pos(marks: &[u16], bases: &[u16]) -> Vec<u8> {
    let mcov = coverage1(marks);
    let bcov = coverage1(bases);
    let mut marr = Buf::new();
    marr.u16(marks.len() as u16);
    let mut off = 2 + 4 * marks.len();
    for _ in marks {
        marr.u16(0).u16(off as u16);
        off += 6;
    }
    for i in 0..marks.len() {
        marr.bytes(&anchor(i as i16, 500));
    }
    let marr = marr.into_vec();
    let mut barr = Buf::new();
    barr.u16(bases.len() as u16);
    let mut off = 2 + 2 * bases.len();
    for _ in bases {
        barr.u16(off as u16);
        off += 6;
    }
    for i in 0..bases.len() {
        barr.bytes(&anchor(250, 700 + i as i16));
    }
    let barr = barr.into_vec();
    let mut b = Buf::new();
    let h = 12;
    b.u16(1).u16(h as u16).u16((h + mcov.len()) as u16).u16(1);
    b.u16((h + mcov.len() + bcov.len()) as u16).u16((h + mcov.len() + bcov.len() + marr.len()) as u16);
    b.bytes(&mcov).bytes(&bcov).bytes(&marr).bytes(&barr);
    b.into_vec()
}

/// MarkLigPos format 1, one mark class; `ligs`: (ligature glyph, component count)
fn mark_lig_pos(marks: &[u16], ligs: &[(u16, u16)]) -> Vec<u8> {
    let mcov = coverage1(marks);
    let lcov = coverage1(&ligs.iter().map(|l| l.0).collect::<Vec<u16>>());
    let mut marr = Buf::new();
    marr.u16(marks.len() as u16);
    let mut off = 2 + 4 * marks.len();
    for _ in marks {
        marr.u16(0).u16(off as u16);
        off += 6;
    }
    for i in 0..marks.len() {
        marr.bytes(&anchor(i as i16, 480));
    }
    let marr = marr.into_vec();
    // LigatureArray: count, offsets, LigatureAttach tables (componentCount, anchor offsets, anchors)
    let mut attaches = Vec::new();
    for (k, (_, comps)) in ligs.iter().enumerate() {
        let mut la = Buf::new();
        la.u16(*comps);
        let mut off = 2 + 2 * *comps as usize;
        for _ in 0..*comps {
            la.u16(off as u16);
            off += 6;
        }
        for c in 0..*comps {
            la.bytes(&anchor(100 * c as i16 + k as i16, 650));
        }
        attaches.push(la.into_vec());
    }
    let mut larr = Buf::new();
    larr.u16(ligs.len() as u16);
    let mut off = 2 + 2 * ligs.len();
    for a in &attaches {
        larr.u16(off as u16);
        off += a.len();
    }
    for a in &attaches {
        larr.bytes(a);
    }
    let larr = larr.into_vec();
    let h = 12;
    let mut b = Buf::new();
    b.u16(1).u16(h as u16).u16((h + mcov.len()) as u16).u16(1);
    b.u16((h + mcov.len() + lcov.len()) as u16).u16((h + mcov.len() + lcov.len() + marr.len()) as u16);
    b.bytes(&mcov).bytes(&lcov).bytes(&marr).bytes(&larr);
    b.into_vec()
}

/// SinglePos format 1 with a ValueRecord (xPlacement, yPlacement, xAdvance)
fn single_pos(cov: &[u16], xp: i16, yp: i16, xa: i16) -> Vec<u8> {
    let mut b = Buf::new();
    b.u16(1).u16(12).u16(0x0007).i16(xp).i16(yp).i16(xa).bytes(&coverage1(cov));
    b.into_vec()
}

/// PairPos format 1: first glyph, pairs (second, xAdvance of first)
fn pair_pos(first: u16, pairs: &[(u16, i16)]) -> Vec<u8> {
    let covb = coverage1(&[first]);
    let mut b = Buf::new();
    b.u16(1).u16(12).u16(0x0004).u16(0).u16(1).u16((12 + covb.len()) as u16).bytes(&covb);
    b.u16(pairs.len() as u16);
    for (g, v) in pairs {
        b.u16(*g).i16(*v);
    }
    b.into_vec()
}

fn gdef_classes(classes: &[(u16, u16, u16)]) -> Vec<u8> {
    let mut b = Buf::new();
    b.u16(1).u16(0).u16(12).u16(0).u16(0).u16(0);
    b.u16(2).u16(classes.len() as u16);
    for (s, e, c) in classes {
        b.u16(*s).u16(*e).u16(*c);
    }
    b.into_vec()
}

/// `kern` version 0 with one format 0 subtable (horizontal, kerning values) per pair list
fn kern_table(subtables: &[&[(u16, u16, i16)]]) -> Vec<u8> {
    let mut b = Buf::new();
    b.u16(0).u16(subtables.len() as u16);
    for pairs in subtables {
        let n = pairs.len() as u16;
        let (sr, es, rs) = crate::fontgen::sfnt::search_fields(n, 6);
        b.u16(0).u16(14 + 6 * n).u16(0x0001);
        b.u16(n).u16(sr).u16(es).u16(rs);
        for (l, r, v) in pairs.iter() {
            b.u16(*l).u16(*r).i16(*v);
        }
    }
    b.into_vec()
}

fn kern_format0(pairs: &[(u16, u16, i16)]) -> Vec<u8> {
    kern_table(&[pairs])
}

/// A minimal `morx` (version 2): one chain, default flags 1, one feature entry, and two
/// subtables: a non-contextual (type 4, lookup format 6) and a ligature (type 2) subtable with
/// a small extended state table.
fn morx_table() -> Vec<u8> {
    // --- non-contextual subtable body: lookup format 6 (single table)
    let mut nc = Buf::new();
    nc.u16(6).u16(4).u16(2).u16(8).u16(1).u16(0); // format, unitSize, nUnits, searchRange, entrySelector, rangeShift
    nc.u16(3).u16(5); // glyph 3 -> 5
    nc.u16(4).u16(6); // glyph 4 -> 6
    nc.u16(0xFFFF).u16(0xFFFF);
    let nc = nc.into_vec();
    // --- ligature subtable: classes: 4 = glyph 7 ('f'), 5 = glyph 8 ('i')
    // STXHeader: nClasses, classTableOffset, stateArrayOffset, entryTableOffset (u32 each),
    // then ligActionOffset, componentOffset, ligatureOffset
    let n_classes = 6u32;
    let mut class = Buf::new();
    class.u16(6).u16(4).u16(2).u16(8).u16(1).u16(0);
    class.u16(7).u16(4);
    class.u16(8).u16(5);
    class.u16(0xFFFF).u16(0xFFFF);
    let class = class.into_vec();
    // states: 0 start-of-text, 1 start-of-line, 2 saw f
    let mut states = Buf::new();
    for row in [[0u16, 0, 0, 0, 1, 0], [0, 0, 0, 0, 1, 0], [0, 0, 0, 0, 1, 2]] {
        for e in row {
            states.u16(e);
        }
    }
    let states = states.into_vec();
    // entries: (newState, flags, ligActionIndex)
    let mut entries = Buf::new();
    entries.u16(0).u16(0).u16(0); // 0: nothing
    entries.u16(2).u16(0x8000).u16(0); // 1: push f, go to state 2
    entries.u16(0).u16(0xA000).u16(0); // 2: push i, perform action
    let entries = entries.into_vec();
    let mut actions = Buf::new();
    actions.u32(0x0000_0000 | 0); // component i: offset 0, not last
    actions.u32(0x8000_0000 | 0); // component f: last, store
    let actions = actions.into_vec();
    let mut comps = Buf::new();
    for _ in 0..12 {
        comps.u16(0);
    }
    let comps = comps.into_vec();
    let mut ligs = Buf::new();
    ligs.u16(9).u16(9);
    let ligs = ligs.into_vec();
    let hdr = 28usize;
    let class_off = hdr;
    let state_off = class_off + class.len();
    let entry_off = state_off + states.len();
    let act_off = entry_off + entries.len();
    let comp_off = act_off + actions.len();
    let lig_off = comp_off + comps.len();
    let mut lg = Buf::new();
    lg.u32(n_classes).u32(class_off as u32).u32(state_off as u32).u32(entry_off as u32);
    lg.u32(act_off as u32).u32(comp_off as u32).u32(lig_off as u32);
    lg.bytes(&class).bytes(&states).bytes(&entries).bytes(&actions).bytes(&comps).bytes(&ligs);
    let lg = lg.into_vec();
    // subtables: length u32, coverage u32 (low byte = type), subFeatureFlags u32
    let mut subs = Buf::new();
    subs.u32((12 + nc.len()) as u32).u32(4).u32(1).bytes(&nc);
    subs.u32((12 + lg.len()) as u32).u32(2).u32(1).bytes(&lg);
    let subs = subs.into_vec();
    // chain: defaultFlags, chainLength, nFeatureEntries, nSubtables, feature entries
    let mut chain = Buf::new();
    let chain_len = 16 + 12 + subs.len();
    chain.u32(1).u32(chain_len as u32).u32(1).u32(2);
    chain.u16(1).u16(2).u32(1).u32(0xFFFF_FFFF); // ligatures / common ligatures on
    chain.bytes(&subs);
    let mut t = Buf::new();
    t.u16(2).u16(0).u32(1).bytes(&chain.into_vec());
    t.into_vec()
}

/// Glyph ids of the synthetic fonts: 'a'..'z' -> 1..26, digits '0'..'9' -> 27..36,
/// U+0301 -> 37, U+0302 -> 38, U+25CC -> 39, space -> 40, '/' -> 41; 42..59 unencoded.
fn synthetic_base() -> BasicFont {
    let mut f = BasicFont::with_glyphs(60);
    for i in 0..26u32 {
        f.cmap.insert(0x61 + i, 1 + i as u16);
        f.cmap.insert(0x41 + i, 1 + i as u16);
    }
    for i in 0..10u32 {
        f.cmap.insert(0x30 + i, 27 + i as u16);
    }
    f.cmap.insert(0x301, 37);
    f.cmap.insert(0x302, 38);
    f.cmap.insert(0x25CC, 39);
    f.cmap.insert(0x20, 40);
    f.cmap.insert(0x2F, 41);
    // ligature glyphs (GDEF class 2) that are encoded directly, as presentation forms are
    for (i, c) in [0xFB00u32, 0xFB01, 0xFB02, 0xFB03, 0xFB04].iter().enumerate() {
        f.cmap.insert(*c, 42 + i as u16);
    }
    for (i, c) in [0xFEFBu32, 0xFEF7, 0xFDF2].iter().enumerate() {
        f.cmap.insert(*c, 52 + i as u16);
    }
    f
}

fn synthetic_fonts() -> Vec<(&'static str, [u8; 4], Vec<u8>)> {
    let mut out = Vec::new();
    let gdef = gdef_classes(&[(1, 36, 1), (37, 38, 3), (42, 50, 2)]);
    // 1. contextual lookups that reference each other cyclically, nested deeper than the limit
    {
        let mut f = synthetic_base();
        let lookups = vec![
            (5u16, 0u16, vec![context1(1, &[2], &[(0, 1), (1, 2)])]), // a b -> apply 1 at 0, 2 at 1
            (5, 0, vec![context1(1, &[2], &[(0, 2), (0, 0)])]),      // cycle back to 0
            (5, 0, vec![context1(2, &[], &[(0, 3)]), context1(1, &[2, 3], &[(2, 0), (0, 1)])]),
            (6, 0, vec![chain3(&[&[1, 2, 3]], &[&[1, 2, 3], &[1, 2, 3]], &[&[3, 4]], &[(0, 4), (1, 0), (5, 4)])]),
            (1, 0, vec![single_subst(&[1, 2, 3, 4], 1)]),
            (2, 0, vec![multiple_subst(&[5, 6], &[1, 2, 1, 2]), multiple_subst(&[7], &[])]),
            (4, 0, vec![ligature_subst(3, &[(vec![3, 3, 3, 3, 3, 3, 3], 42), (vec![4], 43), (vec![], 44)])]),
            (4, 8, vec![ligature_subst(9, &[(vec![9, 9], 45), (vec![10, 11, 12, 13, 14, 15, 16, 17], 46)])]),
            (1, 0, vec![single_subst(&(27..=36).collect::<Vec<u16>>(), 20)]), // 8: digits -> 47..56
            (4, 0, vec![ligature_subst(27, &[(vec![41, 28], 57)]), ligature_subst(47, &[(vec![41], 58)])]), // 9: "0/1", numerator + slash
            (1, 0, vec![single_subst(&(1..=41).collect::<Vec<u16>>(), 18)]), // 10
        ];
        let gsub = layout_table(
            &[
                (b"calt", vec![0, 3]),
                (b"ccmp", vec![5]),
                (b"liga", vec![6, 7]),
                (b"clig", vec![1, 2]),
                (b"rlig", vec![4]),
                (b"frac", vec![8, 9]),
                (b"afrc", vec![9]),
                (b"vert", vec![10]),
                (b"onum", vec![8]),
                (b"smcp", vec![10, 4]),
                (b"fina", vec![4, 6]),
                (b"salt", vec![10]),
            ],
            &lookups,
        );
        f.extra.push((*b"GSUB", gsub));
        f.extra.push((*b"GDEF", gdef.clone()));
        out.push(("synthetic/cyclic-context-gsub", *b"latn", f.build()));
    }
    // 2. GPOS: cursive chain over every letter, mark attachment, contextual positioning cycles
    {
        let mut f = synthetic_base();
        let letters: Vec<u16> = (1..=26).collect();
        let lookups = vec![
            (3u16, 1u16, vec![cursive_pos(&letters)]),
            (3, 0, vec![cursive_pos(&letters[..13])]),
            (4, 0, vec![mark_base_pos(&[37, 38], &letters)]),
            (6, 0, vec![mark_base_pos(&[37, 38], &[37, 38])]),
            (1, 0, vec![single_pos(&letters, 32767, 32767, 32767), single_pos(&[27, 28, 29], -32768, -32768, -32768)]),
            (2, 0, vec![pair_pos(1, &[(2, -50), (3, 32767)]), pair_pos(2, &[(1, -32768)])]),
            (7, 0, vec![context1(1, &[2, 3], &[(0, 4), (1, 5), (2, 6), (3, 0)])]),
            (7, 0, vec![context1(2, &[3], &[(0, 6), (1, 2), (0, 0)])]),
            (8, 0, vec![chain3(&[&[37, 38]], &[&letters, &[37, 38]], &[], &[(1, 2), (0, 4), (1, 3)])]),
            (5, 0, vec![mark_lig_pos(&[37, 38], &[(42, 2), (43, 2), (44, 3), (45, 1)])]),
        ];
        let gpos = layout_table(
            &[(b"curs", vec![0, 1]), (b"mark", vec![2, 4, 9]), (b"mkmk", vec![3]), (b"kern", vec![5, 6, 7]), (b"dist", vec![8, 4])],
            &lookups,
        );
        f.extra.push((*b"GPOS", gpos));
        f.extra.push((*b"GDEF", gdef.clone()));
        out.push(("synthetic/cursive-mark-gpos", *b"latn", f.build()));
    }
    // 3. GSUB + GPOS together, used with complex script tags too (DFLT script catches them)
    {
        let mut f = synthetic_base();
        // map a few complex-script characters onto the letters so that the syllable machines
        // run with real glyphs: Devanagari ka..ha -> 1..26 (wrapping), virama, nukta, matra i
        for i in 0..37u32 {
            f.cmap.insert(0x0915 + i, 1 + (i % 26) as u16);
        }
        f.cmap.insert(0x094D, 37);
        f.cmap.insert(0x093C, 38);
        f.cmap.insert(0x093F, 36);
        f.cmap.insert(0x200D, 40);
        f.cmap.insert(0x200C, 40);
        let all: Vec<u16> = (1..=41).collect();
        let lookups = vec![
            (4u16, 0u16, vec![ligature_subst(1, &[(vec![37, 2], 42), (vec![37], 43)]), ligature_subst(16, &[(vec![37], 47)])]),
            (1, 0, vec![single_subst(&all, 18)]),
            (2, 0, vec![multiple_subst(&[36], &[36, 36, 36])]),
            (6, 0, vec![chain3(&[], &[&all, &[37]], &[&all], &[(0, 0), (1, 1), (0, 2)])]),
            (5, 0, vec![context1(37, &[37], &[(0, 1), (1, 1), (2, 1)])]),
        ];
        let feats: Vec<(&[u8; 4], Vec<u16>)> = vec![
            (b"akhn", vec![0]),
            (b"rphf", vec![0]),
            (b"half", vec![0, 4]),
            (b"pres", vec![3]),
            (b"blwf", vec![2]),
            (b"nukt", vec![0]),
            (b"init", vec![1]),
            (b"fina", vec![1]),
            (b"medi", vec![3]),
            (b"liga", vec![0]),
            (b"locl", vec![2]),
            (b"pref", vec![0]),
            (b"pstf", vec![4]),
            (b"rvrn", vec![1]),
        ];
        f.extra.push((*b"GSUB", layout_table(&feats, &lookups)));
        let glookups = vec![
            (4u16, 0u16, vec![mark_base_pos(&[37, 38], &all)]),
            (3, 0, vec![cursive_pos(&all)]),
            (5, 0, vec![mark_lig_pos(&[37, 38], &[(42, 3), (43, 2), (47, 2)])]),
        ];
        f.extra.push((*b"GPOS", layout_table(&[(b"abvm", vec![0, 2]), (b"curs", vec![1]), (b"mark", vec![0, 2])], &glookups)));
        f.extra.push((*b"GDEF", gdef.clone()));
        // variable, so that a tuple can be passed and `rvrn` is applied ahead of the shapers
        let axis = crate::fontgen::var::AxisModel { tag: *b"wght", min: 100 << 16, default: 400 << 16, max: 900 << 16, flags: 0, name_id: 256 };
        f.extra.push((*b"fvar", crate::fontgen::var::fvar_table(&[axis], &[], 0)));
        out.push(("synthetic/indic-features", *b"deva", f.build()));
    }
    // 3b. one font for every complex shaper: the characters of all alphabets are mapped onto
    // the 59 glyphs, and every feature tag the shapers ask for exists (script DFLT) and points
    // at small lookups, so that reordering, feature masks and would-apply tests all do work.
    {
        let mut f = synthetic_base();
        for a in text::ALPHABETS.iter().filter(|a| a.tag != b"latn") {
            for c in a.halant {
                f.cmap.insert(*c, 37);
            }
            for c in a.nukta {
                f.cmap.insert(*c, 38);
            }
            for (lo, hi) in a.cons.iter().chain(a.matra.iter()).chain(a.marks.iter()) {
                for c in *lo..=*hi {
                    let mark = text::in_ranges(a.matra, c) || text::in_ranges(a.marks, c);
                    f.cmap.entry(c).or_insert(if mark { 27 + (c % 10) as u16 } else { 1 + (c % 26) as u16 });
                }
            }
            for c in a.special.iter().chain(a.ra.iter()).chain(a.prebase.iter()) {
                f.cmap.entry(*c).or_insert(1 + (*c % 41) as u16);
            }
        }
        f.cmap.insert(0x200D, 40);
        f.cmap.insert(0x200C, 41);
        let all: Vec<u16> = (1..=41).collect();
        let letters: Vec<u16> = (1..=26).collect();
        let mut lig_first_letter = Vec::new();
        for g in [1u16, 2, 3, 5, 8, 13, 18, 21, 26] {
            lig_first_letter.push(ligature_subst(g, &[(vec![37, g + 1], 42), (vec![37], 43), (vec![38], 44), (vec![40], 45)]));
        }
        let halant_first = vec![ligature_subst(37, &[(vec![1], 46), (vec![2], 47), (vec![18], 48), (vec![40], 49), (vec![41, 3], 50), (vec![37], 51)])];
        let lookups = vec![
            (1u16, 0u16, vec![single_subst(&all, 1)]),                 // 0
            (4, 0, lig_first_letter),                                   // 1
            (4, 0, halant_first),                                       // 2
            (2, 0, vec![multiple_subst(&[27, 30, 33], &[28, 37, 29])]), // 3
            (6, 0, vec![chain3(&[], &[&all, &[37]], &[&all], &[(0, 0), (1, 2), (0, 1)])]), // 4
            (5, 0, vec![context1(37, &[37], &[(0, 0), (1, 0)])]),       // 5
            (1, 0, vec![single_subst(&(42..=59).collect::<Vec<u16>>(), -20)]), // 6
            (4, 8, vec![ligature_subst(1, &[(vec![2], 52), (vec![1, 1], 53)]), ligature_subst(4, &[(vec![5, 6], 54)])]), // 7: ignore marks
            (2, 0, vec![multiple_subst(&[40, 41], &[])]),               // 8: deletion
            (6, 8, vec![chain3(&[&letters], &[&letters], &[&letters], &[(0, 1), (0, 3)])]), // 9
            (1, 2, vec![single_subst(&[37, 38], 18)]),                  // 10: ignore base glyphs
        ];
        let tags: &[&[u8; 4]] = &[
            b"locl", b"ccmp", b"nukt", b"akhn", b"rphf", b"rkrf", b"pref", b"blwf", b"abvf", b"half", b"pstf", b"vatu", b"cjct",
            b"cfar", b"init", b"pres", b"abvs", b"blws", b"psts", b"haln", b"isol", b"fina", b"fin2", b"fin3", b"medi", b"med2",
            b"rlig", b"calt", b"liga", b"clig", b"mset", b"rvrn", b"dlig", b"frac", b"smcp",
        ];
        let feats: Vec<(&[u8; 4], Vec<u16>)> = tags
            .iter()
            .enumerate()
            .map(|(i, t)| {
                let a = (i * 7 + 1) % lookups.len();
                let b = (i * 3 + 2) % lookups.len();
                (*t, if i % 3 == 0 { vec![a as u16] } else { vec![a.min(b) as u16, a.max(b) as u16] })
            })
            .collect();
        f.extra.push((*b"GSUB", layout_table(&feats, &lookups)));
        let glookups = vec![
            (4u16, 0u16, vec![mark_base_pos(&[27, 28, 29, 30, 37, 38], &all)]),
            (6, 0, vec![mark_base_pos(&[27, 28, 29, 30, 37, 38], &[27, 28, 29, 30, 37, 38])]),
            (3, 1, vec![cursive_pos(&all)]),
            (2, 0, vec![pair_pos(1, &[(2, -50), (3, 70)]), pair_pos(18, &[(37, -30)])]),
            (1, 0, vec![single_pos(&[37, 38], 10, -20, 0)]),
            (5, 0, vec![mark_lig_pos(&[27, 28, 29, 30, 37, 38], &[(42, 3), (43, 2), (44, 2), (45, 2), (46, 2), (52, 2), (53, 3), (54, 3)])]),
        ];
        let gfeats: Vec<(&[u8; 4], Vec<u16>)> = vec![
            (b"mark", vec![0, 5]),
            (b"mkmk", vec![1]),
            (b"curs", vec![2]),
            (b"kern", vec![3]),
            (b"abvm", vec![0, 4]),
            (b"blwm", vec![4]),
            (b"dist", vec![3, 4]),
        ];
        f.extra.push((*b"GPOS", layout_table(&gfeats, &glookups)));
        f.extra.push((*b"GDEF", gdef_classes(&[(1, 26, 1), (27, 38, 3), (42, 59, 2)])));
        let axis = crate::fontgen::var::AxisModel { tag: *b"wght", min: 100 << 16, default: 400 << 16, max: 900 << 16, flags: 0, name_id: 256 };
        f.extra.push((*b"fvar", crate::fontgen::var::fvar_table(&[axis], &[], 0)));
        let bytes = f.build();
        for t in [b"arab", b"syrc", b"deva", b"beng", b"taml", b"mlym", b"sinh", b"khmr", b"mymr", b"thai"] {
            out.push(("synthetic/multi-script", *t, bytes.clone()));
        }
    }
    // 4. kern only (no GSUB/GPOS): gpos::apply_fallback
    {
        let mut f = synthetic_base();
        f.extra.push((
            *b"kern",
            kern_table(&[&[(1, 2, -40), (1, 3, 32767), (2, 1, -32768), (5, 5, 7)], &[(1, 3, 32767), (2, 1, -32768), (3, 4, 12)]]),
        ));
        f.extra.push((*b"GDEF", gdef.clone()));
        out.push(("synthetic/kern-only", *b"latn", f.build()));
    }
    // 5. morx only
    {
        let mut f = synthetic_base();
        f.extra.push((*b"morx", morx_table()));
        f.extra.push((*b"kern", kern_format0(&[(7, 8, -40), (9, 1, 25)])));
        out.push(("synthetic/morx", *b"latn", f.build()));
    }
    out
}

// ------------------------------------------------------------------------------------------
// generated layout fonts: GSUB (+GDEF, FeatureVariations) from a C04 case, GPOS / kern (+GDEF)
// from a C05 tape, over a shared glyph set (U+E000 + glyph id, plus the characters of a complex
// script when the programs are registered under that script tag)
// ------------------------------------------------------------------------------------------

#[derive(Clone, Debug)]
pub struct Generated {
    pub gsub: Option<Box<crate::props::c04::Case>>,
    pub tape: Option<Vec<u32>>,
    /// 0..=2: latn / DFLT only; otherwise GEN_SCRIPTS[(script - 3) % len] is registered too and
    /// that script's characters are mapped onto the glyphs
    pub script: u8,
    /// rename the features to the ones the complex shaper asks for
    pub retag: bool,
    /// when both programs carry a GDEF: take the GPOS program's
    pub gdef_from_gpos: bool,
    /// a generated `morx` table in a font without GSUB / GPOS (the other programs are ignored)
    pub morx: Option<morx::MorxCase>,
    /// a generated GSUB with a `frac` feature and ligatures / multi-glyph lookups over letters,
    /// digits and the slash; the text is the model's own (the other programs are ignored)
    pub fraclig: Option<fraclig::FracLig>,
}

const GEN_SCRIPTS: [[u8; 4]; 9] = [*b"arab", *b"deva", *b"khmr", *b"mym2", *b"thai", *b"syrc", *b"beng", *b"taml", *b"mlym"];

fn shaper_feature_tags(script: &[u8; 4]) -> &'static [&'static [u8; 4]] {
    match script {
        b"arab" | b"syrc" => &[b"isol", b"fina", b"medi", b"init", b"rlig", b"calt", b"liga", b"ccmp", b"locl", b"fin2", b"med2", b"mset"],
        b"khmr" => &[b"pref", b"blwf", b"abvf", b"pstf", b"cfar", b"pres", b"abvs", b"blws", b"psts", b"clig", b"locl", b"ccmp"],
        b"mym2" => &[b"rphf", b"pref", b"blwf", b"pstf", b"pres", b"abvs", b"blws", b"psts", b"locl", b"ccmp", b"liga", b"rlig"],
        b"thai" => &[b"ccmp", b"locl", b"liga", b"rlig", b"calt", b"clig"],
        _ => &[b"nukt", b"akhn", b"rphf", b"pref", b"blwf", b"half", b"pstf", b"cjct", b"pres", b"abvs", b"blws", b"psts", b"haln", b"init", b"locl", b"rkrf", b"vatu"],
    }
}

fn build_morx_font(m: &morx::MorxCase) -> Option<FontEntry> {
    let mut f = synthetic_base();
    let (bytes, anchors) = morx::encode(m, f.num_glyphs());
    f.extra.push((*b"morx", bytes));
    if m.with_kern {
        f.extra.push((*b"kern", kern_format0(&[(1, 2, -40), (2, 1, 25), (3, 3, 7)])));
    }
    let mut e = make_entry("generated", "generated/morx:latn".to_string(), *b"latn", true, f.build())?;
    e.generated = true;
    let n = f.num_glyphs();
    // well-formed: every glyph the *encoded* tables name exists. 0xFFFF as a substitution value is
    // well-formed too: it is the AAT "deleted glyph" (the glyph is removed from the run). Only
    // what `morx::encode` writes counts: the substitution tables of contextual subtables, the
    // first one of a non-contextual subtable, the ligature list of a ligature subtable.
    e.well_formed = m.chains.iter().all(|c| {
        c.subs.iter().all(|s| {
            let used = match s.kind {
                1 => s.substs.len(),
                4 => 1,
                _ => 0,
            };
            s.substs.iter().take(used).all(|(_, map)| map.iter().all(|(_, o)| *o < n || *o == 0xFFFF)) && (s.kind != 2 || s.ligs.iter().all(|l| *l < n))
        })
    });
    for t in e.tables.iter_mut().filter(|t| &t.tag == b"morx") {
        t.anchors = anchors.iter().filter(|a| a.off as usize + a.width as usize <= t.len).cloned().collect();
    }
    Some(e)
}

/// Letters, digits, '/', U+2044: a GSUB whose ligatures (also nested in context rules) mix
/// letters and digits, next to a `frac` feature (see c02_fraclig.rs).
fn build_fraclig_font(m: &fraclig::FracLig) -> Option<FontEntry> {
    let mut f = synthetic_base();
    f.cmap.insert(0x2044, 59);
    let (features, lookups) = fraclig::program(m);
    let feats: Vec<(&[u8; 4], Vec<u16>)> = features.iter().map(|(t, l)| (t, l.clone())).collect();
    f.extra.push((*b"GSUB", layout_table(&feats, &lookups)));
    f.extra.push((*b"GDEF", gdef_classes(&[(1, 36, 1), (37, 38, 3), (42, 50, 2)])));
    let mut e = make_entry("generated", "generated/fraclig:latn".to_string(), *b"latn", true, f.build())?;
    e.generated = true;
    Some(e)
}

fn build_generated(g: &Generated) -> Option<FontEntry> {
    use crate::fontgen::{otl, otl_gpos};
    if let Some(m) = &g.morx {
        return build_morx_font(m);
    }
    if let Some(m) = &g.fraclig {
        return build_fraclig_font(m);
    }
    use crate::props::{c04, c05};
    let p4 = g.gsub.as_ref().map(|c| c04::resolve(c));
    let p5 = g.tape.as_ref().map(|t| c05::build_program(t));
    let n = p4.as_ref().map(|p| p.n).unwrap_or(0).max(p5.as_ref().map(|p| p.nglyphs.saturating_sub(1)).unwrap_or(0)).clamp(4, 200);
    let script: [u8; 4] = if g.script < 3 { *b"latn" } else { GEN_SCRIPTS[(g.script as usize - 3) % GEN_SCRIPTS.len()] };
    let complex = &script != b"latn";
    let mut f = BasicFont::with_glyphs(n + 1);
    for gid in 1..=n {
        f.cmap.insert(0xE000 + gid as u32, gid);
    }
    if let Some(p) = &p5 {
        for gid in 0..=n as usize {
            if let (Some(a), Some(m)) = (p.advances.get(gid), f.metrics.get_mut(gid)) {
                *m = (*a, 0);
            }
        }
    }
    if complex {
        let a = alphabet_for(&script);
        let nn = n as u32;
        for c in a.halant.iter().chain(a.nukta.iter()).chain(a.ra.iter()).chain(a.prebase.iter()).chain(a.special.iter()) {
            f.cmap.entry(*c).or_insert(1 + (*c % nn) as u16);
        }
        for (lo, hi) in a.cons.iter().chain(a.matra.iter()).chain(a.marks.iter()) {
            for c in *lo..=(*hi).min(*lo + 96) {
                f.cmap.entry(c).or_insert(1 + (c % nn) as u16);
            }
        }
        f.cmap.insert(0x25CC, 1 + (0x25CC % nn) as u16);
        f.cmap.insert(0x200D, 1 + (0x200D % nn) as u16);
        f.cmap.insert(0x200C, 1 + (0x200C % nn) as u16);
    }
    let mut tuples: Vec<Vec<i16>> = Vec::new();
    let mut strings: Vec<Vec<u16>> = Vec::new();
    let mut have_gdef = false;
    if let Some(p) = &p4 {
        let mut gsub = p.gsub.clone();
        if complex {
            if g.retag {
                let new = shaper_feature_tags(&script);
                let mut old: Vec<[u8; 4]> = gsub.features.iter().map(|x| x.tag).collect();
                old.sort();
                old.dedup();
                for ft in gsub.features.iter_mut() {
                    let i = old.iter().position(|t| *t == ft.tag).unwrap_or(0);
                    ft.tag = *new[(i + g.script as usize) % new.len()];
                }
            }
            if let Some(first) = gsub.scripts.first().cloned() {
                if !gsub.scripts.iter().any(|s| s.tag == script) {
                    let mut s2 = first;
                    s2.tag = script;
                    gsub.scripts.push(s2);
                    gsub.scripts.sort_by_key(|s| s.tag);
                }
            }
        }
        if let Ok(bytes) = otl::gsub_table(&gsub) {
            f.extra.push((*b"GSUB", bytes));
            let axes = gsub.feature_variations.as_ref().map(|v| v.axis_count as usize).unwrap_or(0);
            if axes > 0 {
                let models: Vec<crate::fontgen::var::AxisModel> = (0..axes)
                    .map(|i| crate::fontgen::var::AxisModel { tag: [b'a', b'x', b'0', b'0' + (i % 10) as u8], min: -65536, default: 0, max: 65536, flags: 0, name_id: 256 + i as u16 })
                    .collect();
                f.extra.push((*b"fvar", crate::fontgen::var::fvar_table(&models, &[], 0)));
                for r in &p.requests {
                    if let Some(t) = &r.tuple {
                        tuples.push(t.clone());
                    }
                }
            }
        }
        strings.extend(p.strings.iter().cloned());
        if let (Some(gd), false) = (&p.gdef, g.gdef_from_gpos && p5.as_ref().map(|q| q.gdef.is_some()).unwrap_or(false)) {
            f.extra.push((*b"GDEF", otl::gdef_table(gd)));
            have_gdef = true;
        }
    }
    if let Some(p) = &p5 {
        if let Some(gp) = &p.gpos {
            let mut gp = gp.clone();
            if complex {
                if let Some(first) = gp.scripts.first().cloned() {
                    if !gp.scripts.iter().any(|s| s.tag == script) {
                        let mut s2 = first;
                        s2.tag = script;
                        gp.scripts.push(s2);
                    }
                }
            }
            if let Ok(bytes) = otl_gpos::encode_gpos(&gp) {
                f.extra.push((*b"GPOS", bytes));
            }
        }
        if let Some(k) = &p.kern {
            f.extra.push((*b"kern", otl_gpos::encode_kern(k).0));
        }
        if !have_gdef {
            if let Some(gd) = &p.gdef {
                if let Ok(bytes) = otl_gpos::encode_gdef(gd) {
                    f.extra.push((*b"GDEF", bytes));
                }
            }
        }
        for s in &p.strings {
            strings.push(s.iter().map(|x| x.gid).collect());
        }
    }
    let name = format!(
        "generated/{}{}:{}",
        if p4.is_some() { "c04" } else { "" },
        if p5.is_some() { "+c05" } else { "" },
        String::from_utf8_lossy(&script)
    );
    let mut e = make_entry("generated", name, script, true, f.build())?;
    e.generated = true;
    e.pua = true;
    e.tuples = tuples;
    // the generators' own witness strings, spelled with the private-use characters
    for s in strings.iter().filter(|s| !s.is_empty()).take(12) {
        let text: String = s.iter().filter_map(|gid| char::from_u32(0xE000 + *gid as u32)).take(32).collect();
        e.probes.push(Probe { table: 0xFF, lookup: 0xFFFF, ty: 0, text, feature: None });
    }
    Some(e)
}

fn gen_strategy() -> impl Strategy<Value = Generated> {
    let tape = || proptest::collection::vec(any::<u32>(), 900..=900);
    let programs = prop_oneof![
        35 => crate::props::c04::case_strategy().prop_map(|c| (Some(Box::new(c)), None)),
        25 => tape().prop_map(|t| (None, Some(t))),
        40 => (crate::props::c04::case_strategy(), tape()).prop_map(|(c, t)| (Some(Box::new(c)), Some(t))),
    ];
    let layout = (programs, 0u8..12, any::<bool>(), any::<bool>()).prop_map(|((gsub, tape), script, retag, gdef_from_gpos)| Generated { gsub, tape, script, retag, gdef_from_gpos, morx: None, fraclig: None });
    let state_tables = morx::strategy().prop_map(|m| Generated { gsub: None, tape: None, script: 0, retag: false, gdef_from_gpos: false, morx: Some(m), fraclig: None });
    let frac_ligatures = fraclig::strategy().prop_map(|m| Generated { gsub: None, tape: None, script: 0, retag: false, gdef_from_gpos: false, morx: None, fraclig: Some(m) });
    prop_oneof![62 => layout, 26 => state_tables, 12 => frac_ligatures]
}

fn generated_strategy(max_toks: usize, max_len: u16) -> impl Strategy<Value = Case> {
    (case_strategy(max_toks, max_len), gen_strategy(), any::<u32>(), any::<u8>()).prop_map(|(mut c, g, sel, m)| {
        // script tag: the tags the programs are registered under, mostly
        c.script = match (g.script < 3, sel % 10) {
            (true, 0..=4) => ScriptSel::Tag(*b"latn"),
            (true, 5..=7) => ScriptSel::Tag(*b"DFLT"),
            (false, 0..=6) => ScriptSel::Matching,
            (false, 7) => ScriptSel::Tag(*b"latn"),
            _ => c.script,
        };
        c.text_follows_script = false;
        if g.morx.is_some() {
            // morx is only used by the default shaper path... every script goes through it, but
            // keep the text Latin (the class tables talk about the first letters)
            c.alphabet = None;
        }
        // witness / reaching strings more often than for catalogue fonts
        if c.probe.is_none() && sel & 0x300 != 0 {
            c.probe = Some((sel.rotate_left(9), if m & 0x60 == 0 { m | 0x10 } else { m & !0x10 }));
        }
        // structural faults are the interesting ones on small generated tables
        if c.faults.len() > 2 {
            c.faults.truncate(2);
        }
        if let Some(fl) = &g.fraclig {
            // the model's own text; FRAC set in the mask (most of the time), mostly intact
            c.text = fraclig::text(fl).into_iter().map(|ch| Tok::Lit(ch as u32)).collect();
            c.tail = Vec::new();
            c.probe = None;
            c.alphabet = None;
            if m & 7 != 0 {
                c.feats = match c.feats {
                    FeatSel::Mask(b) | FeatSel::MaskOnly(b) => FeatSel::Mask(b | FeatureMask::FRAC.bits()),
                    FeatSel::Custom(_) => FeatSel::Mask(FeatureMask::FRAC.bits() | if sel & 0x1000 != 0 { FeatureMask::DLIG.bits() } else { 0 }),
                };
            }
            if sel & 0xC000 != 0 {
                c.faults.clear();
            }
        }
        c.generated = Some(g);
        c
    })
}

// ------------------------------------------------------------------------------------------
// the case model
// ------------------------------------------------------------------------------------------

#[derive(Clone, Debug, PartialEq)]
pub enum FaultKind {
    Set8(u8),
    Set16(u16),
    Set32(u32),
    /// add a small delta to the big-endian u16 at the position
    Add16(i8),
    /// table length + delta, as u16
    Len16(i8),
    /// copy the u16 found at another position of the same table
    Copy16(u32),
    /// zero 2..=16 bytes
    Zero(u8),
    /// rename the table in the directory (the font then lacks it)
    Hide,
    /// structural field := boundary value: (anchor selector, value selector) over the located
    /// count / offset / format / class / index fields of the table
    Field(u32, u8),
    /// the same, addressed exactly: (table index, anchor index, value index) (enumeration)
    FieldExact(u8, u32, u8),
}

#[derive(Clone, Debug, PartialEq)]
pub struct Fault {
    /// which layout table (pick over the tables the font has)
    pub table: u32,
    /// 0/1: structural position, 2: first 128 bytes, 3: anywhere
    pub mode: u8,
    pub pos: u32,
    pub kind: FaultKind,
}

#[derive(Clone, Debug, PartialEq)]
pub enum ScriptSel {
    Matching,
    Other(u32),
    Unknown(u32),
    /// this exact tag (feature-directed cases)
    Tag([u8; 4]),
}

#[derive(Clone, Debug, PartialEq)]
pub enum LangSel {
    None,
    Dflt,
    FontLang(u32),
    WellKnown(u32),
    Random(u32),
}

#[derive(Clone, Debug, PartialEq)]
pub enum FeatSel {
    /// FeatureMask::default() | bits
    Mask(u64),
    /// exactly these bits
    MaskOnly(u64),
    /// (tag selector, selector kind 0 font / 1 well-known / 2 random, alternate)
    Custom(Vec<(u32, u8, Option<u8>)>),
}

#[derive(Clone, Debug)]
pub struct Case {
    /// font class `generated-layout`: the font is built from these programs instead of being
    /// picked from the catalogue
    pub generated: Option<Generated>,
    /// exact (group index, font index) instead of the `group` / `font` selectors (sweep)
    pub direct: Option<(u16, u16)>,
    pub group: u32,
    pub font: u32,
    pub faults: Vec<Fault>,
    pub script: ScriptSel,
    /// draw the text from the alphabet of the *script tag* rather than the font's script
    pub text_follows_script: bool,
    pub lang: LangSel,
    pub feats: FeatSel,
    /// raw F2Dot14 coordinates (clamped to [-1, 1]); used when the font is variable
    pub tuple: Option<Vec<i16>>,
    pub kerning: bool,
    pub presentation_required: bool,
    pub rtl: bool,
    pub vertical: bool,
    pub max_len: u16,
    pub text: Vec<Tok>,
    /// appended after `text` (which is cut so that the tail fits): keeps e.g. a fraction at the
    /// end of the run
    pub tail: Vec<Tok>,
    /// draw the text from this alphabet instead of the font's
    pub alphabet: Option<[u8; 4]>,
    pub focus: Option<Focus>,
    /// use one of the font's lookup-reaching strings: (selector, mode). Mode bit 0: prefer a
    /// string for the lookup hit by a structural fault; bit 1: put it at the end of the text
    /// (else at the start); bits 2-3: 0/1 keep features, 2 add the lookup's feature to the mask,
    /// 3 Features::Custom with the lookup's feature; bit 4: replace the text entirely
    pub probe: Option<(u32, u8)>,
    /// exact probe index (enumeration)
    pub probe_exact: Option<u32>,
}

const OTHER_SCRIPTS: &[&[u8; 4]] = &[
    b"arab", b"syrc", b"deva", b"beng", b"guru", b"gujr", b"orya", b"taml", b"telu", b"knda", b"mlym", b"sinh", b"khmr",
    b"mymr", b"mym2", b"thai", b"lao ", b"latn", b"cyrl", b"grek", b"DFLT", b"dev2", b"bng2", b"mlm2", b"hani", b"kana",
    b"hebr", b"mong", b"tibt",
    // every "version 2" Indic tag of the registry and a wider sample of registered script tags
    // (after seeded miss C02-12: a tag the library newly learns to dispatch on must be in the pool)
    b"gur2", b"gjr2", b"ory2", b"tml2", b"tel2", b"knd2", b"armn", b"geor", b"ethi", b"hang", b"bopo", b"nko ", b"thaa",
    b"mand", b"samr", b"adlm", b"rohg", b"phag", b"cham", b"java", b"bali", b"sund", b"lana", b"tavt", b"talu", b"lepc",
    b"limb", b"mtei", b"cakm", b"sylo", b"math", b"musc", b"zinh", b"zyyy", b"zzzz", b"brai", b"cher", b"cans", b"ogam",
    b"runr", b"copt", b"goth", b"yi  ",
];

const WELL_KNOWN_LANGS: &[&[u8; 4]] = &[
    b"dflt", b"URD ", b"ARA ", b"FAR ", b"SND ", b"KSH ", b"MAR ", b"NEP ", b"HIN ", b"SAN ", b"BEN ", b"TAM ", b"MAL ",
    b"MLR ", b"KHM ", b"BRM ", b"THA ", b"LAO ", b"SYR ", b"ROM ", b"TRK ", b"SRB ", b"MKD ", b"NLD ", b"ZHS ", b"JAN ",
];

const WELL_KNOWN_FEATURES: &[&[u8; 4]] = &[
    b"fina", b"init", b"medi", b"isol", b"med2", b"fin2", b"fin3", b"rlig", b"liga", b"clig", b"calt", b"ccmp", b"locl",
    b"rvrn", b"frac", b"numr", b"dnom", b"vert", b"vrt2", b"kern", b"mark", b"mkmk", b"curs", b"dist", b"abvm", b"blwm",
    b"akhn", b"rphf", b"rkrf", b"pref", b"blwf", b"half", b"abvf", b"pstf", b"cjct", b"vatu", b"pres", b"abvs", b"blws",
    b"psts", b"haln", b"nukt", b"smcp", b"c2sc", b"salt", b"aalt", b"ss01", b"cv01", b"zero", b"onum", b"tnum", b"dlig",
    b"hlig", b"mset", b"stch", b"cfar", b"afrc", b"ordn",
];

const BOUNDARY16: &[u16] = &[0, 1, 2, 3, 4, 6, 8, 0x7F, 0x80, 0xFF, 0x100, 0x7FFF, 0x8000, 0xFFFE, 0xFFFF, 0xFF00];

fn tok_strategy() -> impl Strategy<Value = Tok> {
    prop_oneof![
        10 => any::<u32>().prop_map(Tok::Cons),
        6 => any::<u32>().prop_map(Tok::Halant),
        3 => any::<u32>().prop_map(Tok::Nukta),
        3 => any::<u32>().prop_map(Tok::Ra),
        5 => any::<u32>().prop_map(Tok::Matra),
        3 => any::<u32>().prop_map(Tok::PreBase),
        4 => any::<u32>().prop_map(Tok::Mark),
        4 => any::<u32>().prop_map(Tok::Special),
        6 => any::<u32>().prop_map(Tok::Block),
        4 => any::<u32>().prop_map(Tok::Joiner),
        2 => any::<u32>().prop_map(Tok::GenericMark),
        2 => any::<u32>().prop_map(Tok::Vs),
        1 => Just(Tok::Dotted),
        3 => any::<u32>().prop_map(Tok::Ascii),
        2 => (any::<u32>(), any::<u32>()).prop_map(|(a, b)| Tok::Foreign(a, b)),
        2 => any::<u32>().prop_map(Tok::Any),
        3 => any::<u8>().prop_map(Tok::Repeat),
        2 => (any::<u32>(), any::<u32>(), any::<u32>()).prop_map(|(a, b, c)| Tok::Fraction(a, b, c)),
        14 => (any::<u8>(), any::<u32>(), any::<u32>(), any::<u32>()).prop_map(|(k, a, b, c)| Tok::Syl(k, a, b, c)),
    ]
}

fn fault_strategy() -> impl Strategy<Value = Fault> {
    let kind = prop_oneof![
        3 => (0usize..BOUNDARY16.len()).prop_map(|i| FaultKind::Set16(BOUNDARY16[i])),
        2 => any::<u16>().prop_map(FaultKind::Set16),
        2 => any::<u8>().prop_map(FaultKind::Set8),
        1 => prop_oneof![Just(0u32), Just(1), Just(0xFFFF), Just(0x10000), Just(0x7FFF_FFFF), Just(0xFFFF_FFFF), any::<u32>()]
            .prop_map(FaultKind::Set32),
        4 => prop_oneof![Just(-2i8), Just(-1), Just(1), Just(2), Just(4), Just(-4), -64i8..64].prop_map(FaultKind::Add16),
        1 => (-4i8..=4).prop_map(FaultKind::Len16),
        2 => any::<u32>().prop_map(FaultKind::Copy16),
        1 => any::<u8>().prop_map(FaultKind::Zero),
        1 => Just(FaultKind::Hide),
        12 => (any::<u32>(), any::<u8>()).prop_map(|(a, v)| FaultKind::Field(a, v)),
    ];
    (any::<u32>(), 0u8..4, any::<u32>(), kind).prop_map(|(table, mode, pos, kind)| Fault { table, mode, pos, kind })
}

fn case_strategy(max_toks: usize, max_len: u16) -> impl Strategy<Value = Case> {
    let faults = prop_oneof![
        4 => Just(Vec::new()),
        6 => proptest::collection::vec(fault_strategy(), 1..=4),
    ];
    let script = prop_oneof![
        6 => Just(ScriptSel::Matching),
        3 => any::<u32>().prop_map(ScriptSel::Other),
        1 => any::<u32>().prop_map(ScriptSel::Unknown),
    ];
    let lang = prop_oneof![
        3 => Just(LangSel::None),
        3 => Just(LangSel::Dflt),
        3 => any::<u32>().prop_map(LangSel::FontLang),
        1 => any::<u32>().prop_map(LangSel::WellKnown),
        1 => any::<u32>().prop_map(LangSel::Random),
    ];
    let feats = prop_oneof![
        3 => Just(FeatSel::Mask(0)),
        4 => (any::<u64>(), any::<u64>()).prop_map(|(a, b)| FeatSel::Mask(a & b)),
        1 => any::<u64>().prop_map(FeatSel::Mask),
        1 => any::<u64>().prop_map(FeatSel::MaskOnly),
        3 => proptest::collection::vec((any::<u32>(), 0u8..3, proptest::option::weighted(0.3, any::<u8>())), 0..8)
            .prop_map(FeatSel::Custom),
    ];
    let tuple = proptest::option::weighted(
        0.6,
        proptest::collection::vec(prop_oneof![Just(0i16), Just(16384), Just(-16384), -16384i16..=16384], 0..5),
    );
    let text = proptest::collection::vec(tok_strategy(), 0..=max_toks);
    let probe = proptest::option::weighted(0.35, (any::<u32>(), any::<u8>()));
    (
        (any::<u32>(), any::<u32>(), faults, script, any::<bool>(), lang),
        (feats, tuple, any::<bool>(), any::<bool>(), any::<bool>(), proptest::bool::weighted(0.2)),
        (text, probe),
    )
        .prop_map(move |((group, font, faults, script, tfs, lang), (feats, tuple, kerning, pres, rtl, vertical), (text, probe))| Case {
            generated: None,
            direct: None,
            group,
            font,
            faults,
            script,
            text_follows_script: tfs,
            lang,
            feats,
            tuple,
            kerning,
            presentation_required: pres,
            rtl,
            vertical,
            max_len,
            text,
            tail: Vec::new(),
            alphabet: None,
            focus: None,
            // a lookup-reaching string is only meaningful with the font's own script tag
            probe: probe.map(|(s, m)| (s, if m & 0x60 == 0 { m | 0x10 } else { m & !0x10 })),
            probe_exact: None,
        })
}

// ---- feature-directed cases: a font that has the feature, a script tag handled by the default
// ---- shaper (where Features::Mask bits take effect), arguments that switch the path on, and a
// ---- text that feeds it.

#[derive(Clone, Debug)]
pub struct FocusRaw {
    pub kind: u8,
    pub font: u32,
    pub script: u8,
    pub featmode: u8,
    pub bits: u64,
    pub alt: u8,
    pub lang: u8,
    pub flags: u8,
    pub faults: Vec<Fault>,
    pub tuple: Vec<i16>,
    pub head: Vec<Tok>,
    pub tail: (u32, u32, u32),
}

pub fn make_focused(r: FocusRaw, max_len: u16) -> Case {
    let focus = FOCUS_ALL[r.kind as usize % FOCUS_ALL.len()];
    let set = fonts();
    let list = &set.focus_fonts[focus as usize];
    let direct = if list.is_empty() { None } else { Some(list[pick(list.len(), r.font)]) };
    let tags = focus_tags(focus);
    let tag = tagv(tags[(r.alt as usize >> 4) % tags.len()]);
    let script = match (focus, r.script % 10) {
        (Focus::CustomFina, 0..=5) => ScriptSel::Matching,
        (Focus::Vert, 0..=2) => ScriptSel::Tag(*b"kana"),
        (Focus::Vert, 3) => ScriptSel::Tag(*b"hani"),
        (_, 0..=4) => ScriptSel::Tag(*b"latn"),
        (_, 5..=6) => ScriptSel::Tag(*b"DFLT"),
        (_, 7) => ScriptSel::Tag(*b"cyrl"),
        (_, 8) => ScriptSel::Matching,
        _ => ScriptSel::Unknown(r.font ^ 0x5a5a_1234),
    };
    let focus_bits = match focus {
        Focus::Frac => FeatureMask::FRAC.bits() | if r.bits & 7 == 0 { FeatureMask::AFRC.bits() } else { 0 },
        Focus::Vert => FeatureMask::VRT2_OR_VERT.bits(),
        Focus::Numbers => {
            (FeatureMask::ONUM | FeatureMask::LNUM | FeatureMask::TNUM | FeatureMask::PNUM | FeatureMask::ZERO | FeatureMask::ORDN | FeatureMask::SMCP | FeatureMask::C2SC | FeatureMask::DLIG | FeatureMask::HLIG).bits()
                & (r.bits | r.bits >> 20)
        }
        Focus::Rvrn => if r.bits & 1 == 0 { FeatureMask::RVRN.bits() } else { 0 },
        _ => 0,
    };
    let few = r.bits & (r.bits >> 13) & (r.bits >> 29);
    let custom = || {
        let mut v = vec![(tag, 2u8, if r.alt & 3 == 0 { None } else { Some(r.alt & 0x0f) })];
        for k in 0..(r.featmode as u32 >> 4) % 4 {
            v.push(((r.bits >> (8 * k)) as u32, (k % 2) as u8, None));
        }
        if r.featmode & 8 != 0 {
            v.reverse();
        }
        FeatSel::Custom(v)
    };
    let feats = match (focus, r.featmode % 8) {
        (Focus::CustomFina | Focus::Alternates, _) => custom(),
        (_, 0..=4) => FeatSel::Mask(focus_bits | few),
        (_, 5) => FeatSel::MaskOnly(focus_bits | few),
        _ => custom(),
    };
    let tail = match (focus, r.flags & 0xc0) {
        (Focus::Frac, 0x00 | 0x40 | 0x80) => vec![Tok::Fraction(r.tail.0, r.tail.1, r.tail.2)],
        (Focus::Frac, _) => Vec::new(),
        (_, 0x00) => vec![Tok::Fraction(r.tail.0, r.tail.1, r.tail.2)],
        _ => Vec::new(),
    };
    Case {
        generated: None,
        direct,
        group: r.font,
        font: r.font,
        faults: r.faults,
        script,
        text_follows_script: false,
        lang: match r.lang % 6 {
            0..=2 => LangSel::None,
            3 => LangSel::Dflt,
            4 => LangSel::FontLang(r.font.rotate_left(7)),
            _ => LangSel::WellKnown(r.font.rotate_left(11)),
        },
        feats,
        tuple: if focus == Focus::Rvrn || r.flags & 0x20 != 0 { Some(r.tuple) } else { None },
        kerning: r.flags & 1 != 0,
        presentation_required: r.flags & 2 != 0 && r.flags & 0x10 != 0,
        rtl: r.flags & 4 != 0,
        vertical: if focus == Focus::Vert { r.flags & 8 == 0 } else { r.flags & 0x18 == 0x18 },
        max_len,
        text: r.head,
        tail,
        alphabet: match focus {
            Focus::Vert => Some(*b"kana"),
            Focus::CustomFina => None,
            _ => Some(*b"latn"),
        },
        focus: Some(focus),
        probe: None,
        probe_exact: None,
    }
}

fn focus_tok_strategy() -> impl Strategy<Value = Tok> {
    prop_oneof![
        8 => any::<u32>().prop_map(Tok::Cons),
        4 => any::<u32>().prop_map(Tok::Ascii),
        3 => any::<u32>().prop_map(Tok::Special),
        2 => any::<u32>().prop_map(Tok::Block),
        2 => any::<u32>().prop_map(Tok::Ra),
        1 => any::<u32>().prop_map(Tok::Mark),
        1 => any::<u32>().prop_map(Tok::Joiner),
        1 => any::<u32>().prop_map(Tok::Vs),
        1 => any::<u8>().prop_map(Tok::Repeat),
        2 => (any::<u32>(), any::<u32>(), any::<u32>()).prop_map(|(a, b, c)| Tok::Fraction(a, b, c)),
        1 => (any::<u8>(), any::<u32>(), any::<u32>(), any::<u32>()).prop_map(|(k, a, b, c)| Tok::Syl(k, a, b, c)),
    ]
}

fn focused_strategy(max_toks: usize, max_len: u16) -> impl Strategy<Value = Case> {
    let kind = prop_oneof![8 => Just(0u8), 2 => Just(1u8), 3 => Just(2u8), 2 => Just(3u8), 2 => Just(4u8), 3 => Just(5u8)];
    let faults = prop_oneof![7 => Just(Vec::new()), 3 => proptest::collection::vec(fault_strategy(), 1..=2)];
    (
        (kind, any::<u32>(), any::<u8>(), any::<u8>(), any::<u64>(), any::<u8>(), any::<u8>(), any::<u8>()),
        faults,
        proptest::collection::vec(prop_oneof![Just(0i16), Just(16384), Just(-16384), -16384i16..=16384], 0..3),
        proptest::collection::vec(focus_tok_strategy(), 0..=max_toks.min(6)),
        (any::<u32>(), any::<u32>(), any::<u32>()),
    )
        .prop_map(move |((kind, font, script, featmode, bits, alt, lang, flags), faults, tuple, head, tail)| {
            make_focused(FocusRaw { kind, font, script, featmode, bits, alt, lang, flags, faults, tuple, head, tail }, max_len)
        })
}

fn full_strategy(max_toks: usize, max_len: u16) -> impl Strategy<Value = Case> {
    // VERIF_C02_ONLY=general|focused|generated restricts the mix (profiling / triage aid)
    let only = std::env::var("VERIF_C02_ONLY").unwrap_or_default();
    let w = |name: &str, w: u32| if only.is_empty() || only == name { w } else { 0 };
    prop_oneof![
        w("general", 65) => case_strategy(max_toks, max_len),
        w("focused", 20) => focused_strategy(max_toks, max_len),
        w("generated", 15) => generated_strategy(max_toks, max_len),
    ]
}

// ---- libFuzzer decoding (structure-aware: the fuzzer mutates choices, not raw font bytes)

fn u_tok(u: &mut Unstructured) -> arbitrary::Result<Tok> {
    Ok(match u.int_in_range(0u8..=25)? {
        0..=3 => Tok::Cons(u.arbitrary()?),
        4..=5 => Tok::Halant(u.arbitrary()?),
        6 => Tok::Nukta(u.arbitrary()?),
        7 => Tok::Ra(u.arbitrary()?),
        8..=9 => Tok::Matra(u.arbitrary()?),
        10 => Tok::PreBase(u.arbitrary()?),
        11 => Tok::Mark(u.arbitrary()?),
        12 => Tok::Special(u.arbitrary()?),
        13..=14 => Tok::Block(u.arbitrary()?),
        15 => Tok::Joiner(u.arbitrary()?),
        16 => Tok::GenericMark(u.arbitrary()?),
        17 => Tok::Vs(u.arbitrary()?),
        18 => Tok::Dotted,
        19 => Tok::Ascii(u.arbitrary()?),
        20 => Tok::Foreign(u.arbitrary()?, u.arbitrary()?),
        21 => Tok::Any(u.arbitrary()?),
        22 => Tok::Repeat(u.arbitrary()?),
        23 => Tok::Fraction(u.arbitrary()?, u.arbitrary()?, u.arbitrary()?),
        _ => Tok::Syl(u.arbitrary()?, u.arbitrary()?, u.arbitrary()?, u.arbitrary()?),
    })
}

fn u_fault(u: &mut Unstructured) -> arbitrary::Result<Fault> {
    let table = u.arbitrary()?;
    let mode = u.int_in_range(0u8..=3)?;
    let pos = u.arbitrary()?;
    let kind = match u.int_in_range(0u8..=12)? {
        0 => FaultKind::Set16(BOUNDARY16[u.int_in_range(0..=BOUNDARY16.len() - 1)?]),
        1 => FaultKind::Set16(u.arbitrary()?),
        2 => FaultKind::Set8(u.arbitrary()?),
        3 => FaultKind::Set32(u.arbitrary()?),
        4 => FaultKind::Add16(u.arbitrary()?),
        5 => FaultKind::Len16(u.int_in_range(-4i8..=4)?),
        6 => FaultKind::Copy16(u.arbitrary()?),
        7 => FaultKind::Zero(u.arbitrary()?),
        8 => FaultKind::Hide,
        _ => FaultKind::Field(u.arbitrary()?, u.arbitrary()?),
    };
    Ok(Fault { table, mode, pos, kind })
}

/// bytes → (font choice, script, text, flags)
pub fn case_from_bytes(data: &[u8]) -> arbitrary::Result<Case> {
    let mut u = Unstructured::new(data);
    let mode: u8 = u.arbitrary()?;
    if mode < 56 {
        // feature-directed case
        let kind = mode % 6;
        let font = u.arbitrary()?;
        let script = u.arbitrary()?;
        let featmode = u.arbitrary()?;
        let bits = u.arbitrary()?;
        let alt = u.arbitrary()?;
        let lang = u.arbitrary()?;
        let flags = u.arbitrary()?;
        let nf = u.int_in_range(0usize..=2)?;
        let mut faults = Vec::new();
        for _ in 0..nf {
            faults.push(u_fault(&mut u)?);
        }
        let nt = u.int_in_range(0usize..=2)?;
        let mut tuple = Vec::new();
        for _ in 0..nt {
            tuple.push(u.int_in_range(-16384i16..=16384)?);
        }
        let tail = (u.arbitrary()?, u.arbitrary()?, u.arbitrary()?);
        let mut head = Vec::new();
        while !u.is_empty() && head.len() < 24 {
            head.push(u_tok(&mut u)?);
        }
        return Ok(make_focused(FocusRaw { kind, font, script, featmode, bits, alt, lang, flags, faults, tuple, head, tail }, 200));
    }
    if mode < 104 {
        // generated-layout font: 32 bytes seed a C04 case (through its proptest strategy), up to
        // 900 little-endian words are the C05 tape, the rest decodes like a general case
        let which = mode % 3; // 0 GSUB only, 1 GPOS only, 2 both
        let script: u8 = u.int_in_range(0u8..=11)?;
        let gflags: u8 = u.arbitrary()?;
        let gsub = if which != 1 {
            let mut seed = [0u8; 32];
            for b in seed.iter_mut() {
                *b = u.arbitrary()?;
            }
            c04_case_from_seed(seed).map(Box::new)
        } else {
            None
        };
        let tape = if which != 0 {
            let words = u.int_in_range(0usize..=900)?;
            let mut bytes = Vec::with_capacity(words * 4);
            for _ in 0..words * 4 {
                bytes.push(u.arbitrary::<u8>().unwrap_or(0));
            }
            Some(crate::props::c05::tape_from_bytes(&bytes))
        } else {
            None
        };
        let mut c = general_case(&mut u)?;
        if c.faults.len() > 2 {
            c.faults.truncate(2);
        }
        c.script = match gflags & 7 {
            0..=2 => ScriptSel::Matching,
            3..=4 => ScriptSel::Tag(*b"latn"),
            5 => ScriptSel::Tag(*b"DFLT"),
            _ => c.script,
        };
        c.text_follows_script = false;
        c.generated = Some(Generated { gsub, tape, script, retag: gflags & 8 != 0, gdef_from_gpos: gflags & 16 != 0, morx: None, fraclig: None });
        return Ok(c);
    }
    if (120..128).contains(&mode) {
        // generated frac + ligature font: 32 bytes seed the model (font and text)
        let mut seed = [0u8; 32];
        for b in seed.iter_mut() {
            *b = u.arbitrary()?;
        }
        let fl = fraclig_case_from_seed(seed);
        let mut c = general_case(&mut u)?;
        c.faults.clear();
        c.script = if mode & 1 == 0 { ScriptSel::Tag(*b"latn") } else { ScriptSel::Tag(*b"DFLT") };
        c.text_follows_script = false;
        c.probe = None;
        if let Some(fl) = &fl {
            c.text = fraclig::text(fl).into_iter().map(|ch| Tok::Lit(ch as u32)).collect();
        }
        c.feats = match c.feats {
            FeatSel::Mask(b) | FeatSel::MaskOnly(b) => FeatSel::Mask(b | FeatureMask::FRAC.bits()),
            FeatSel::Custom(_) => FeatSel::Mask(FeatureMask::FRAC.bits()),
        };
        c.generated = fl.map(|fl| Generated { gsub: None, tape: None, script: 0, retag: false, gdef_from_gpos: false, morx: None, fraclig: Some(fl) });
        return Ok(c);
    }
    if mode < 128 {
        // generated morx font: 32 bytes seed the morx strategy, the rest is a general case
        let mut seed = [0u8; 32];
        for b in seed.iter_mut() {
            *b = u.arbitrary()?;
        }
        let m = morx_case_from_seed(seed);
        let mut c = general_case(&mut u)?;
        if c.faults.len() > 2 {
            c.faults.truncate(2);
        }
        c.script = if mode & 1 == 0 { ScriptSel::Tag(*b"latn") } else { c.script };
        c.text_follows_script = false;
        c.generated = m.map(|m| Generated { gsub: None, tape: None, script: 0, retag: false, gdef_from_gpos: false, morx: Some(m), fraclig: None });
        return Ok(c);
    }
    general_case(&mut u)
}

/// A C04 case drawn from its own strategy with a ChaCha RNG seeded by the fuzzer's bytes.
fn c04_case_from_seed(seed: [u8; 32]) -> Option<crate::props::c04::Case> {
    use proptest::strategy::ValueTree;
    use proptest::test_runner::{Config, RngAlgorithm, TestRng, TestRunner};
    let mut runner = TestRunner::new_with_rng(Config::default(), TestRng::from_seed(RngAlgorithm::ChaCha, &seed));
    crate::props::c04::case_strategy().new_tree(&mut runner).ok().map(|t| t.current())
}

fn morx_case_from_seed(seed: [u8; 32]) -> Option<morx::MorxCase> {
    use proptest::strategy::ValueTree;
    use proptest::test_runner::{Config, RngAlgorithm, TestRng, TestRunner};
    let mut runner = TestRunner::new_with_rng(Config::default(), TestRng::from_seed(RngAlgorithm::ChaCha, &seed));
    morx::strategy().new_tree(&mut runner).ok().map(|t| t.current())
}

fn fraclig_case_from_seed(seed: [u8; 32]) -> Option<fraclig::FracLig> {
    use proptest::strategy::ValueTree;
    use proptest::test_runner::{Config, RngAlgorithm, TestRng, TestRunner};
    let mut runner = TestRunner::new_with_rng(Config::default(), TestRng::from_seed(RngAlgorithm::ChaCha, &seed));
    fraclig::strategy().new_tree(&mut runner).ok().map(|t| t.current())
}

fn general_case(u: &mut Unstructured) -> arbitrary::Result<Case> {
    let group = u.arbitrary()?;
    let font = u.arbitrary()?;
    let nf = u.int_in_range(0usize..=4)?;
    let mut faults = Vec::new();
    for _ in 0..nf {
        faults.push(u_fault(u)?);
    }
    let script = match u.int_in_range(0u8..=3)? {
        0 | 1 => ScriptSel::Matching,
        2 => ScriptSel::Other(u.arbitrary()?),
        _ => ScriptSel::Unknown(u.arbitrary()?),
    };
    let flags: u8 = u.arbitrary()?;
    let lang = match u.int_in_range(0u8..=4)? {
        0 => LangSel::None,
        1 => LangSel::Dflt,
        2 => LangSel::FontLang(u.arbitrary()?),
        3 => LangSel::WellKnown(u.arbitrary()?),
        _ => LangSel::Random(u.arbitrary()?),
    };
    let feats = match u.int_in_range(0u8..=3)? {
        0 => FeatSel::Mask(0),
        1 => FeatSel::Mask(u.arbitrary()?),
        2 => FeatSel::MaskOnly(u.arbitrary()?),
        _ => {
            let n = u.int_in_range(0usize..=8)?;
            let mut v = Vec::new();
            for _ in 0..n {
                let alt: u8 = u.arbitrary()?;
                v.push((u.arbitrary()?, u.int_in_range(0u8..=2)?, if alt & 3 == 0 { Some(alt >> 2) } else { None }));
            }
            FeatSel::Custom(v)
        }
    };
    let tuple = if flags & 0x20 != 0 {
        let n = u.int_in_range(0usize..=4)?;
        let mut v = Vec::new();
        for _ in 0..n {
            v.push(u.int_in_range(-16384i16..=16384)?);
        }
        Some(v)
    } else {
        None
    };
    let mut text = Vec::new();
    while !u.is_empty() && text.len() < 64 {
        text.push(u_tok(u)?);
    }
    Ok(Case {
        generated: None,
        direct: None,
        group,
        font,
        faults,
        script,
        text_follows_script: flags & 0x40 != 0,
        lang,
        feats,
        tuple,
        kerning: flags & 1 != 0,
        presentation_required: flags & 2 != 0,
        rtl: flags & 4 != 0,
        vertical: flags & 8 != 0,
        max_len: 200,
        text,
        tail: Vec::new(),
        alphabet: None,
        focus: None,
        probe: if flags & 0x80 != 0 { Some((group ^ font, (flags >> 1) | 1)) } else { None },
        probe_exact: None,
    })
}

// ------------------------------------------------------------------------------------------
// the check
// ------------------------------------------------------------------------------------------

fn fail(what: &str, msg: String) -> Fail {
    Fail::new(format!("C02:{}", what), msg)
}

fn w16(data: &mut [u8], at: usize, v: u16) {
    if let Some(s) = data.get_mut(at..at + 2) {
        s.copy_from_slice(&v.to_be_bytes());
    }
}

/// Apply the faults; returns a description of every byte range actually changed.
fn apply_faults(entry: &FontEntry, faults: &[Fault], data: &mut Vec<u8>, hit: &mut Vec<(u8, u16)>) -> Vec<String> {
    let mut log = Vec::new();
    if entry.tables.is_empty() {
        return log;
    }
    for f in faults {
        let ti = match f.kind {
            FaultKind::FieldExact(t, _, _) => (t as usize).min(entry.tables.len() - 1),
            _ => pick(entry.tables.len(), f.table),
        };
        let t = &entry.tables[ti];
        if t.len < 2 {
            continue;
        }
        let tag = String::from_utf8_lossy(&t.tag).to_string();
        let field = match f.kind {
            FaultKind::Field(a, v) if !t.anchors.is_empty() => Some((pick(t.anchors.len(), a), v as usize, a)),
            FaultKind::FieldExact(_, a, v) if !t.anchors.is_empty() => Some(((a as usize).min(t.anchors.len() - 1), v as usize, a)),
            _ => None,
        };
        if let Some((ai, vi, sel)) = field {
            let a = &t.anchors[ai];
            let abs = t.offset + a.off as usize;
            let w = a.width as usize;
            if let Some(cur_bytes) = data.get(abs..abs + w) {
                let cur = cur_bytes.iter().fold(0u32, |acc, b| (acc << 8) | *b as u32);
                // the value of some other offset field of the same table
                let offsets: Vec<&layout::Anchor> = t.anchors.iter().filter(|x| x.kind == layout::Kind::Offset && x.width == 2).collect();
                let other = if offsets.is_empty() {
                    0
                } else {
                    let o = offsets[pick(offsets.len(), sel.rotate_left(13) ^ 0x9e37_79b9)];
                    let oa = t.offset + o.off as usize;
                    data.get(oa..oa + 2).map(|b| u16::from_be_bytes([b[0], b[1]]) as u32).unwrap_or(0)
                };
                let vals = layout::boundary_values(a.kind, cur, t.len as u32, other, a.width);
                let v = vals[vi % vals.len()];
                let be = v.to_be_bytes();
                data[abs..abs + w].copy_from_slice(&be[4 - w..]);
                if v != cur {
                    log.push(format!("{}+{} {} ({:?}, lookup {}): {} -> {}", tag, a.off, a.what, a.kind, a.lookup, cur, v));
                    hit.push((ti as u8, a.lookup));
                }
            }
            continue;
        }
        if f.kind == FaultKind::Hide {
            if let Some(b) = data.get_mut(t.record_at) {
                if b.is_ascii_uppercase() || b.is_ascii_lowercase() {
                    *b ^= 0x20;
                    log.push(format!("{}: hidden", tag));
                }
            }
            continue;
        }
        let rel = |mode: u8, pos: u32| -> usize {
            match mode {
                0 | 1 if !t.hot.is_empty() => t.hot[pick(t.hot.len(), pos)] as usize,
                0 | 1 | 2 => pick(t.len.min(128), pos) & !1,
                _ => {
                    let p = pick(t.len, pos);
                    if pos & 3 != 0 {
                        p & !1
                    } else {
                        p
                    }
                }
            }
        };
        let at = rel(f.mode, f.pos).min(t.len - 1);
        let abs = t.offset + at;
        let avail = t.len - at;
        let before: Vec<u8> = data[abs..abs + avail.min(4)].to_vec();
        let old16 = if avail >= 2 { u16::from_be_bytes([data[abs], data[abs + 1]]) } else { 0 };
        match &f.kind {
            FaultKind::Set8(v) => data[abs] = *v,
            FaultKind::Set16(v) if avail >= 2 => w16(data, abs, *v),
            FaultKind::Set32(v) if avail >= 4 => data[abs..abs + 4].copy_from_slice(&v.to_be_bytes()),
            FaultKind::Add16(d) if avail >= 2 => w16(data, abs, old16.wrapping_add(*d as i16 as u16)),
            FaultKind::Len16(d) if avail >= 2 => w16(data, abs, (t.len as i64 + *d as i64) as u16),
            FaultKind::Copy16(from) if avail >= 2 => {
                let src = t.offset + rel(f.mode ^ 1, *from).min(t.len - 2);
                let v = u16::from_be_bytes([data[src], data[src + 1]]);
                w16(data, abs, v);
            }
            FaultKind::Zero(n) => {
                let n = (2 + (*n as usize % 15)).min(avail);
                for b in &mut data[abs..abs + n] {
                    *b = 0;
                }
            }
            _ => {}
        }
        let after = &data[abs..abs + avail.min(4)];
        if before.as_slice() != after || matches!(f.kind, FaultKind::Zero(_)) {
            log.push(format!("{}+{}: {} -> {} ({:?})", tag, at, hex::encode(&before), hex::encode(after), f.kind));
        }
    }
    log
}

fn resolve_tag(sel: u32, kind: u8, entry: &FontEntry) -> u32 {
    match kind {
        0 if !entry.feature_tags.is_empty() => entry.feature_tags[pick(entry.feature_tags.len(), sel)],
        0 | 1 => tagv(WELL_KNOWN_FEATURES[pick(WELL_KNOWN_FEATURES.len(), sel)]),
        _ => sel,
    }
}

pub fn check_case(case: &Case, rec: &mut Rec) -> CaseResult {
    let set = fonts();
    if set.groups.is_empty() {
        return Err(fail("no-fixtures", "no fixture font could be read".into()));
    }
    // the synthetic group (last) gets ~15 % of the cases: its tables are tiny, so faults and
    // unusual strings reach every lookup
    let ng = set.groups.len();
    let group = if let Some((g, _)) = case.direct {
        &set.groups[(g as usize).min(ng - 1)]
    } else if case.group >= 0xD999_9999 || ng == 1 {
        &set.groups[ng - 1]
    } else {
        &set.groups[pick(ng - 1, ((case.group as u64 * 0x1_0000_0000u64) / 0xD999_9999u64).min(u32::MAX as u64) as u32)]
    };
    let gen_entry = case.generated.as_ref().map(build_generated);
    let entry: &FontEntry = match &gen_entry {
        Some(Some(e)) => e,
        Some(None) => {
            rec.class("generated:unbuildable");
            return Ok(());
        }
        None => match case.direct {
            Some((_, f)) => &group[(f as usize).min(group.len() - 1)],
            None => &group[pick(group.len(), case.font)],
        },
    };

    // ---- font bytes
    let mut owned: Option<Vec<u8>> = None;
    let mut fault_log = Vec::new();
    let mut hit_lookups: Vec<(u8, u16)> = Vec::new();
    if !case.faults.is_empty() {
        let mut data = entry.bytes.clone();
        fault_log = apply_faults(entry, &case.faults, &mut data, &mut hit_lookups);
        if data != entry.bytes {
            owned = Some(data);
        } else {
            fault_log.clear();
        }
    }
    let intact = owned.is_none();
    let bytes: &[u8] = owned.as_deref().unwrap_or(&entry.bytes);

    // ---- arguments
    let matching = tagv(&entry.script);
    let (script_tag, script_class) = match case.script {
        ScriptSel::Matching => (matching, "matching"),
        ScriptSel::Other(r) => {
            let t = tagv(OTHER_SCRIPTS[pick(OTHER_SCRIPTS.len(), r)]);
            (t, if t == matching { "matching" } else { "other" })
        }
        ScriptSel::Unknown(r) => (r, "unknown"),
        ScriptSel::Tag(t) => (tagv(&t), if tagv(&t) == matching { "matching" } else { "other" }),
    };
    let alphabet = if let Some(a) = case.alphabet {
        if entry.pua && &a == b"latn" {
            &text::PUA
        } else if entry.synthetic && &a == b"latn" {
            &text::SYNTHETIC
        } else {
            alphabet_for(&a)
        }
    } else if case.text_follows_script && script_class == "other" {
        alphabet_for(&script_tag.to_be_bytes())
    } else if entry.pua && &entry.script == b"latn" {
        &text::PUA
    } else if entry.synthetic && &entry.script == b"latn" {
        &text::SYNTHETIC
    } else {
        alphabet_for(&entry.script)
    };
    let tail = text::resolve(&case.tail, alphabet, case.max_len as usize);
    let mut chars = text::resolve(&case.text, alphabet, (case.max_len as usize).saturating_sub(tail.len()));
    chars.extend(tail);
    // lookup-reaching string
    let mut probe_feature: Option<(u32, u8)> = None;
    let mut probe_used: Option<&Probe> = None;
    if !entry.probes.is_empty() {
        let chosen = if let Some(i) = case.probe_exact {
            entry.probes.get((i as usize).min(entry.probes.len() - 1))
        } else if let Some((sel, mode)) = case.probe {
            let matching: Vec<&Probe> = if mode & 1 != 0 { entry.probes.iter().filter(|p| hit_lookups.iter().any(|(t, l)| *t == p.table && *l == p.lookup)).collect() } else { Vec::new() };
            if !matching.is_empty() {
                Some(matching[pick(matching.len(), sel)])
            } else {
                Some(&entry.probes[pick(entry.probes.len(), sel)])
            }
        } else {
            None
        };
        if let Some(p) = chosen {
            let mode = case.probe.map(|(_, m)| m).unwrap_or(0x10);
            let pc: Vec<char> = p.text.chars().collect();
            if mode & 0x10 != 0 {
                chars = pc;
            } else {
                chars.truncate((case.max_len as usize).saturating_sub(pc.len()));
                if mode & 2 != 0 {
                    chars.extend(pc);
                } else {
                    let mut v = pc;
                    v.extend(chars);
                    chars = v;
                }
            }
            if let Some(f) = p.feature {
                probe_feature = Some((f, (mode >> 2) & 3));
            }
            probe_used = Some(p);
        }
    }
    let text: String = chars.iter().collect();
    let lang = match case.lang {
        LangSel::None => None,
        LangSel::Dflt => Some(tagv(b"DFLT")),
        LangSel::FontLang(r) if !entry.lang_tags.is_empty() => Some(entry.lang_tags[pick(entry.lang_tags.len(), r)]),
        LangSel::FontLang(r) | LangSel::WellKnown(r) => Some(tagv(WELL_KNOWN_LANGS[pick(WELL_KNOWN_LANGS.len(), r)])),
        LangSel::Random(r) => Some(r),
    };
    let features = match &case.feats {
        FeatSel::Mask(bits) => Features::Mask(FeatureMask::default() | FeatureMask::from_bits_truncate(*bits)),
        FeatSel::MaskOnly(bits) => Features::Mask(FeatureMask::from_bits_truncate(*bits)),
        FeatSel::Custom(v) => Features::Custom(
            v.iter()
                .map(|(sel, kind, alt)| FeatureInfo {
                    feature_tag: resolve_tag(*sel, *kind, entry),
                    alternate: alt.map(usize::from),
                })
                .collect(),
        ),
    };
    let features = match (probe_feature, features) {
        (Some((tag, 2)), Features::Mask(m)) => Features::Mask(m | FeatureMask::from_tag(tag)),
        (Some((tag, 3)), _) => Features::Custom(
            [*b"ccmp", *b"rlig", *b"liga", *b"calt"].iter().map(|t| tagv(t)).chain(std::iter::once(tag)).map(|t| FeatureInfo { feature_tag: t, alternate: None }).collect(),
        ),
        (_, f) => f,
    };
    let presentation = if case.presentation_required { MatchingPresentation::Required } else { MatchingPresentation::NotRequired };
    let direction = if case.rtl { TextDirection::RightToLeft } else { TextDirection::LeftToRight };

    rec.hash_bytes(entry.name.as_bytes());
    if entry.generated {
        rec.hash_bytes(&entry.bytes);
        rec.artefact("generated-font", &entry.bytes);
    }
    rec.hash_bytes(format!("{:?}|{:?}|{}|{:?}|{:?}|{:?}|{:?}", fault_log, chars, script_tag, lang, features, case.tuple, (case.kerning, case.presentation_required, case.rtl, case.vertical)).as_bytes());
    rec.artefact("font", entry.name.as_bytes());
    rec.artefact("faults", fault_log.join("\n").as_bytes());
    rec.artefact("text", text.as_bytes());
    rec.artefact(
        "args",
        format!(
            "script={:?} lang={:?} features={:?} tuple={:?} kerning={} presentation={:?} direction={:?} vertical={}",
            String::from_utf8_lossy(&script_tag.to_be_bytes()),
            lang.map(|l| String::from_utf8_lossy(&l.to_be_bytes()).to_string()),
            features,
            case.tuple,
            case.kerning,
            presentation,
            direction,
            case.vertical
        )
        .as_bytes(),
    );
    rec.sample(|| {
        format!(
            "{} [{}] text={:?} script={:?} lang={:?} feats={:?} faults={:?}",
            entry.name,
            if intact { "intact" } else { "corrupted" },
            text,
            String::from_utf8_lossy(&script_tag.to_be_bytes()),
            lang,
            case.feats,
            fault_log
        )
    });
    let traced = trace_enabled() && std::env::var("VERIF_C02_TRACE_GREP").map(|g| fault_log.iter().any(|l| l.contains(&g))).unwrap_or(true);
    if traced {
        trace(format!(
            "C02-TRACE font={} intact={} faults={:?} text={:?} ({}) script={:?} lang={:?} features={:?} tuple={:?} kerning={} presentation={:?} direction={:?} vertical={}",
            entry.name,
            intact,
            fault_log,
            text,
            chars.iter().map(|c| format!("U+{:04X}", *c as u32)).collect::<Vec<_>>().join(" "),
            String::from_utf8_lossy(&script_tag.to_be_bytes()),
            lang.map(|l| String::from_utf8_lossy(&l.to_be_bytes()).to_string()),
            features,
            case.tuple,
            case.kerning,
            presentation,
            direction,
            case.vertical
        ));
    }
    rec.guard_alloc(bytes.len());

    // ---- classes of the two generated families that are known before shaping (a case that
    // ---- panics never reaches the accounting at the end)
    let mut morx_deletes = false;
    if let Some(g) = &case.generated {
        if let Some(fl) = &g.fraclig {
            let frac_on = matches!(&features, Features::Mask(m) if m.contains(FeatureMask::FRAC)) && shaper_name(script_tag) == "default";
            let (straddles, more) = fraclig::straddles(fl);
            rec.class_if(frac_on, "fraclig:FRAC-set+default-shaper");
            rec.class_if(straddles, "fraclig:text:ligature-components-straddle-start-of-fraction");
            rec.class_if(frac_on && intact && straddles, "fraclig:path:frac+ligature-straddles-start-of-fraction");
            rec.class_if(frac_on && intact && more, "fraclig:path:frac+ligature-longer-than-window-in-front-of-fraction");
            rec.class_if(chars.iter().any(|c| c.is_ascii_alphabetic()) && chars.windows(2).any(|w| w[0].is_ascii_alphabetic() && w[1].is_ascii_digit()), "fraclig:text:letter-then-digit");
            rec.class_if(chars.contains(&'\u{2044}'), "fraclig:text:U+2044");
        }
        if let Some(m) = &g.morx {
            // 0xFFFF (the AAT deleted glyph) as a substitution value of an encoded table
            let del = |kinds: &[u8]| m.chains.iter().any(|c| c.subs.iter().any(|s| kinds.contains(&s.kind) && s.substs.iter().take(if s.kind == 4 { 1 } else { s.substs.len() }).any(|(_, map)| map.iter().any(|(_, o)| *o == 0xFFFF))));
            morx_deletes = del(&[1, 4]);
            rec.class_if(intact && entry.well_formed && del(&[4]), "morx:well-formed+noncontextual-substitution-to-0xFFFF(deleted-glyph)");
            rec.class_if(intact && entry.well_formed && del(&[1]), "morx:well-formed+contextual-substitution-to-0xFFFF(deleted-glyph)");
        }
    }

    // ---- load
    let loaded = ReadScope::new(bytes)
        .read::<FontData<'_>>()
        .map_err(|e| format!("{:?}", e))
        .and_then(|fd| fd.table_provider(0).map_err(|e| format!("{:?}", e)))
        .and_then(|p| Font::new(p).map_err(|e| format!("{:?}", e)));
    let mut font = match loaded {
        Ok(f) => f,
        Err(e) => {
            // faults are confined to layout table bodies (or hide a layout table): loading
            // never looks at them, so this is a fixture/harness problem, not a C02 case
            return Err(fail("fixture-does-not-load", format!("{}: {:?}", entry.name, e)));
        }
    };
    let num_glyphs = font.num_glyphs();

    // ---- map
    let glyphs = font.map_glyphs(&text, script_tag, presentation);
    let mut allowed: BTreeSet<char> = BTreeSet::new();
    allowed.insert('\u{25CC}');
    for g in &glyphs {
        allowed.extend(g.unicodes.iter().copied());
    }
    let mapped = glyphs.iter().filter(|g| g.glyph_index != 0).count();
    let submitted = glyphs.len();

    // ---- tuple
    let mut owned_tuple = None;
    // generated fonts: half of the tuples sit on the condition boundaries of the FeatureVariations
    let boundary_tuple: Option<Vec<i16>> = match (&case.tuple, entry.tuples.is_empty()) {
        (Some(_), false) if case.font & 1 == 0 => Some(entry.tuples[pick(entry.tuples.len(), case.font)].clone()),
        _ => None,
    };
    let case_tuple = boundary_tuple.as_ref().or(case.tuple.as_ref());
    if let (Some(vals), true) = (case_tuple, font.is_variable()) {
        let data: Result<std::borrow::Cow<'_, [u8]>, _> = font.font_table_provider.read_table_data(allsorts::tag::FVAR);
        if let Ok(data) = data {
            if let Ok(fvar) = ReadScope::new(&data[..]).read::<FvarTable<'_>>() {
                let n = usize::from(fvar.axis_count());
                let coords: Vec<F2Dot14> = (0..n).map(|i| F2Dot14::from_raw(vals.get(i).copied().unwrap_or(0).clamp(-16384, 16384))).collect();
                owned_tuple = fvar.owned_tuple(&coords);
            }
        }
    }
    let tuple = owned_tuple.as_ref().map(|t| t.as_tuple());

    // ---- shape
    let (infos, shaped_ok) = match font.shape(glyphs, script_tag, lang, &features, tuple, case.kerning) {
        Ok(infos) => (infos, true),
        Err((_e, infos)) => (infos, false),
    };

    if traced {
        trace(format!(
            "C02-TRACE   -> {} {:?}",
            if shaped_ok { "Ok" } else { "Err" },
            infos.iter().map(|i| (i.glyph.glyph_index, i.glyph.unicodes.iter().collect::<String>(), i.kerning, i.placement)).collect::<Vec<_>>()
        ));
    }
    // ---- the returned run
    let len = infos.len();
    let mut n_anchor = 0usize;
    let mut n_cursive = 0usize;
    let mut n_overprint = 0usize;
    let mut n_distance = 0usize;
    for (i, info) in infos.iter().enumerate() {
        let target = match info.placement {
            Placement::None => None,
            Placement::Distance(..) => {
                n_distance += 1;
                None
            }
            Placement::MarkAnchor(b, _, _) => {
                n_anchor += 1;
                Some(("MarkAnchor", b))
            }
            Placement::MarkOverprint(b) => {
                n_overprint += 1;
                Some(("MarkOverprint", b))
            }
            Placement::CursiveAnchor(b, _, _, _) => {
                n_cursive += 1;
                Some(("CursiveAnchor", b))
            }
        };
        if let Some((what, b)) = target {
            if b >= len {
                return Err(fail(
                    "attachment-outside-run",
                    format!("{} [{}] text {:?}: glyph {} has {}({}) but the run has {} glyphs (shape returned {})", entry.name, if intact { "intact" } else { "corrupted" }, text, i, what, b, len, if shaped_ok { "Ok" } else { "Err" }),
                ));
            }
        }
        for ch in info.glyph.unicodes.iter() {
            if !allowed.contains(ch) {
                return Err(fail(
                    "foreign-character",
                    format!("{} [{}] text {:?} script {:?}: glyph {} (id {}) is attributed U+{:04X}, which is neither in the submitted run nor U+25CC", entry.name, if intact { "intact" } else { "corrupted" }, text, String::from_utf8_lossy(&script_tag.to_be_bytes()), i, info.glyph.glyph_index, *ch as u32),
                ));
            }
        }
        if intact && entry.well_formed && info.glyph.glyph_index >= num_glyphs {
            // attribution: a well-formed generated morx table that substitutes 0xFFFF (delete
            // this glyph) and the run carries the marker 0xFFFF itself as a glyph id
            let sig = if morx_deletes && info.glyph.glyph_index == 0xFFFF { "morx-deleted-glyph-0xFFFF-delivered-in-run" } else { "glyph-id-out-of-range" };
            return Err(fail(
                sig,
                format!("{} (intact) text {:?} script {:?}: glyph {} has id {} >= numGlyphs {} (shape returned {})", entry.name, text, String::from_utf8_lossy(&script_tag.to_be_bytes()), i, info.glyph.glyph_index, num_glyphs, if shaped_ok { "Ok" } else { "Err" }),
            ));
        }
    }

    // ---- positions
    let pos_ok = {
        let mut layout = GlyphLayout::new(&mut font, &infos, direction, case.vertical);
        match layout.glyph_positions() {
            Ok(p) => {
                if p.len() != len {
                    return Err(fail(
                        "positions-length",
                        format!("{} text {:?}: glyph_positions returned {} positions for {} glyphs", entry.name, text, p.len(), len),
                    ));
                }
                true
            }
            Err(_) => false,
        }
    };

    // ---- accounting
    rec.set_nontrivial(!chars.is_empty() && mapped >= 1 && entry.has_gsub_or_gpos);
    let kind = if entry.synthetic { "synthetic" } else if intact { "intact" } else { "corrupted" };
    let kind = if entry.synthetic && !intact { "synthetic-corrupted" } else { kind };
    let kind = if entry.generated { if intact { "generated" } else { "generated-corrupted" } } else { kind };
    if entry.generated {
        rec.class(&format!("generated:{}:{}", entry.name.trim_start_matches("generated/"), if intact { "intact" } else { "corrupted" }));
    }
    rec.class(&format!("font:{}", kind));
    rec.class(&format!("group:{}:{}", entry.group, if intact { "intact" } else { "corrupted" }));
    rec.class(&format!("scripttag:{}", script_class));
    rec.class(&format!("shaper:{}", shaper_name(script_tag)));
    rec.class(if shaped_ok { "shape:ok" } else { "shape:err" });
    rec.class(&format!("shape:{}:{}", if intact { "intact" } else { "corrupted" }, if shaped_ok { "ok" } else { "err" }));
    rec.class(if pos_ok { "positions:ok" } else { "positions:err" });
    rec.class(match case.feats {
        FeatSel::Custom(_) => "features:custom",
        _ => "features:mask",
    });
    rec.class(match lang {
        None => "lang:none",
        Some(l) if l == tagv(b"DFLT") => "lang:DFLT",
        Some(_) => "lang:other",
    });
    rec.class_if(tuple.is_some(), "tuple:some");
    rec.class_if(chars.is_empty(), "text:empty");
    rec.class_if(mapped == 0 && !chars.is_empty(), "text:nothing-mapped");
    rec.class_if(text::has_halant(&chars), "text:virama");
    rec.class_if(text::has_joiner(&chars), "text:joiner");
    rec.class_if(text::has_vs(&chars), "text:variation-selector");
    rec.class_if(text::starts_with_mark(&chars), "text:lone-mark");
    rec.class_if(text::has_foreign(&chars, alphabet), "text:foreign");
    rec.class_if(chars.len() > 32, "text:long");
    rec.class_if(len != submitted, "run:length-changed");
    rec.class_if(infos.iter().any(|i| i.glyph.unicodes.len() > 1), "run:ligature");
    rec.class_if(infos.iter().any(|i| i.glyph.unicodes.contains(&'\u{25CC}')) && !chars.contains(&'\u{25CC}'), "run:dotted-circle-inserted");
    rec.class_if(n_anchor > 0, "placement:mark-anchor");
    rec.class_if(n_cursive > 0, "placement:cursive");
    rec.class_if(n_overprint > 0, "placement:overprint");
    rec.class_if(n_distance > 0, "placement:distance");
    rec.class_if(infos.iter().any(|i| i.kerning != 0), "placement:kerning");
    rec.class_if(case.vertical, "vertical");
    rec.class_if(!entry.well_formed, "excl:generated-morx-names-missing-glyphs");
    if let Some(f) = case.focus {
        rec.class(&format!("focus:{:?}", f));
    }
    if let Some(p) = probe_used {
        let t = entry.tables.get(p.table as usize).map(|t| String::from_utf8_lossy(&t.tag).to_string()).unwrap_or_default();
        rec.class(&format!("probe:{}:type{}", t, p.ty));
        rec.class_if(hit_lookups.iter().any(|(t, l)| *t == p.table && *l == p.lookup), "probe:matches-faulted-lookup");
    }
    rec.class_if(!hit_lookups.is_empty(), "fault:structural-field");
    let has_tag = |t: &[u8; 4]| entry.feature_tags.contains(&tagv(t));
    let mask = match &features {
        Features::Mask(m) => *m,
        Features::Custom(_) => FeatureMask::empty(),
    };
    let default_shaper = shaper_name(script_tag) == "default";
    let has_fraction = chars.windows(3).any(|w| w[0].is_ascii_digit() && w[1] == '/' && w[2].is_ascii_digit());
    rec.class_if(has_fraction, "text:fraction");
    let frac_path = default_shaper && mask.contains(FeatureMask::FRAC) && has_tag(b"frac") && has_fraction;
    rec.class_if(frac_path, "path:frac(font has frac, FRAC set, default shaper, fraction in text)");
    rec.class_if(frac_path && len != submitted, "path:frac+length-changed");
    rec.class_if(default_shaper && mask.contains(FeatureMask::VRT2_OR_VERT) && (has_tag(b"vert") || has_tag(b"vrt2")), "path:vert");
    rec.class_if(infos.iter().any(|i| i.glyph.is_vert_alt()), "run:vert-alternate");
    rec.class_if(tuple.is_some() && has_tag(b"rvrn"), "path:rvrn");
    if let Features::Custom(list) = &features {
        rec.class_if(list.iter().any(|f| f.feature_tag == tagv(b"fina")) && has_tag(b"fina"), "path:custom-fina");
        rec.class_if(list.iter().any(|f| f.alternate.is_some() && (f.feature_tag == tagv(b"aalt") || f.feature_tag == tagv(b"salt")) && entry.feature_tags.contains(&f.feature_tag)), "path:custom-alternate");
        rec.class_if(list.iter().any(|f| f.feature_tag == tagv(b"rvrn")) && has_tag(b"rvrn"), "path:custom-rvrn");
    }
    rec.class_if(
        default_shaper && !(mask & (FeatureMask::ONUM | FeatureMask::LNUM | FeatureMask::TNUM | FeatureMask::PNUM | FeatureMask::ZERO | FeatureMask::ORDN | FeatureMask::SMCP | FeatureMask::C2SC | FeatureMask::DLIG | FeatureMask::HLIG)).is_empty()
            && focus_tags(Focus::Numbers).iter().any(|t| has_tag(t)),
        "path:number-case-features",
    );
    Ok(())
}

/// VERIF_C02_TRACE=1 prints every case before it is shaped (for triage of hangs / aborts);
/// VERIF_C02_TRACE=<path> appends the lines to that file instead (workers' stderr is captured).
fn trace_target() -> &'static Option<String> {
    static T: OnceLock<Option<String>> = OnceLock::new();
    T.get_or_init(|| std::env::var("VERIF_C02_TRACE").ok().filter(|v| !v.is_empty() && v != "0"))
}

fn trace_enabled() -> bool {
    trace_target().is_some()
}

fn trace(line: String) {
    match trace_target() {
        Some(p) if p != "1" => {
            use std::io::Write;
            if let Ok(mut f) = std::fs::OpenOptions::new().create(true).append(true).open(p) {
                let _ = writeln!(f, "{}", line);
            }
        }
        Some(_) => eprintln!("{}", line),
        None => {}
    }
}

fn shaper_name(tag: u32) -> &'static str {
    match &tag.to_be_bytes() {
        b"arab" => "arabic",
        b"syrc" => "syriac",
        b"deva" | b"beng" | b"guru" | b"gujr" | b"orya" | b"taml" | b"telu" | b"knda" | b"mlym" | b"sinh" => "indic",
        b"khmr" => "khmer",
        b"mymr" | b"mym2" => "myanmar",
        b"thai" | b"lao " => "thai-lao",
        _ => "default",
    }
}

// ------------------------------------------------------------------------------------------
// deterministic sweep: every string of `n` characters over each script's key inventory
// ------------------------------------------------------------------------------------------

struct SweepItem {
    group: u16,
    font: u16,
    inventory: Vec<u32>,
}

fn sweep_plan(reduced: bool) -> Vec<SweepItem> {
    let set = fonts();
    let mut plan = Vec::new();
    for (gi, g) in set.groups.iter().enumerate() {
        for (fi, e) in g.iter().enumerate() {
            let wanted = if e.synthetic { e.name.starts_with("synthetic/multi-script") } else { fi == 0 && e.group != "latin" && e.group != "variable" };
            if wanted {
                plan.push(SweepItem { group: gi as u16, font: fi as u16, inventory: text::key_inventory(alphabet_for(&e.script), reduced) });
            }
        }
    }
    plan
}

fn sweep_total(plan: &[SweepItem], n: u32) -> u64 {
    plan.iter().map(|p| (p.inventory.len() as u64).pow(n)).sum()
}

fn sweep_case(plan: &[SweepItem], n: u32, mut i: u64) -> Option<Case> {
    for p in plan {
        let k = p.inventory.len() as u64;
        let count = k.pow(n);
        if i < count {
            let mut text = Vec::new();
            for _ in 0..n {
                text.push(Tok::Lit(p.inventory[(i % k) as usize]));
                i /= k;
            }
            return Some(Case {
                generated: None,
                direct: Some((p.group, p.font)),
                group: 0,
                font: 0,
                faults: Vec::new(),
                script: ScriptSel::Matching,
                text_follows_script: false,
                lang: LangSel::None,
                feats: FeatSel::Mask(0),
                tuple: None,
                kerning: true,
                presentation_required: false,
                rtl: false,
                vertical: false,
                max_len: 16,
                text,
                tail: Vec::new(),
                alphabet: None,
                focus: None,
                probe: None,
                probe_exact: None,
            });
        }
        i -= count;
    }
    None
}

// ---- deterministic enumeration of structural layout fields: for one small font per script
// ---- group (and every synthetic font) x every located count/offset/format/class/index field
// ---- x 6 boundary values x 2 strings that reach the lookup the field belongs to

struct FieldItem {
    group: u16,
    font: u16,
    table: u8,
    anchor: u32,
    probes: [Option<u32>; 2],
}

const FIELD_CASES_PER_ANCHOR: u64 = (layout::VALUES_PER_ANCHOR * 2) as u64;

fn field_plan(all_depths: bool) -> Vec<FieldItem> {
    let set = fonts();
    let mut plan = Vec::new();
    for (gi, g) in set.groups.iter().enumerate() {
        let mut chosen: Vec<usize> = Vec::new();
        if g.first().map(|e| e.synthetic).unwrap_or(false) {
            let mut seen_multi = false;
            for (fi, e) in g.iter().enumerate() {
                if e.name.starts_with("synthetic/multi-script") {
                    if seen_multi {
                        continue;
                    }
                    seen_multi = true;
                }
                chosen.push(fi);
            }
        } else {
            let cost = |e: &FontEntry| e.tables.iter().map(|t| t.anchors.iter().filter(|a| a.depth == 0).count()).sum::<usize>();
            if let Some((fi, _)) = g.iter().enumerate().filter(|(_, e)| e.probes.len() >= 4).min_by_key(|(fi, e)| (cost(e), *fi)) {
                chosen.push(fi);
            }
        }
        for fi in chosen {
            let e = &g[fi];
            for (ti, t) in e.tables.iter().enumerate() {
                for (ai, a) in t.anchors.iter().enumerate() {
                    if !(all_depths || e.synthetic || a.depth == 0) {
                        continue;
                    }
                    let mut own = e.probes.iter().enumerate().filter(|(_, p)| p.table as usize == ti && p.lookup == a.lookup).map(|(i, _)| i as u32);
                    let mut probes = [own.next(), own.next()];
                    if probes[0].is_none() && !e.probes.is_empty() {
                        // header fields: any two strings of the font (spread over the list)
                        probes = [Some((ai % e.probes.len()) as u32), Some(((ai * 7 + 3) % e.probes.len()) as u32)];
                    } else if probes[1].is_none() {
                        probes[1] = probes[0];
                    }
                    plan.push(FieldItem { group: gi as u16, font: fi as u16, table: ti as u8, anchor: ai as u32, probes });
                }
            }
        }
    }
    plan
}

fn field_case(plan: &[FieldItem], i: u64) -> Option<Case> {
    let item = plan.get((i / FIELD_CASES_PER_ANCHOR) as usize)?;
    let k = i % FIELD_CASES_PER_ANCHOR;
    let value = (k / 2) as u8;
    let variant = (k % 2) as usize;
    Some(Case {
        generated: None,
        direct: Some((item.group, item.font)),
        group: 0,
        font: 0,
        faults: vec![Fault { table: 0, mode: 0, pos: 0, kind: FaultKind::FieldExact(item.table, item.anchor, value) }],
        script: ScriptSel::Matching,
        text_follows_script: false,
        lang: LangSel::None,
        feats: FeatSel::Mask(0),
        tuple: None,
        kerning: true,
        presentation_required: false,
        rtl: variant == 1,
        vertical: false,
        max_len: 32,
        text: vec![Tok::Cons(0), Tok::Halant(0), Tok::Cons(1 << 30), Tok::Mark(0)],
        tail: Vec::new(),
        alphabet: None,
        focus: None,
        // replace the text by the probe; the second variant also switches the lookup's feature on
        probe: Some((0, 0x10 | if variant == 1 { 2 << 2 } else { 0 })),
        probe_exact: item.probes[variant],
    })
}

// ---- deterministic morx state graph enumeration

fn morx_graph_case(m: morx::MorxCase, j: u64) -> Case {
    // 'a' is class 4, 'b' class 5, 'z' out of bounds
    const TEXTS: [&str; 4] = ["abab", "ba", "aazb", "b"];
    Case {
        generated: Some(Generated { gsub: None, tape: None, script: 0, retag: false, gdef_from_gpos: false, morx: Some(m), fraclig: None }),
        direct: None,
        group: 0,
        font: 0,
        faults: Vec::new(),
        script: ScriptSel::Tag(*b"latn"),
        text_follows_script: false,
        lang: LangSel::None,
        feats: FeatSel::Mask(0),
        tuple: None,
        kerning: false,
        presentation_required: false,
        rtl: false,
        vertical: false,
        max_len: 16,
        text: TEXTS[(j % 4) as usize].chars().map(|c| Tok::Lit(c as u32)).collect(),
        tail: Vec::new(),
        alphabet: None,
        focus: None,
        probe: None,
        probe_exact: None,
    }
}

// ---- deterministic fraction sweep

fn fraction_plan() -> Vec<(u16, u16)> {
    let set = fonts();
    let mut seen_multi = false;
    set.focus_fonts[Focus::Frac as usize]
        .iter()
        .copied()
        .filter(|(g, f)| {
            let e = &set.groups[*g as usize][*f as usize];
            if e.name.starts_with("synthetic/multi-script") {
                let first = !seen_multi;
                seen_multi = true;
                first
            } else {
                true
            }
        })
        .collect()
}

const FRACTION_SCRIPTS: [[u8; 4]; 2] = [*b"latn", *b"DFLT"];

fn fraction_cases_per_font() -> u64 {
    (text::LIGATURE_PREFIXES.len() * text::FRACTIONS.len() * text::FRACTION_SUFFIXES.len() * FRACTION_SCRIPTS.len() * 2) as u64
}

fn fraction_case(plan: &[(u16, u16)], i: u64) -> Case {
    let per = fraction_cases_per_font();
    let (g, f) = plan[((i / per) as usize).min(plan.len().saturating_sub(1))];
    let mut k = (i % per) as usize;
    let mut take = |n: usize| {
        let v = k % n;
        k /= n;
        v
    };
    let p = take(text::LIGATURE_PREFIXES.len());
    let d = take(text::FRACTIONS.len());
    let x = take(text::FRACTION_SUFFIXES.len());
    let sc = take(FRACTION_SCRIPTS.len());
    let all_bits = take(2) == 1;
    let s: String = format!("{}{}{}", text::LIGATURE_PREFIXES[p], text::FRACTIONS[d], text::FRACTION_SUFFIXES[x]);
    Case {
        generated: None,
        direct: Some((g, f)),
        group: 0,
        font: 0,
        faults: Vec::new(),
        script: ScriptSel::Tag(FRACTION_SCRIPTS[sc]),
        text_follows_script: false,
        lang: LangSel::None,
        feats: FeatSel::Mask(if all_bits { u64::MAX } else { FeatureMask::FRAC.bits() }),
        tuple: None,
        kerning: true,
        presentation_required: false,
        rtl: false,
        vertical: false,
        max_len: 64,
        text: s.chars().map(|c| Tok::Lit(c as u32)).collect(),
        tail: Vec::new(),
        alphabet: None,
        focus: Some(Focus::Frac),
        probe: None,
        probe_exact: None,
    }
}

impl Property for C02 {
    fn id(&self) -> &'static str {
        "C02"
    }
    fn rule(&self) -> String {
        "case = (fixture or synthetic font, 0-4 byte faults inside GSUB/GPOS/GDEF/kern/morx bodies or a hidden layout table, \
         token-generated text of 0-32 (thorough 0-200) scalars from the script's alphabet biased to viramas/nuktas/reph/pre-base \
         forms/lone marks/joiners/foreign characters, script tag matching|other|unknown, language, Features::Mask|Custom, \
         normalised tuple for variable fonts, kerning, presentation, direction, vertical); 22 % of the random cases are \
         feature-directed (frac / vert / number-case features / Custom fina / Custom alternates / rvrn+tuple): a font that has \
         the feature, a default-shaper script tag, the mask bit or custom tag set, and a text that feeds the path (ligature-prone \
         prefix + digits/digits fraction at the end of the run, kana text for vert). Faults include 'structural field := \
         boundary value' over the count/offset/format/class/index fields located by an independent deep reader of every \
         GSUB/GPOS lookup subtable; 35 % of the random cases use a string derived from the font (coverage glyphs, ligature \
         components, pair seconds, marks after bases/ligatures, contextual input; spelled through cmap and the substitutions \
         that produce unencoded glyphs) that reaches a lookup, preferably the faulted one. 15 % of the random cases use a \
         generated-layout font: GSUB/GDEF/FeatureVariations from a C04 program and/or GPOS/kern/GDEF from a C05 tape over a shared \
         glyph set (U+E000+gid, plus the characters of a complex script when the programs are also registered under arab/deva/ \
         khmr/mym2/thai/syrc/beng/taml/mlym, optionally with the features renamed to those the shaper applies), intact or with \
         structural faults, with the generators' witness strings and the deep reader's reaching strings; 12 % of the generated fonts \
         are frac+ligature fonts (c02_fraclig.rs: a `frac` feature next to 1-4 ligatures over letters, digits, '/', U+2044 and a mark, \
         direct or nested in type 5/6 rules, under default-on features / frac / dlig; text = prefix + a ligature's components + a tail \
         that mostly continues with '/' digit; FRAC set in the mask); 26 % of the generated fonts \
         instead carry a generated morx table and no GSUB (substitution values: glyphs of the font, 0xFFFF = the AAT deleted glyph, \
         which counts as well-formed, or arbitrary) (1-2 chains, contextual / ligature / non-contextual / opaque subtables, \
         class lookup formats 0/2/4/6/8/10, 2-6 states whose next states are drawn from all states and whose flags are drawn \
         independently, in-range and boundary indices; structural faults use the encoder's own field positions). Deterministic \
         sweeps: every 2- and 3-state morx state graph over two classes with every DONT_ADVANCE pattern (contextual and ligature); all strings \
         of 3 (thorough also 4) key characters per script; prefix x fraction x suffix x script x mask on every font with frac; \
         layout-fields = one small font per script group and every synthetic font x every located field (quick: header-level \
         fields of fixtures, all fields of synthetic fonts) x 6 boundary values x 2 reaching strings. \
         Pipeline map_glyphs -> shape -> glyph_positions. Non-trivial: text non-empty, at least one glyph mapped (id != 0), \
         font has GSUB, GPOS or morx. Distinct: hash of (font, applied faults, resolved text, script, language, features, tuple, flags)."
            .to_string()
    }
    fn assumptions(&self) -> Vec<String> {
        vec![
            "allsorts does not verify table checksums, so faults inside layout table bodies leave the font loadable (checked: a load failure is reported)".into(),
            "the run submitted for shaping is the output of Font::map_glyphs (after text preprocessing)".into(),
            "build profile has debug-assertions and overflow-checks on: arithmetic overflow counts as a panic".into(),
            "hang / stack overflow / abort / size-field allocation are detected by the engine at process level".into(),
        ]
    }
    fn run(&self, ctx: &mut Ctx) {
        let thorough = ctx.thorough();
        let n = ctx.cases(240_000, 3_600_000);
        if thorough {
            ctx.section("shape", n, full_strategy(40, 200), |c, rec| check_case(c, rec));
        } else {
            ctx.section("shape", n, full_strategy(10, 32), |c, rec| check_case(c, rec));
        }
        // seed-independent: structural layout fields x boundary values x reaching strings
        let plan = field_plan(thorough);
        ctx.enumerate("layout-fields", plan.len() as u64 * FIELD_CASES_PER_ANCHOR, true, |i, rec| match field_case(&plan, i) {
            Some(c) => {
                rec.class("sweep");
                check_case(&c, rec)
            }
            None => Ok(()),
        });
        // seed-independent: every 2-state and 3-state morx state graph over
        // two glyph classes with every DONT_ADVANCE pattern, contextual and ligature subtables
        let n2 = morx::graph_count(2) * 4; // each 2-state graph with four texts
        let n3 = morx::graph_count(3);
        ctx.enumerate("morx-state-graphs", 2 * (n2 + n3), true, |i, rec| {
            let kind = if i % 2 == 0 { 1u8 } else { 2u8 };
            let j = i / 2;
            let (m, text) = if j < n2 { (morx::graph_case(kind, 2, j / 4), j % 4) } else { (morx::graph_case(kind, 3, j - n2), (j - n2) % 2) };
            rec.class("sweep");
            check_case(&morx_graph_case(m, text), rec)
        });
        // seed-independent: prefix x fraction x suffix x script x mask on every font with `frac`
        let fplan = fraction_plan();
        let per_font = fraction_cases_per_font();
        ctx.enumerate("fractions", fplan.len() as u64 * per_font, true, |i, rec| {
            rec.class("sweep");
            check_case(&fraction_case(&fplan, i), rec)
        });
        // seed-independent: all strings of 3 key characters (thorough: also of 4 over a reduced
        // inventory) per script, on one fixture per script and on the multi-script font
        let plan = sweep_plan(false);
        let total = sweep_total(&plan, 3);
        ctx.enumerate("key-triples", total, true, |i, rec| match sweep_case(&plan, 3, i) {
            Some(c) => {
                rec.class("sweep");
                check_case(&c, rec)
            }
            None => Ok(()),
        });
        if thorough {
            let plan = sweep_plan(true);
            let total = sweep_total(&plan, 4);
            ctx.enumerate("key-quads", total, true, |i, rec| match sweep_case(&plan, 4, i) {
                Some(c) => {
                    rec.class("sweep");
                    check_case(&c, rec)
                }
                None => Ok(()),
            });
        }
    }
}
