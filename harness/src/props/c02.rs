//! C02 — not built yet.
use crate::engine::{Ctx, Property};

pub struct C02;

impl Property for C02 {
    fn id(&self) -> &'static str {
        "C02"
    }
    fn rule(&self) -> String {
        "not implemented".to_string()
    }
    fn run(&self, _ctx: &mut Ctx) {}
}
