//! C15, CFF side: DICT operands/operators/DICTs, INDEXes, charsets, encodings, FDSelects, whole
//! CFF tables (name- and CID-keyed), CFF2 tables and ItemVariationStores. Inputs come from
//! `fontgen::cffgen` (my encoders); allsorts' output is examined by the decoders in the same
//! module and by allsorts' own reader.

use super::{diff, fail, hexs, wb, wbd};
use crate::engine::{fixtures, CaseResult, Ctx, Rec};
use crate::fontgen::buf::Buf;
use crate::fontgen::cffgen::*;
use crate::fontgen::sfnt::find_table;
use crate::fontgen::var::{fvar_table, AxisModel};
use allsorts::binary::read::{ReadArrayCow, ReadScope};
use allsorts::cff::cff2::CFF2;
use allsorts::cff::{
    CFFVariant, Charset, CustomCharset, CustomEncoding, Dict, DictDefault, DictDelta, Encoding, FDSelect, FontDictDefault, IndexU16, IndexU32,
    MaybeOwnedIndex, Operand, Operator, PrivateDictDefault, Range, TopDictDefault, CFF,
};
use allsorts::error::WriteError;
use allsorts::tables::variable_fonts::fvar::FvarTable;
use allsorts::tables::variable_fonts::{DeltaSetIndexMapEntry, ItemVariationStore, VariationRegion, VariationRegionList};
use allsorts::tables::F2Dot14;
use proptest::prelude::*;
use std::convert::TryFrom;

fn close(a: f64, b: f64) -> bool {
    a == b || (a - b).abs() <= 1e-6 * a.abs().max(b.abs())
}

fn operand_value(o: &Operand) -> Result<f64, String> {
    match o {
        Operand::Integer(v) | Operand::Offset(v) => Ok(*v as f64),
        Operand::Real(r) => f64::try_from(r).map_err(|e| format!("real {:?} does not convert: {:?}", r, e)),
    }
}

fn dict_to_obs<T: DictDefault>(d: &Dict<T>) -> Result<DictObs, String> {
    d.iter().map(|(op, v)| Ok((*op as u16, v.iter().map(operand_value).collect::<Result<Vec<f64>, String>>()?))).collect()
}

fn obs_close(a: &DictObs, b: &DictObs) -> bool {
    a.len() == b.len() && a.iter().zip(b.iter()).all(|(x, y)| x.0 == y.0 && x.1.len() == y.1.len() && x.1.iter().zip(y.1.iter()).all(|(p, q)| close(*p, *q)))
}

// ================================================================== operands and operators

/// integer operand: written, decoded by my DICT reader, read back by allsorts
fn check_int(v: i32, rec: &mut Rec) -> CaseResult {
    for (offset_form, op) in [(false, Operator::BlueValues), (true, Operator::Subrs)] {
        let operand = if offset_form { Operand::Offset(v) } else { Operand::Integer(v) };
        let mut bytes = wb::<Operand, _>(&operand).map_err(|e| fail("operand:write", format!("{:?} for {}", e, v)))?;
        if offset_form && bytes.len() != 5 {
            return Err(fail("operand:offset-not-5-bytes", format!("Offset({}) written as {}", v, hexs(&bytes))));
        }
        bytes.extend(wb::<Operator, _>(op).map_err(|e| fail("operator:write", format!("{:?}", e)))?);
        let dec = dec_dict(&bytes).map_err(|e| fail("operand:written-undecodable", format!("{} for {}: {}", e, v, hexs(&bytes))))?;
        if dec.len() != 1 || dec[0].1 != vec![v as f64] || dec[0].0 != op as u16 {
            return Err(fail("operand:int-written-differs", format!("{} written as {} decodes to {:?}", v, hexs(&bytes), dec)));
        }
        let d = ReadScope::new(&bytes).read_dep::<Dict<FontDictDefault>>(48).map_err(|e| fail("operand:read-back", format!("{:?} for {}", e, hexs(&bytes))))?;
        match d.get(op) {
            Some([o]) if *o == operand => {}
            other => return Err(fail("operand:int-value", format!("wrote {:?}, read {:?}", operand, other))),
        }
    }
    let a = (v as i64).abs();
    rec.class(match a {
        0..=107 => "int:1-byte",
        108..=1131 => "int:2-byte",
        1132..=32768 => "int:3-byte(28)",
        _ => "int:5-byte(29)",
    });
    rec.set_nontrivial([107, 108, 1131, 1132, 32767, 32768, i32::MAX as i64, i32::MAX as i64 + 1].contains(&a) || a == 109 || a == 1130 || a == 32769);
    rec.hash_u64(v as u32 as u64);
    Ok(())
}

const INT_EDGES: [i32; 30] = [
    0, 1, -1, 106, 107, 108, 109, -106, -107, -108, -109, 1130, 1131, 1132, 1133, -1130, -1131, -1132, -1133, 32766, 32767, 32768, 32769, -32767, -32768, -32769, 65535, 65536,
    i32::MAX, i32::MIN,
];

/// f32 → Operand (BCD) → bytes → value
fn check_real(x: &f32, rec: &mut Rec) -> CaseResult {
    let x = *x;
    let operand = Operand::from(x);
    let mut bytes = wb::<Operand, _>(&operand).map_err(|e| fail("operand:write", format!("{:?} for {:e}", e, x)))?;
    bytes.extend(wb::<Operator, _>(Operator::BlueValues).map_err(|e| fail("operator:write", format!("{:?}", e)))?);
    let dec = dec_dict(&bytes).map_err(|e| fail("operand:real-written-undecodable", format!("{} for {:e}: {}", e, x, hexs(&bytes))))?;
    let integral_big = x.fract() == 0.0 && x.abs() >= 2147483648.0;
    if dec.len() != 1 || dec[0].1.len() != 1 || !close(dec[0].1[0], x as f64) {
        let sig = if integral_big { "operand:from-f32-integral-saturates" } else { "operand:real-written-differs" };
        return Err(fail(sig, format!("Operand::from({:e}) = {:?}, written {}, decodes to {:?}", x, operand, hexs(&bytes), dec)));
    }
    let d = ReadScope::new(&bytes).read_dep::<Dict<FontDictDefault>>(48).map_err(|e| fail("operand:read-back", format!("{:?} for {}", e, hexs(&bytes))))?;
    match d.get(Operator::BlueValues) {
        Some([o]) if *o == operand && operand_value(o).map_or(false, |v| close(v, x as f64)) => {}
        other => return Err(fail("operand:real-value", format!("wrote {:?} ({:e}), read {:?}", operand, x, other))),
    }
    rec.class(match &operand {
        Operand::Real(_) => "real:bcd",
        _ => "real:integral→Integer",
    });
    rec.class_if(x.abs() < 1e-4 && x != 0.0, "real:negative-exponent");
    rec.class_if(x.abs() >= 1e9, "real:large");
    rec.set_nontrivial(matches!(operand, Operand::Real(_)));
    rec.hash_u64(x.to_bits() as u64);
    Ok(())
}

fn real_strategy() -> impl Strategy<Value = f32> {
    prop_oneof![
        3 => (-2_000_000i32..2_000_000, prop_oneof![Just(1.0f32), Just(10.0), Just(100.0), Just(1000.0), Just(65536.0)]).prop_map(|(n, d)| n as f32 / d),
        2 => (any::<u32>()).prop_map(|b| {
            // any finite f32 with a moderate exponent
            let e = 64 + (b >> 23 & 0xFF) % 128; // 2^-63 … 2^64
            f32::from_bits(b & 0x807F_FFFF | e << 23)
        }),
        1 => proptest::sample::select(vec![0.0f32, -0.0, 0.5, -0.5, 0.001, 0.039625, 0.06, 1e-10, -1e-10, 1e10, 3e10, -3e10, 2147483648.0, 4294967296.0, 1e20, 16777216.0, 16777217.0, 0.1, 0.3, 1.0 / 3.0, f32::MIN_POSITIVE, f32::MAX, f32::MIN, 123456.79]),
    ]
}

fn all_operators() -> Vec<u16> {
    (0u16..=0x0CFF).filter(|c| Operator::try_from(*c).is_ok()).collect()
}

fn check_operator(code: u16, rec: &mut Rec) -> CaseResult {
    let op = Operator::try_from(code).map_err(|e| fail("operator:try_from", format!("{:?}", e)))?;
    let bytes = wb::<Operator, _>(op).map_err(|e| fail("operator:write", format!("{:?}", e)))?;
    let mut e = Buf::new();
    enc_op(&mut e, code);
    if bytes != e.0 {
        return Err(fail("operator:written-bytes", format!("{:?} ({:#x}) written as {}", op, code, hexs(&bytes))));
    }
    let d = ReadScope::new(&bytes).read_dep::<Dict<FontDictDefault>>(48).map_err(|e| fail("operator:read-back", format!("{:?}", e)))?;
    if d.first_operator() != Some(op) || d.len() != 1 {
        return Err(fail("operator:value", format!("wrote {:?} read {:?}", op, d.first_operator())));
    }
    rec.class(if code >= 0x0C00 { "operator:2-byte" } else { "operator:1-byte" });
    rec.nontrivial();
    rec.hash_u64(code as u64);
    Ok(())
}

// ================================================================== DICT

const TOP_OPS: [u16; 24] = [0, 1, 2, 3, 4, 5, 13, 14, 0x0C00, 0x0C01, 0x0C02, 0x0C03, 0x0C04, 0x0C05, 0x0C06, 0x0C07, 0x0C08, 0x0C15, 0x0C16, 0x0C17, 0x0C1F, 0x0C20, 0x0C21, 0x0C22];
const PRIV_OPS: [u16; 17] = [6, 7, 8, 9, 10, 11, 20, 21, 0x0C09, 0x0C0A, 0x0C0B, 0x0C0C, 0x0C0D, 0x0C0E, 0x0C11, 0x0C12, 0x0C13];
const FD_OPS: [u16; 3] = [0x0C26, 0x0C07, 0x0C05];

fn num_strategy() -> BoxedStrategy<Num> {
    prop_oneof![
        4 => prop_oneof![2 => -1200i32..1200, 1 => proptest::sample::select(INT_EDGES.to_vec()), 1 => any::<i32>()].prop_map(Num::Int),
        1 => any::<i16>().prop_map(Num::Int16),
        1 => any::<i32>().prop_map(Num::Int32),
        2 => (any::<bool>(), 0u32..100000, 0u32..1000, proptest::option::weighted(0.3, -20i32..20)).prop_map(|(neg, int, frac, exp)| {
            let mut t = format!("{}{}.{:03}", if neg { "-" } else { "" }, int, frac);
            if let Some(e) = exp {
                t.push_str(&format!("E{}", e));
            }
            Num::Real(t)
        }),
        1 => proptest::sample::select(vec!["0.001", ".001", "0.039625", "0.06", "-.5", "1E3", "1E-3", "0", "-0", "0.0", "7", "-100.0", "123456789012"]).prop_map(|t| Num::Real(t.to_string())),
    ]
    .boxed()
}

/// entry for operator `op`: mostly random operands, sometimes exactly the spec default
fn entry_strategy(ops: &'static [u16], private: bool) -> BoxedStrategy<(u16, Vec<Num>)> {
    (proptest::sample::select(ops.to_vec()), proptest::collection::vec(num_strategy(), 0..7), 0u8..4)
        .prop_map(move |(op, nums, mode)| {
            if mode == 0 {
                if let Some(def) = default_of(op, private) {
                    // the default, spelled the way fonts spell it
                    let nums = def
                        .iter()
                        .map(|v| if v.fract() == 0.0 { Num::Int(*v as i32) } else { Num::Real(format!("{}", v)) })
                        .collect();
                    return (op, nums);
                }
            }
            (op, nums)
        })
        .boxed()
}

fn dict_strategy(ops: &'static [u16], private: bool) -> BoxedStrategy<DictM> {
    proptest::collection::vec(entry_strategy(ops, private), 0..7).boxed()
}

/// dec2 must be the model minus (only) entries numerically equal to their default
fn dropped_only_defaults(model: &DictObs, dec2: &DictObs, private: bool, defaults_apply: bool) -> Result<usize, String> {
    let mut j = 0usize;
    let mut dropped = 0usize;
    for e in model {
        if j < dec2.len() && dec2[j].0 == e.0 && obs_close(&vec![dec2[j].clone()], &vec![e.clone()]) {
            j += 1;
        } else if defaults_apply && default_of(e.0, private).map_or(false, |d| d.len() == e.1.len() && d.iter().zip(e.1.iter()).all(|(a, b)| close(*a, *b))) {
            dropped += 1;
        } else {
            return Err(format!("entry {:?} of the model is missing or changed (written DICT decodes to {:?})", e, dec2));
        }
    }
    if j != dec2.len() {
        return Err(format!("written DICT has extra entries: {:?} vs model {:?}", dec2, model));
    }
    Ok(dropped)
}

fn check_dict_as<T: DictDefault>(m: &DictM, private: bool, defaults_apply: bool, rec: &mut Rec) -> CaseResult {
    let raw = enc_dict(m);
    let model = dict_obs(m);
    let d1 = ReadScope::new(&raw).read_dep::<Dict<T>>(48).map_err(|e| fail("dict:parse", format!("{:?} for {}", e, hexs(&raw))))?;
    let o1 = dict_to_obs(&d1).map_err(|e| fail("dict:operand", e))?;
    if !obs_close(&o1, &model) {
        return Err(fail("dict:read-differs", format!("read {:?}, model {:?}", o1, model)));
    }
    let (_, b2) = wbd::<Dict<T>, _>(&d1, DictDelta::new()).map_err(|e| fail("dict:write-of-parsed-refused", format!("{:?}", e)))?;
    let dec2 = dec_dict(&b2).map_err(|e| fail("dict:written-undecodable", format!("{}: {}", e, hexs(&b2))))?;
    let dropped = dropped_only_defaults(&model, &dec2, private, defaults_apply).map_err(|e| fail("dict:written-differs", e))?;
    let d2 = ReadScope::new(&b2).read_dep::<Dict<T>>(48).map_err(|e| fail("dict:reparse", format!("{:?} for {}", e, hexs(&b2))))?;
    // observational equality: every operator gives the same operands through get_with_default
    for (op, _) in d1.iter() {
        let (a, b) = (d1.get_with_default(*op).map(|v| v.to_vec()), d2.get_with_default(*op).map(|v| v.to_vec()));
        let first_of = |d: &Dict<T>| d.iter().find(|e| e.0 == *op).map(|e| e.1.clone());
        // duplicates of an operator: `get` returns the first; compare only when the first survived
        if first_of(&d1) == first_of(&d2) || first_of(&d2).is_none() {
            let (av, bv) = (a.clone().map(|v| v.iter().map(operand_value).collect::<Vec<_>>()), b.clone().map(|v| v.iter().map(operand_value).collect::<Vec<_>>()));
            let same = match (&av, &bv) {
                (Some(x), Some(y)) => x.len() == y.len() && x.iter().zip(y.iter()).all(|(p, q)| matches!((p, q), (Ok(p), Ok(q)) if close(*p, *q))),
                (None, None) => true,
                _ => false,
            };
            if !same && m.iter().filter(|e| e.0 == *op as u16).count() == 1 {
                return Err(fail("dict:get_with_default-changed", format!("{:?}: {:?} before, {:?} after", op, a, b)));
            }
        }
    }
    let (_, b3) = wbd::<Dict<T>, _>(&d2, DictDelta::new()).map_err(|e| fail("dict:rewrite-refused", format!("{:?}", e)))?;
    if b3 != b2 {
        return Err(fail("dict:unstable", diff(&b2, &b3)));
    }
    rec.class_if(dropped > 0, "dict:default-entry-omitted");
    rec.class_if(m.iter().any(|e| e.1.iter().any(|n| matches!(n, Num::Real(_)))), "dict:has-real");
    rec.set_nontrivial(m.len() >= 2 || dropped > 0);
    rec.hash_bytes(&raw);
    Ok(())
}

// ================================================================== INDEX

#[derive(Clone, Debug)]
pub struct IndexM {
    /// (length, seed) per object
    objs: Vec<(u32, u8)>,
    off_size: u8,
    count32: bool,
    /// that many further empty objects follow the first object (counts at the 16-bit edge of the
    /// count field without a 65536-element model; 0 everywhere but in the `index:count>=65535` class)
    pad_empty: u32,
}

/// all objects of the model: the first one, the padding of empty objects, the others
fn index_model_objects(m: &IndexM) -> Vec<Vec<u8>> {
    let mut v: Vec<Vec<u8>> = Vec::with_capacity(m.objs.len() + m.pad_empty as usize);
    v.extend(m.objs.iter().take(1).map(obj_bytes));
    v.extend((0..m.pad_empty).map(|_| Vec::new()));
    v.extend(m.objs.iter().skip(1).map(obj_bytes));
    v
}

fn obj_bytes(o: &(u32, u8)) -> Vec<u8> {
    (0..o.0).map(|i| o.1.wrapping_add((i % 251) as u8)).collect()
}

fn index_objects(idx: allsorts::cff::Index<'_>) -> Vec<Vec<u8>> {
    let m = MaybeOwnedIndex::Borrowed(idx);
    (0..m.len()).map(|i| m.read_object(i).map(|o| o.to_vec()).unwrap_or_default()).collect()
}

/// read / write / read / write of one INDEX (16- or 32-bit count) with the objects compared with the model
fn index_generations(raw: &[u8], objs: &[Vec<u8>], count32: bool) -> Result<Vec<u8>, crate::engine::Fail> {
    let same = |a: &allsorts::cff::Index<'_>, b: &allsorts::cff::Index<'_>| -> Result<(), String> {
        let (oa, ob) = (index_objects(a.clone()), index_objects(b.clone()));
        if oa != objs || ob != objs {
            return Err(format!("{} / {} objects read, model {} (first lengths {:?} / {:?} / {:?})", oa.len(), ob.len(), objs.len(), oa.first().map(|o| o.len()), ob.first().map(|o| o.len()), objs.first().map(|o| o.len())));
        }
        Ok(())
    };
    Ok(if count32 {
        stable!("index32", raw, |d| ReadScope::new(d).read::<IndexU32>(), |t| wb::<IndexU32, _>(t), |a, b| same(a, b))
    } else {
        stable!("index", raw, |d| ReadScope::new(d).read::<IndexU16>(), |t| wb::<IndexU16, _>(t), |a, b| same(a, b))
    })
}

fn check_index(m: &IndexM, rec: &mut Rec) -> CaseResult {
    let objs: Vec<Vec<u8>> = index_model_objects(m);
    let raw = enc_index(&objs, m.off_size, m.count32);
    rec.class_if(objs.len() >= 65535, if objs.len() > 65535 { "index:count>65535(count32)" } else { "index:count=65535" });
    let g2 = index_generations(&raw, &objs, m.count32).map_err(|f| {
        // Defect model "the 32-bit count is converted through 16 bits": a parsed INDEX is refused exactly when it has
        // more than 65535 objects. Attributed when the same INDEX cut down to 65535 objects (everything else equal) is written.
        if m.count32 && objs.len() > 65535 && f.sig == "C15:index32:write-of-parsed-refused" {
            let cut = &objs[..65535];
            let cut_raw = enc_index(cut, m.off_size, true);
            if index_generations(&cut_raw, cut, true).is_ok() {
                return fail(
                    "index32:count-above-65535-refused",
                    format!(
                        "a CFF2 INDEX with {} objects (uint32 count, {} bytes: {}) parses but IndexU32::write refuses it, while the same INDEX cut to 65535 objects is written: the count does not exceed its 32-bit field; {}",
                        objs.len(),
                        raw.len(),
                        hexs(&raw[..raw.len().min(12)]),
                        f.msg.split(';').next().unwrap_or("")
                    ),
                );
            }
        }
        f
    })?;
    let (dec, used, _) = dec_index(&g2, m.count32).map_err(|e| fail("index:written-undecodable", e))?;
    if dec != objs || used != g2.len() {
        return Err(fail("index:written-differs", format!("{} objects decoded from {} of {} bytes, model {}", dec.len(), used, g2.len(), objs.len())));
    }
    let total: usize = objs.iter().map(|o| o.len()).sum::<usize>() + 1;
    rec.class(match min_off_size(total).max(if objs.is_empty() { 0 } else { m.off_size }) {
        0 => "index:empty",
        1 => "index:offSize1",
        2 => "index:offSize2",
        3 => "index:offSize3",
        _ => "index:offSize4",
    });
    rec.class_if([255, 256, 65535, 65536].contains(&total), "index:last-offset-at-offSize-edge");
    rec.class_if(m.count32, "index:count32");
    rec.set_nontrivial(objs.len() >= 2 || [255, 256, 65535, 65536].contains(&total));
    rec.hash_bytes(&raw[..raw.len().min(2048)]);
    rec.hash_u64(total as u64);
    rec.hash_u64(objs.len() as u64);
    Ok(())
}

fn index_strategy() -> impl Strategy<Value = IndexM> {
    let small = proptest::collection::vec((0u32..40, any::<u8>()), 0..8);
    // totals at the offSize edges: last offset = total + 1 ∈ {255, 256, 257, 65535, 65536, 65537}
    let edge = (proptest::sample::select(vec![253u32, 254, 255, 256, 65533, 65534, 65535, 65536]), 0u32..30, any::<u8>()).prop_map(|(total, first, s)| {
        let first = first.min(total);
        vec![(first, s), (0, s), (total - first, s.wrapping_add(1))]
    });
    (prop_oneof![4 => small, 1 => edge], prop_oneof![3 => Just(0u8), 1 => 1u8..5], proptest::bool::weighted(0.3)).prop_map(|(objs, off_size, count32)| IndexM { objs, off_size, count32, pad_empty: 0 })
}

/// `index_strategy` plus, rarely (the cases are large), INDEXes whose object count sits at the 16-bit edge of the
/// count field: 65535 objects under either count width, 65536 and more under the 32-bit count of CFF2
fn index_strategy_with_count_edges() -> impl Strategy<Value = IndexM> {
    let many = (
        proptest::collection::vec((0u32..6, any::<u8>()), 0..4),
        prop_oneof![3 => proptest::sample::select(vec![65535u32, 65536, 65537, 65538]), 1 => 65530u32..66000, 1 => 65536u32..200_000],
        prop_oneof![3 => Just(0u8), 1 => 1u8..5],
        any::<bool>(),
    )
        .prop_map(|(objs, count, off_size, c32)| {
            let pad_empty = count - objs.len() as u32;
            IndexM { objs, off_size, count32: c32 || count > 65535, pad_empty }
        });
    prop_oneof![600 => index_strategy(), 1 => many]
}

// ================================================================== charset / encoding / FDSelect

/// n_glyphs-1 split into ranges starting at increasing ids
fn charset_strategy(max_glyphs: usize) -> impl Strategy<Value = (usize, CharsetM)> {
    (1usize..max_glyphs, proptest::collection::vec((1u16..400, 0usize..5), 8), 0u8..3, proptest::collection::vec(any::<u16>(), max_glyphs)).prop_map(|(n, cuts, fmt, raw)| {
        let want = n - 1;
        match fmt {
            0 => (n, CharsetM::F0(raw.into_iter().take(want).collect())),
            _ => {
                let mut ranges: Vec<(u16, u16)> = Vec::new();
                let (mut left, mut id) = (want, 0u32);
                for (gap, len) in cuts {
                    if left == 0 {
                        break;
                    }
                    let l = (len + 1).min(left);
                    id += gap as u32;
                    ranges.push((id as u16, (l - 1) as u16));
                    id += l as u32;
                    left -= l;
                }
                if left > 0 {
                    ranges.push((id as u16 + 1, (left - 1) as u16));
                }
                if fmt == 1 {
                    (n, CharsetM::F1(ranges.into_iter().map(|(f, l)| (f, l as u8)).collect()))
                } else {
                    (n, CharsetM::F2(ranges))
                }
            }
        }
    })
}

fn charset_ids(c: &CustomCharset<'_>, n: usize) -> Vec<u32> {
    (1..n).map(|g| c.id_for_glyph(g as u16).map_or(u32::MAX, |v| v as u32)).collect()
}

fn check_charset(c: &(usize, CharsetM), rec: &mut Rec) -> CaseResult {
    let (n, m) = c;
    let raw = enc_charset(m);
    let ids = m.ids().unwrap_or_default();
    // (a) owned value
    let v = match m {
        CharsetM::F0(g) => CustomCharset::Format0 { glyphs: ReadArrayCow::Owned(g.clone()) },
        CharsetM::F1(r) => CustomCharset::Format1 { ranges: ReadArrayCow::Owned(r.iter().map(|(f, l)| Range { first: *f, n_left: *l }).collect()) },
        CharsetM::F2(r) => CustomCharset::Format2 { ranges: ReadArrayCow::Owned(r.iter().map(|(f, l)| Range { first: *f, n_left: *l }).collect()) },
        CharsetM::Predefined(..) => return Ok(()),
    };
    let written = wb::<CustomCharset<'_>, _>(&v).map_err(|e| fail("charset:write", format!("{:?}", e)))?;
    if written != raw {
        return Err(fail("charset:written-bytes", diff(&written, &raw)));
    }
    let g2 = stable!(
        "charset",
        &raw,
        |d| ReadScope::new(d).read_dep::<CustomCharset<'_>>(*n),
        |t| wb::<CustomCharset<'_>, _>(t),
        |a, b| if charset_ids(a, *n) == ids && charset_ids(b, *n) == ids && a.id_for_glyph(0) == Some(0) { Ok(()) } else { Err(format!("ids {:?} / {:?}, model {:?}", charset_ids(a, *n), charset_ids(b, *n), ids)) }
    );
    if g2 != raw {
        return Err(fail("charset:gen2-bytes", diff(&g2, &raw)));
    }
    rec.class(match m {
        CharsetM::F0(_) => "charset:format0",
        CharsetM::F1(_) => "charset:format1",
        _ => "charset:format2",
    });
    rec.set_nontrivial(*n >= 3);
    rec.hash_bytes(&raw);
    Ok(())
}

fn encoding_strategy() -> impl Strategy<Value = EncodingM> {
    prop_oneof![
        proptest::collection::vec(any::<u8>(), 0..12).prop_map(EncodingM::F0),
        proptest::collection::vec((any::<u8>(), 0u8..6), 0..5).prop_map(EncodingM::F1),
    ]
}

fn encoding_model(e: &CustomEncoding<'_>) -> EncodingM {
    match e {
        CustomEncoding::Format0 { codes } => EncodingM::F0(codes.to_vec()),
        CustomEncoding::Format1 { ranges } => EncodingM::F1(ranges.iter().map(|r| (r.first, r.n_left)).collect()),
    }
}

fn check_encoding(m: &EncodingM, rec: &mut Rec) -> CaseResult {
    let raw = enc_encoding(m);
    let g2 = stable!(
        "encoding",
        &raw,
        |d| ReadScope::new(d).read::<CustomEncoding<'_>>(),
        |t| wb::<CustomEncoding<'_>, _>(t),
        |a, b| if encoding_model(a) == *m && encoding_model(b) == *m { Ok(()) } else { Err(format!("{:?} / {:?} vs {:?}", encoding_model(a), encoding_model(b), m)) }
    );
    if g2 != raw {
        return Err(fail("encoding:gen2-bytes", diff(&g2, &raw)));
    }
    rec.class(if matches!(m, EncodingM::F0(_)) { "encoding:format0" } else { "encoding:format1" });
    rec.set_nontrivial(raw.len() > 3);
    rec.hash_bytes(&raw);
    Ok(())
}

fn fdselect_strategy(max_glyphs: usize, nfds: u8) -> impl Strategy<Value = (usize, FdSelectM)> {
    (1usize..max_glyphs, any::<bool>(), proptest::collection::vec((0u8..nfds.max(1), 1usize..4), max_glyphs)).prop_map(|(n, f3, raw)| {
        if f3 {
            let mut ranges = Vec::new();
            let mut g = 0usize;
            for (fd, len) in raw {
                if g >= n {
                    break;
                }
                ranges.push((g as u16, fd));
                g += len;
            }
            (n, FdSelectM::F3(ranges, n as u16))
        } else {
            (n, FdSelectM::F0(raw.into_iter().map(|r| r.0).take(n).collect()))
        }
    })
}

fn fds_of(f: &FDSelect<'_>, n: usize) -> Vec<Option<u8>> {
    (0..n).map(|g| f.font_dict_index(g as u16)).collect()
}

fn check_fdselect(c: &(usize, FdSelectM), rec: &mut Rec) -> CaseResult {
    let (n, m) = c;
    let raw = enc_fdselect(m);
    let exp: Vec<Option<u8>> = (0..*n).map(|g| m.fd_of(g as u16)).collect();
    let v = match m {
        FdSelectM::F0(v) => FDSelect::Format0 { glyph_font_dict_indices: ReadArrayCow::Owned(v.clone()) },
        FdSelectM::F3(r, s) => FDSelect::Format3 { ranges: ReadArrayCow::Owned(r.iter().map(|(f, fd)| Range { first: *f, n_left: *fd }).collect()), sentinel: *s },
    };
    let written = wb::<FDSelect<'_>, _>(&v).map_err(|e| fail("fdselect:write", format!("{:?}", e)))?;
    if written != raw {
        return Err(fail("fdselect:written-bytes", diff(&written, &raw)));
    }
    let g2 = stable!(
        "fdselect",
        &raw,
        |d| ReadScope::new(d).read_dep::<FDSelect<'_>>(*n),
        |t| wb::<FDSelect<'_>, _>(t),
        |a, b| if fds_of(a, *n) == exp && fds_of(b, *n) == exp && a == b { Ok(()) } else { Err(format!("{:?} / {:?} vs {:?}", fds_of(a, *n), fds_of(b, *n), exp)) }
    );
    if g2 != raw {
        return Err(fail("fdselect:gen2-bytes", diff(&g2, &raw)));
    }
    rec.class(if matches!(m, FdSelectM::F0(_)) { "fdselect:format0" } else { "fdselect:format3" });
    rec.set_nontrivial(*n >= 2);
    rec.hash_bytes(&raw);
    Ok(())
}


// ================================================================== placeholders (reserve / write_placeholder)

/// `reserve(n)` followed by `write_placeholder`: exact fit reproduces a direct write; a value that
/// needs more than the reserved bytes is refused with an error (never a panic, never a write outside
/// the reserved window); a smaller value leaves the rest of the window zero.
fn check_placeholder(c: &(IndexM, i32, u8), rec: &mut Rec) -> CaseResult {
    use allsorts::binary::write::{WriteBuffer, WriteContext};
    let (m, slack, guard) = c;
    let objs: Vec<Vec<u8>> = m.objs.iter().map(obj_bytes).collect();
    let raw = enc_index(&objs, m.off_size, false);
    let idx = ReadScope::new(&raw).read::<IndexU16>().map_err(|e| fail("index:parse", format!("{:?}", e)))?;
    let direct = wb::<IndexU16, _>(&idx).map_err(|e| fail("index:write", format!("{:?}", e)))?;
    let reserved = (direct.len() as i64 + *slack as i64).max(0) as usize;
    let mut b = WriteBuffer::new();
    b.write_bytes(&[*guard; 3]).map_err(|e| fail("placeholder:write", format!("{:?}", e)))?;
    let ph = b.reserve::<IndexU16, allsorts::cff::Index<'_>>(reserved).map_err(|e| fail("placeholder:reserve", format!("{:?}", e)))?;
    b.write_bytes(&[*guard; 3]).map_err(|e| fail("placeholder:write", format!("{:?}", e)))?;
    let r = b.write_placeholder(ph, &idx);
    let out = b.bytes();
    if out.len() != reserved + 6 || out[..3] != [*guard; 3] || out[reserved + 3..] != [*guard; 3] {
        return Err(fail("placeholder:wrote-outside-window", format!("reserved {} bytes, buffer now {}", reserved, hexs(out))));
    }
    let window = &out[3..3 + reserved];
    match r {
        Ok(()) if reserved >= direct.len() => {
            if window[..direct.len()] != direct[..] || window[direct.len()..].iter().any(|x| *x != 0) {
                return Err(fail("placeholder:content", format!("window {} vs direct write {}", hexs(window), hexs(&direct))));
            }
            rec.class(if reserved == direct.len() { "placeholder:exact" } else { "placeholder:roomy" });
        }
        Ok(()) => return Err(fail("placeholder:oversize-value-accepted", format!("{} bytes written into a {}-byte placeholder", direct.len(), reserved))),
        Err(_) if reserved < direct.len() => rec.class("placeholder:too-small-refused"),
        Err(e) => return Err(fail("placeholder:refused", format!("{:?} although {} bytes fit into {}", e, direct.len(), reserved))),
    }
    rec.set_nontrivial(*slack != 0);
    rec.hash_bytes(&raw[..raw.len().min(512)]);
    rec.hash_u64(*slack as u64);
    Ok(())
}

include!("c15_cff_whole.rs");
include!("c15_cff_fuzz.rs");
