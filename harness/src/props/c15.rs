//! C15 — reading is the inverse of writing for every table the library can write.
//!
//! Three relations per structure (DESIGN §4 C15):
//!  (a) model → allsorts value → allsorts writer → bytes; the bytes are examined by my own
//!      spec-written encoders/decoders (expected bytes or decoded model) *and* re-read by allsorts
//!      and compared with the value;
//!  (b) model → my encoder → bytes → allsorts reader (compared with the model) → writer → reader →
//!      writer: generation 2 and 3 byte strings identical, values equal through fields/accessors;
//!  (c) counts / lengths / offsets beyond their field width → `Err`, or a faithful round trip;
//!      a truncated table shows up as a decode disagreement.
//! The sfnt tables live in this file, glyf/cmap in `c15_tt.rs`, CFF / CFF2 / ItemVariationStore in
//! `c15_cff.rs`.

use crate::engine::{CaseResult, Ctx, Fail, Property, Rec};
use crate::fontgen::buf::Buf;
use allsorts::binary::read::{ReadArrayCow, ReadScope};
use allsorts::binary::write::{WriteBinary, WriteBinaryDep, WriteBuffer, WriteContext};
use allsorts::error::WriteError;
use allsorts::tables::os2::{FsSelection, Os2, Version0, Version1, Version2to4, Version5};
use allsorts::tables::{
    CvtTable, F2Dot14, Fixed, HeadTable, HheaTable, HmtxTable, IndexToLocFormat, LongHorMetric, MacStyle, MaxpTable,
    MaxpVersion1SubTable, TableRecord,
};
use proptest::prelude::*;

pub struct C15;

pub(crate) fn fail(sig: &str, msg: String) -> Fail {
    Fail::new(format!("C15:{}", sig), msg)
}

pub(crate) fn hexs(b: &[u8]) -> String {
    let n = b.len().min(96);
    let mut s = hex::encode(&b[..n]);
    if b.len() > n {
        s.push_str(&format!("…[{} bytes]", b.len()));
    }
    s
}

/// first differing position of two byte strings, rendered
pub(crate) fn diff(a: &[u8], b: &[u8]) -> String {
    let p = a.iter().zip(b.iter()).position(|(x, y)| x != y).unwrap_or(a.len().min(b.len()));
    let lo = p.saturating_sub(4);
    format!(
        "lengths {} / {}, first difference at {}: …{} vs …{}",
        a.len(),
        b.len(),
        p,
        hexs(&a[lo.min(a.len())..]),
        hexs(&b[lo.min(b.len())..])
    )
}

pub(crate) fn wb<T, H>(val: H) -> Result<Vec<u8>, WriteError>
where
    T: WriteBinary<H>,
{
    let mut b = WriteBuffer::new();
    T::write(&mut b, val)?;
    Ok(b.into_inner())
}

pub(crate) fn wbd<T, H>(val: H, args: T::Args) -> Result<(T::Output, Vec<u8>), WriteError>
where
    T: WriteBinaryDep<H>,
{
    let mut b = WriteBuffer::new();
    let o = T::write_dep(&mut b, val, args)?;
    Ok((o, b.into_inner()))
}

// ------------------------------------------------------------------ boundary-biased scalars

pub(crate) const B16: [u16; 10] = [0, 1, 2, 0xFF, 0x100, 0x7FFF, 0x8000, 0x8001, 0xFFFE, 0xFFFF];

pub(crate) fn bu16() -> BoxedStrategy<u16> {
    prop_oneof![3 => any::<u16>(), 2 => proptest::sample::select(B16.to_vec())].boxed()
}
pub(crate) fn bi16() -> BoxedStrategy<i16> {
    bu16().prop_map(|v| v as i16).boxed()
}
pub(crate) fn bu32() -> BoxedStrategy<u32> {
    prop_oneof![
        3 => any::<u32>(),
        2 => proptest::sample::select(vec![0u32, 1, 0xFFFF, 0x1_0000, 0xFF_FFFF, 0x100_0000, 0x7FFF_FFFF, 0x8000_0000, 0xFFFF_FFFF]),
    ]
    .boxed()
}
pub(crate) fn bi32() -> BoxedStrategy<i32> {
    bu32().prop_map(|v| v as i32).boxed()
}
pub(crate) fn bi64() -> BoxedStrategy<i64> {
    prop_oneof![
        3 => any::<i64>(),
        2 => proptest::sample::select(vec![0i64, 1, -1, i64::MAX, i64::MIN, 0xFFFF_FFFF, 0x1_0000_0000, 3_600_000_000]),
    ]
    .boxed()
}
/// A table may be longer than its fields (readers ignore the rest): every third byte string gets
/// 1–5 trailing bytes. At most `max` bytes are added.
pub(crate) fn with_tail(raw: &[u8], max: usize) -> Vec<u8> {
    let h = crate::engine::util::fnv1a(raw);
    let mut v = raw.to_vec();
    if h % 3 == 0 {
        let n = (1 + (h / 3 % 5) as usize).min(max);
        v.extend((0..n).map(|i| 0xA5u8.wrapping_add(i as u8)));
    }
    v
}

pub(crate) fn is_b16(v: u16) -> bool {
    B16.contains(&v)
}

// ------------------------------------------------------------------ the generation-2/3 relation

/// bytes → read → write → read → write: generation 2 and 3 identical, the two values equal.
/// `$read` is an expression over the byte slice `$d` giving `Result<V, ParseError>`; `$write` an
/// expression over `$v: &V` (and `$d`, the bytes `$v` was read from) giving
/// `Result<Vec<u8>, WriteError>`; `$same` compares `$a` (first value) and `$b` (second value) and
/// gives `Result<(), String>`. Evaluates to the generation-2 bytes.
macro_rules! stable {
    ($name:expr, $bytes:expr, |$d:ident| $read:expr, |$v:ident| $write:expr, |$a:ident, $b:ident| $same:expr) => {{
        let $d: &[u8] = $bytes;
        let va = ($read).map_err(|e| {
            $crate::props::c15::fail(concat!($name, ":parse"), format!("input does not parse: {:?}; bytes {}", e, $crate::props::c15::hexs($d)))
        })?;
        let bytes2: Vec<u8> = {
            let $v = &va;
            $write
        }
        .map_err(|e| {
            $crate::props::c15::fail(
                concat!($name, ":write-of-parsed-refused"),
                format!("writing the value parsed from valid bytes failed: {:?}; bytes {}", e, $crate::props::c15::hexs($d)),
            )
        })?;
        let bytes3: Vec<u8> = {
            let $d: &[u8] = &bytes2;
            let vb = ($read).map_err(|e| {
                $crate::props::c15::fail(
                    concat!($name, ":reparse"),
                    format!("written bytes do not parse: {:?}; written {}", e, $crate::props::c15::hexs($d)),
                )
            })?;
            #[allow(clippy::redundant_closure_call)]
            let same: Result<(), String> = (|| {
                let $a = &va;
                let $b = &vb;
                $same
            })();
            same.map_err(|m| $crate::props::c15::fail(concat!($name, ":value-changed"), format!("value after write+read differs: {}; written {}", m, $crate::props::c15::hexs($d))))?;
            let $v = &vb;
            ($write).map_err(|e| $crate::props::c15::fail(concat!($name, ":rewrite-refused"), format!("{:?}", e)))?
        };
        if bytes3 != bytes2 {
            return Err($crate::props::c15::fail(
                concat!($name, ":unstable"),
                format!("generation 3 differs from generation 2: {}", $crate::props::c15::diff(&bytes2, &bytes3)),
            ));
        }
        bytes2
    }};
}

macro_rules! eqf {
    ($a:expr, $b:expr, $($f:ident).+) => {
        if $a.$($f).+ != $b.$($f).+ {
            return Err(format!("{}: {:?} vs {:?}", stringify!($($f).+), $a.$($f).+, $b.$($f).+));
        }
    };
}

#[path = "c15_cff.rs"]
pub mod cff;
#[path = "c15_tt.rs"]
pub mod tt;

// ================================================================== head

#[derive(Clone, Debug)]
pub struct HeadM {
    major: u16,
    minor: u16,
    rev: i32,
    csa: u32,
    flags: u16,
    upem: u16,
    created: i64,
    modified: i64,
    bbox: [i16; 4],
    mac: u16,
    ppem: u16,
    hint: i16,
    long: bool,
    gdf: i16,
}

fn head_strategy() -> impl Strategy<Value = HeadM> {
    (
        (bu16(), bu16(), bi32(), bu32(), bu16(), bu16()),
        (bi64(), bi64(), [bi16(), bi16(), bi16(), bi16()]),
        (bu16(), bu16(), bi16(), any::<bool>(), bi16()),
    )
        .prop_map(|((major, minor, rev, csa, flags, upem), (created, modified, bbox), (mac, ppem, hint, long, gdf))| HeadM {
            major,
            minor,
            rev,
            csa,
            flags,
            upem,
            created,
            modified,
            bbox,
            mac,
            ppem,
            hint,
            long,
            gdf,
        })
}

fn enc_head(m: &HeadM, mac: u16) -> Vec<u8> {
    let mut b = Buf::new();
    b.u16(m.major).u16(m.minor).i32(m.rev).u32(m.csa).u32(0x5F0F3CF5).u16(m.flags).u16(m.upem);
    b.i64(m.created).i64(m.modified);
    b.i16(m.bbox[0]).i16(m.bbox[1]).i16(m.bbox[2]).i16(m.bbox[3]);
    b.u16(mac).u16(m.ppem).i16(m.hint).i16(if m.long { 1 } else { 0 }).i16(m.gdf);
    b.into_vec()
}

pub(crate) fn write_head(h: &HeadTable) -> Result<Vec<u8>, WriteError> {
    let mut b = WriteBuffer::new();
    let ph = HeadTable::write(&mut b, h)?;
    b.write_placeholder(ph, h.check_sum_adjustment)?;
    Ok(b.into_inner())
}

fn check_head(m: &HeadM, rec: &mut Rec) -> CaseResult {
    let v = HeadTable {
        major_version: m.major,
        minor_version: m.minor,
        font_revision: Fixed::from_raw(m.rev),
        check_sum_adjustment: m.csa,
        magic_number: 0x5F0F3CF5,
        flags: m.flags,
        units_per_em: m.upem,
        created: m.created,
        modified: m.modified,
        x_min: m.bbox[0],
        y_min: m.bbox[1],
        x_max: m.bbox[2],
        y_max: m.bbox[3],
        mac_style: MacStyle::from_bits_truncate(m.mac),
        lowest_rec_ppem: m.ppem,
        font_direction_hint: m.hint,
        index_to_loc_format: if m.long { IndexToLocFormat::Long } else { IndexToLocFormat::Short },
        glyph_data_format: m.gdf,
    };
    // (a)
    let expect = enc_head(m, m.mac & 0x7F);
    let got = write_head(&v).map_err(|e| fail("head:write", format!("{:?}", e)))?;
    if got != expect {
        return Err(fail("head:written-bytes", format!("{:?}: {}", v, diff(&got, &expect))));
    }
    let back = ReadScope::new(&got).read::<HeadTable>().map_err(|e| fail("head:read-back", format!("{:?}", e)))?;
    if back != v {
        return Err(fail("head:value", format!("wrote {:?} read {:?}", v, back)));
    }
    // (b) raw macStyle with reserved bits
    let raw = with_tail(&enc_head(m, m.mac), 8);
    rec.class_if(raw.len() > 54, "head:trailing-bytes");
    let g2 = stable!("head", &raw, |d| ReadScope::new(d).read::<HeadTable>(), |t| write_head(t), |a, b| if a == b { Ok(()) } else { Err(format!("{:?} vs {:?}", a, b)) });
    if g2 != expect {
        return Err(fail("head:gen2-bytes", diff(&g2, &expect)));
    }
    rec.set_nontrivial([m.major, m.minor, m.flags, m.upem, m.mac, m.ppem].iter().any(|v| is_b16(*v)) || m.bbox.iter().any(|v| is_b16(*v as u16)));
    rec.class("head");
    rec.class_if(m.mac & !0x7F != 0, "head:reserved-macstyle-bits");
    rec.hash_bytes(&raw);
    Ok(())
}

// ================================================================== hhea

#[derive(Clone, Debug)]
pub struct HheaM {
    f: [u16; 10],
    nhm: u16,
    minor: u16,
    reserved: [i16; 4],
}

fn enc_hhea(m: &HheaM, minor: u16, reserved: [i16; 4]) -> Vec<u8> {
    let mut b = Buf::new();
    b.u16(1).u16(minor);
    for v in m.f {
        b.u16(v);
    }
    for r in reserved {
        b.i16(r);
    }
    b.i16(0).u16(m.nhm);
    b.into_vec()
}

fn check_hhea(m: &HheaM, rec: &mut Rec) -> CaseResult {
    let v = HheaTable {
        ascender: m.f[0] as i16,
        descender: m.f[1] as i16,
        line_gap: m.f[2] as i16,
        advance_width_max: m.f[3],
        min_left_side_bearing: m.f[4] as i16,
        min_right_side_bearing: m.f[5] as i16,
        x_max_extent: m.f[6] as i16,
        caret_slope_rise: m.f[7] as i16,
        caret_slope_run: m.f[8] as i16,
        caret_offset: m.f[9] as i16,
        num_h_metrics: m.nhm,
    };
    let expect = enc_hhea(m, 0, [0; 4]);
    let got = wb::<HheaTable, _>(&v).map_err(|e| fail("hhea:write", format!("{:?}", e)))?;
    if got != expect {
        return Err(fail("hhea:written-bytes", format!("{:?}: {}", v, diff(&got, &expect))));
    }
    let back = ReadScope::new(&got).read::<HheaTable>().map_err(|e| fail("hhea:read-back", format!("{:?}", e)))?;
    if back != v {
        return Err(fail("hhea:value", format!("wrote {:?} read {:?}", v, back)));
    }
    let raw = with_tail(&enc_hhea(m, m.minor, m.reserved), 8);
    rec.class_if(raw.len() > 36, "hhea:trailing-bytes");
    let g2 = stable!("hhea", &raw, |d| ReadScope::new(d).read::<HheaTable>(), |t| wb::<HheaTable, _>(t), |a, b| if a == b && *a == v { Ok(()) } else { Err(format!("{:?} vs {:?}", a, b)) });
    if g2 != expect {
        return Err(fail("hhea:gen2-bytes", diff(&g2, &expect)));
    }
    rec.set_nontrivial(m.f.iter().any(|v| is_b16(*v)) || is_b16(m.nhm));
    rec.class("hhea");
    rec.hash_bytes(&raw);
    Ok(())
}

// ================================================================== maxp

#[derive(Clone, Debug)]
pub struct MaxpM {
    n: u16,
    v1: Option<[u16; 13]>,
}

fn enc_maxp(m: &MaxpM) -> Vec<u8> {
    let mut b = Buf::new();
    match &m.v1 {
        Some(f) => {
            b.u32(0x0001_0000).u16(m.n);
            for v in f {
                b.u16(*v);
            }
        }
        None => {
            b.u32(0x0000_5000).u16(m.n);
        }
    }
    b.into_vec()
}

fn check_maxp(m: &MaxpM, rec: &mut Rec) -> CaseResult {
    let v = MaxpTable {
        num_glyphs: m.n,
        version1_sub_table: m.v1.map(|f| MaxpVersion1SubTable {
            max_points: f[0],
            max_contours: f[1],
            max_composite_points: f[2],
            max_composite_contours: f[3],
            max_zones: f[4],
            max_twilight_points: f[5],
            max_storage: f[6],
            max_function_defs: f[7],
            max_instruction_defs: f[8],
            max_stack_elements: f[9],
            max_size_of_instructions: f[10],
            max_component_elements: f[11],
            max_component_depth: f[12],
        }),
    };
    let expect = enc_maxp(m);
    let got = wb::<MaxpTable, _>(&v).map_err(|e| fail("maxp:write", format!("{:?}", e)))?;
    if got != expect {
        return Err(fail("maxp:written-bytes", format!("{:?}: {}", v, diff(&got, &expect))));
    }
    let raw = with_tail(&expect, 8);
    rec.class_if(raw.len() > expect.len(), "maxp:trailing-bytes");
    let g2 = stable!("maxp", &raw, |d| ReadScope::new(d).read::<MaxpTable>(), |t| wb::<MaxpTable, _>(t), |a, b| if a == b && *a == v { Ok(()) } else { Err(format!("{:?} vs {:?} vs {:?}", a, b, v)) });
    if g2 != expect {
        return Err(fail("maxp:gen2-bytes", diff(&g2, &expect)));
    }
    rec.set_nontrivial(is_b16(m.n) || m.v1.map_or(false, |f| f.iter().any(|v| is_b16(*v))));
    rec.class(if m.v1.is_some() { "maxp:1.0" } else { "maxp:0.5" });
    rec.hash_bytes(&expect);
    Ok(())
}

// ================================================================== hmtx / cvt

#[derive(Clone, Debug)]
pub struct HmtxM {
    metrics: Vec<(u16, i16)>,
    lsbs: Vec<i16>,
}

fn enc_hmtx(m: &HmtxM) -> Vec<u8> {
    let mut b = Buf::new();
    for (a, l) in &m.metrics {
        b.u16(*a).i16(*l);
    }
    for l in &m.lsbs {
        b.i16(*l);
    }
    b.into_vec()
}

fn hmtx_matches(t: &HmtxTable<'_>, m: &HmtxM) -> Result<(), String> {
    if t.h_metrics.len() != m.metrics.len() || t.left_side_bearings.len() != m.lsbs.len() {
        return Err(format!("lengths {}+{} vs model {}+{}", t.h_metrics.len(), t.left_side_bearings.len(), m.metrics.len(), m.lsbs.len()));
    }
    for (i, (a, l)) in m.metrics.iter().enumerate() {
        let g = t.h_metrics.get_item(i).ok_or("missing metric")?;
        if g.advance_width != *a || g.lsb != *l {
            return Err(format!("metric {}: {:?} vs ({}, {})", i, g, a, l));
        }
    }
    for (i, l) in m.lsbs.iter().enumerate() {
        if t.left_side_bearings.get_item(i) != Some(*l) {
            return Err(format!("lsb {}: {:?} vs {}", i, t.left_side_bearings.get_item(i), l));
        }
    }
    // the accessor semantics of the spec
    let n = m.metrics.len() + m.lsbs.len();
    if !m.metrics.is_empty() {
        for gid in [0usize, m.metrics.len() - 1, m.metrics.len(), n.saturating_sub(1)] {
            if gid >= n || gid > 0xFFFF {
                continue;
            }
            let exp = if gid < m.metrics.len() { m.metrics[gid] } else { (m.metrics[m.metrics.len() - 1].0, m.lsbs[gid - m.metrics.len()]) };
            match t.metric(gid as u16) {
                Ok(g) if (g.advance_width, g.lsb) == exp => {}
                other => return Err(format!("metric({}) = {:?}, expected {:?}", gid, other, exp)),
            }
        }
    }
    Ok(())
}

fn check_hmtx(m: &HmtxM, rec: &mut Rec) -> CaseResult {
    let v = HmtxTable {
        h_metrics: ReadArrayCow::Owned(m.metrics.iter().map(|(a, l)| LongHorMetric { advance_width: *a, lsb: *l }).collect()),
        left_side_bearings: ReadArrayCow::Owned(m.lsbs.clone()),
    };
    let expect = enc_hmtx(m);
    let got = wb::<HmtxTable<'_>, _>(&v).map_err(|e| fail("hmtx:write", format!("{:?}", e)))?;
    if got != expect {
        return Err(fail("hmtx:written-bytes", diff(&got, &expect)));
    }
    let n = m.metrics.len() + m.lsbs.len();
    let nhm = m.metrics.len();
    let raw = with_tail(&expect, 8);
    rec.class_if(raw.len() > expect.len(), "hmtx:trailing-bytes");
    let g2 = stable!(
        "hmtx",
        &raw,
        |d| ReadScope::new(d).read_dep::<HmtxTable<'_>>((n, nhm)),
        |t| wb::<HmtxTable<'_>, _>(t),
        |a, b| hmtx_matches(a, m).and_then(|_| hmtx_matches(b, m))
    );
    if g2 != expect {
        return Err(fail("hmtx:gen2-bytes", diff(&g2, &expect)));
    }
    rec.set_nontrivial(n >= 2);
    rec.class("hmtx");
    rec.class_if(m.lsbs.is_empty(), "hmtx:nHM=numGlyphs");
    rec.class_if(m.metrics.is_empty(), "hmtx:nHM=0");
    rec.hash_bytes(&expect);
    Ok(())
}

fn check_cvt(vals: &Vec<i16>, rec: &mut Rec) -> CaseResult {
    let v = CvtTable { values: ReadArrayCow::Owned(vals.clone()) };
    let mut e = Buf::new();
    for x in vals {
        e.i16(*x);
    }
    let expect = e.into_vec();
    let got = wb::<CvtTable<'_>, _>(&v).map_err(|e| fail("cvt:write", format!("{:?}", e)))?;
    if got != expect {
        return Err(fail("cvt:written-bytes", diff(&got, &expect)));
    }
    let same = |t: &CvtTable<'_>| -> Result<(), String> {
        let g: Vec<i16> = t.values.iter().collect();
        if &g == vals {
            Ok(())
        } else {
            Err(format!("{:?} vs {:?}", g, vals))
        }
    };
    let len = expect.len() as u32;
    let g2 = stable!("cvt", &expect, |d| ReadScope::new(d).read_dep::<CvtTable<'_>>(len), |t| wb::<CvtTable<'_>, _>(t), |a, b| same(a).and_then(|_| same(b)));
    if g2 != expect {
        return Err(fail("cvt:gen2-bytes", diff(&g2, &expect)));
    }
    rec.set_nontrivial(vals.len() >= 2);
    rec.class("cvt");
    rec.hash_bytes(&expect);
    Ok(())
}

// ================================================================== OS/2

#[derive(Clone, Debug)]
pub struct Os2M {
    /// 0: version 0, 68 bytes; 1: version 0, 78 bytes; 2: v1; 3: v2; 4: v3; 5: v4; 6: v5
    kind: u8,
    w: [u16; 15],
    panose: [u8; 10],
    ur: [u32; 4],
    vend: u32,
    fssel: u16,
    first: u16,
    last: u16,
    v0: [u16; 5],
    v1: [u32; 2],
    v2: [u16; 5],
    v5: [u16; 2],
}

fn os2_version(kind: u8) -> u16 {
    match kind {
        0 | 1 => 0,
        2 => 1,
        3 => 2,
        4 => 3,
        5 => 4,
        _ => 5,
    }
}

fn enc_os2(m: &Os2M, version: u16, fssel: u16) -> Vec<u8> {
    let mut b = Buf::new();
    b.u16(version);
    for v in m.w {
        b.u16(v);
    }
    b.bytes(&m.panose);
    for v in m.ur {
        b.u32(v);
    }
    b.u32(m.vend).u16(fssel).u16(m.first).u16(m.last);
    if m.kind >= 1 {
        for v in m.v0 {
            b.u16(v);
        }
    }
    if m.kind >= 2 {
        b.u32(m.v1[0]).u32(m.v1[1]);
    }
    if m.kind >= 3 {
        for v in m.v2 {
            b.u16(v);
        }
    }
    if m.kind >= 6 {
        b.u16(m.v5[0]).u16(m.v5[1]);
    }
    b.into_vec()
}

fn os2_value(m: &Os2M) -> Os2 {
    Os2 {
        version: os2_version(m.kind),
        x_avg_char_width: m.w[0] as i16,
        us_weight_class: m.w[1],
        us_width_class: m.w[2],
        fs_type: m.w[3],
        y_subscript_x_size: m.w[4] as i16,
        y_subscript_y_size: m.w[5] as i16,
        y_subscript_x_offset: m.w[6] as i16,
        y_subscript_y_offset: m.w[7] as i16,
        y_superscript_x_size: m.w[8] as i16,
        y_superscript_y_size: m.w[9] as i16,
        y_superscript_x_offset: m.w[10] as i16,
        y_superscript_y_offset: m.w[11] as i16,
        y_strikeout_size: m.w[12] as i16,
        y_strikeout_position: m.w[13] as i16,
        s_family_class: m.w[14] as i16,
        panose: m.panose,
        ul_unicode_range1: m.ur[0],
        ul_unicode_range2: m.ur[1],
        ul_unicode_range3: m.ur[2],
        ul_unicode_range4: m.ur[3],
        ach_vend_id: m.vend,
        fs_selection: FsSelection::from_bits_truncate(m.fssel),
        us_first_char_index: m.first,
        us_last_char_index: m.last,
        version0: (m.kind >= 1).then(|| Version0 {
            s_typo_ascender: m.v0[0] as i16,
            s_typo_descender: m.v0[1] as i16,
            s_typo_line_gap: m.v0[2] as i16,
            us_win_ascent: m.v0[3],
            us_win_descent: m.v0[4],
        }),
        version1: (m.kind >= 2).then(|| Version1 { ul_code_page_range1: m.v1[0], ul_code_page_range2: m.v1[1] }),
        version2to4: (m.kind >= 3).then(|| Version2to4 {
            sx_height: m.v2[0] as i16,
            s_cap_height: m.v2[1] as i16,
            us_default_char: m.v2[2],
            us_break_char: m.v2[3],
            us_max_context: m.v2[4],
        }),
        version5: (m.kind >= 6).then(|| Version5 { us_lower_optical_point_size: m.v5[0], us_upper_optical_point_size: m.v5[1] }),
    }
}

/// field-wise comparison of two OS/2 values; `version` is compared modulo the declared
/// normalisation (2 and 3 are written as 4)
pub(crate) fn os2_same(a: &Os2, b: &Os2) -> Result<(), String> {
    let norm = |v: u16| if v == 2 || v == 3 { 4 } else { v };
    if norm(a.version) != norm(b.version) {
        return Err(format!("version {} vs {}", a.version, b.version));
    }
    eqf!(a, b, x_avg_char_width);
    eqf!(a, b, us_weight_class);
    eqf!(a, b, us_width_class);
    eqf!(a, b, fs_type);
    eqf!(a, b, y_subscript_x_size);
    eqf!(a, b, y_subscript_y_size);
    eqf!(a, b, y_subscript_x_offset);
    eqf!(a, b, y_subscript_y_offset);
    eqf!(a, b, y_superscript_x_size);
    eqf!(a, b, y_superscript_y_size);
    eqf!(a, b, y_superscript_x_offset);
    eqf!(a, b, y_superscript_y_offset);
    eqf!(a, b, y_strikeout_size);
    eqf!(a, b, y_strikeout_position);
    eqf!(a, b, s_family_class);
    eqf!(a, b, panose);
    eqf!(a, b, ul_unicode_range1);
    eqf!(a, b, ul_unicode_range2);
    eqf!(a, b, ul_unicode_range3);
    eqf!(a, b, ul_unicode_range4);
    eqf!(a, b, ach_vend_id);
    if a.fs_selection.bits() != b.fs_selection.bits() {
        return Err(format!("fs_selection {:?} vs {:?}", a.fs_selection, b.fs_selection));
    }
    eqf!(a, b, us_first_char_index);
    eqf!(a, b, us_last_char_index);
    let v0 = |o: &Os2| o.version0.as_ref().map(|v| (v.s_typo_ascender, v.s_typo_descender, v.s_typo_line_gap, v.us_win_ascent, v.us_win_descent));
    let v1 = |o: &Os2| o.version1.as_ref().map(|v| (v.ul_code_page_range1, v.ul_code_page_range2));
    let v2 = |o: &Os2| o.version2to4.as_ref().map(|v| (v.sx_height, v.s_cap_height, v.us_default_char, v.us_break_char, v.us_max_context));
    let v5 = |o: &Os2| o.version5.as_ref().map(|v| (v.us_lower_optical_point_size, v.us_upper_optical_point_size));
    if v0(a) != v0(b) {
        return Err(format!("version0 {:?} vs {:?}", v0(a), v0(b)));
    }
    if v1(a) != v1(b) {
        return Err(format!("version1 {:?} vs {:?}", v1(a), v1(b)));
    }
    if v2(a) != v2(b) {
        return Err(format!("version2to4 {:?} vs {:?}", v2(a), v2(b)));
    }
    if v5(a) != v5(b) {
        return Err(format!("version5 {:?} vs {:?}", v5(a), v5(b)));
    }
    Ok(())
}

fn check_os2(m: &Os2M, rec: &mut Rec) -> CaseResult {
    let v = os2_value(m);
    let written_version = match m.kind {
        0 | 1 => 0,
        2 => 1,
        3..=5 => 4,
        _ => 5,
    };
    let expect = enc_os2(m, written_version, m.fssel & 0x3FF);
    let got = wb::<Os2, _>(&v).map_err(|e| fail("os2:write", format!("{:?}", e)))?;
    if got != expect {
        return Err(fail("os2:written-bytes", format!("kind {}: {}", m.kind, diff(&got, &expect))));
    }
    let back = ReadScope::new(&got).read_dep::<Os2>(got.len()).map_err(|e| fail("os2:read-back", format!("{:?}", e)))?;
    os2_same(&v, &back).map_err(|s| fail("os2:value", format!("kind {}: {}", m.kind, s)))?;
    if back.version != written_version {
        return Err(fail("os2:version", format!("kind {} read back as version {}", m.kind, back.version)));
    }
    // (b) from my bytes with the original version number and reserved fsSelection bits
    let raw = with_tail(&enc_os2(m, os2_version(m.kind), m.fssel), 5);
    rec.class_if(m.kind == 0 && raw.len() > 68, "os2:v0-length-between-68-and-78");
    rec.class_if(m.kind > 0 && raw.len() > enc_os2(m, 0, 0).len(), "os2:trailing-bytes");
    let g2 = stable!(
        "os2",
        &raw,
        |d| ReadScope::new(d).read_dep::<Os2>(d.len()),
        |t| wb::<Os2, _>(t),
        |a, b| os2_same(a, &v).and_then(|_| os2_same(a, b)).and_then(|_| if a.version == os2_version(m.kind) { Ok(()) } else { Err(format!("version read {}", a.version)) })
    );
    if g2 != expect {
        return Err(fail("os2:gen2-bytes", diff(&g2, &expect)));
    }
    rec.set_nontrivial(m.w.iter().chain(m.v0.iter()).chain(m.v2.iter()).any(|v| is_b16(*v)));
    rec.class(match m.kind {
        0 => "os2:v0-68",
        1 => "os2:v0-78",
        2 => "os2:v1",
        3 => "os2:v2",
        4 => "os2:v3",
        5 => "os2:v4",
        _ => "os2:v5",
    });
    rec.hash_bytes(&raw);
    Ok(())
}

fn os2_strategy() -> impl Strategy<Value = Os2M> {
    (
        (0u8..7, proptest::array::uniform15(bu16()), any::<[u8; 10]>(), [bu32(), bu32(), bu32(), bu32()]),
        (bu32(), bu16(), bu16(), bu16()),
        (proptest::array::uniform5(bu16()), [bu32(), bu32()], proptest::array::uniform5(bu16()), [bu16(), bu16()]),
    )
        .prop_map(|((kind, w, panose, ur), (vend, fssel, first, last), (v0, v1, v2, v5))| Os2M {
            kind,
            w,
            panose,
            ur,
            vend,
            fssel,
            first,
            last,
            v0,
            v1,
            v2,
            v5,
        })
}

// ================================================================== scalars / records

fn check_scalars(c: &(u32, u32, u32, u32, i16, i32, u16, i16), rec: &mut Rec) -> CaseResult {
    let (a, b, cc, d, f, x, adv, lsb) = *c;
    let tr = TableRecord { table_tag: a, checksum: b, offset: cc, length: d };
    let mut e = Buf::new();
    e.u32(a).u32(b).u32(cc).u32(d);
    let got = wb::<TableRecord, _>(&tr).map_err(|e| fail("scalar:write", format!("{:?}", e)))?;
    if got != e.0 {
        return Err(fail("tablerecord:written-bytes", diff(&got, &e.0)));
    }
    let back = ReadScope::new(&got).read::<TableRecord>().map_err(|e| fail("tablerecord:read", format!("{:?}", e)))?;
    if back != tr {
        return Err(fail("tablerecord:value", format!("{:?} vs {:?}", back, tr)));
    }
    let got = wb::<F2Dot14, _>(F2Dot14::from_raw(f)).map_err(|e| fail("scalar:write", format!("{:?}", e)))?;
    if got != f.to_be_bytes() || ReadScope::new(&got).read::<F2Dot14>().map(|v| v.raw_value()).ok() != Some(f) {
        return Err(fail("f2dot14:roundtrip", format!("raw {} written {}", f, hexs(&got))));
    }
    let got = wb::<Fixed, _>(Fixed::from_raw(x)).map_err(|e| fail("scalar:write", format!("{:?}", e)))?;
    if got != x.to_be_bytes() || ReadScope::new(&got).read::<Fixed>().map(|v| v.raw_value()).ok() != Some(x) {
        return Err(fail("fixed:roundtrip", format!("raw {} written {}", x, hexs(&got))));
    }
    let got = wb::<LongHorMetric, _>(LongHorMetric { advance_width: adv, lsb }).map_err(|e| fail("scalar:write", format!("{:?}", e)))?;
    let mut e = Buf::new();
    e.u16(adv).i16(lsb);
    if got != e.0 || ReadScope::new(&got).read::<LongHorMetric>().ok() != Some(LongHorMetric { advance_width: adv, lsb }) {
        return Err(fail("longhormetric:roundtrip", format!("({}, {}) written {}", adv, lsb, hexs(&got))));
    }
    for (fmt, raw) in [(IndexToLocFormat::Short, 0i16), (IndexToLocFormat::Long, 1)] {
        let got = wb::<IndexToLocFormat, _>(fmt).map_err(|e| fail("scalar:write", format!("{:?}", e)))?;
        if got != raw.to_be_bytes() || ReadScope::new(&got).read::<IndexToLocFormat>().ok() != Some(fmt) {
            return Err(fail("indextolocformat:roundtrip", format!("{:?} written {}", fmt, hexs(&got))));
        }
    }
    rec.evaluations(4);
    rec.set_nontrivial(is_b16(f as u16) || is_b16(adv));
    rec.class("scalars");
    Ok(())
}

// ================================================================== property

impl Property for C15 {
    fn id(&self) -> &'static str {
        "C15"
    }
    fn rule(&self) -> String {
        "per structure (head, hhea, maxp, hmtx, cvt, OS/2 68-byte v0 … v5, post 1/2/2.5/3, name owned+borrowed with lang tags, loca, simple and composite glyphs, glyf+loca, \
         cmap subtables 0/4/6/10/12 owned+borrowed, whole cmap, TableRecord/F2Dot14/Fixed, CFF operands/operators/DICTs/INDEXes/charsets/encodings/FDSelects, whole CFF \
         name- and CID-keyed, CFF2, ItemVariationStore) a proptest model with boundary-biased fields is (a) turned into the allsorts value, written, the bytes checked against my own \
         spec-written encoder or decoder and re-read; (b) encoded by my own encoder, read (compared with the model), written, read, written: generations 2 and 3 identical, values equal; \
         (c) deterministic and generated edge cases drive counts/lengths/offsets past their field width and demand Err or a faithful round trip. Fixture tables of the repository \
         fonts go through (b). Non-trivial = ≥ 1 field in a boundary class (0, 1, 0xFF/0x100, 0x7FFF/0x8000, 0xFFFF, operand-encoding edges, INDEX offSize edges) or ≥ 2 array elements; \
         distinct by hash of the encoded model."
            .to_string()
    }
    fn assumptions(&self) -> Vec<String> {
        vec![
            "accepted normalisations: head.checkSumAdjustment is filled through the returned placeholder; reserved macStyle/fsSelection/composite flag bits are dropped by the reader; hhea minor version and reserved words are written as 0; OS/2 versions 2–3 are written as 4; DICT entries equal to their defaults are omitted; CFF header size 4 / CFF2 header size 5; simple-glyph flags other than ON_CURVE are normalised; short-loca glyphs are padded to 2 bytes".into(),
            "values are generated inside the format: array lengths that the format ties together are equal, composite flags agree with the component's fields, post name count agrees with the largest index".into(),
            "an Err from a writer is accepted only when a count, length or offset of the straightforward sequential layout does not fit its field".into(),
        ]
    }
    fn run(&self, ctx: &mut Ctx) {
        let n = ctx.cases(24_000, 720_000);
        ctx.section("head", n, head_strategy(), |m, rec| check_head(m, rec));
        ctx.section(
            "hhea",
            n,
            (proptest::array::uniform10(bu16()), bu16(), bu16(), [bi16(), bi16(), bi16(), bi16()]).prop_map(|(f, nhm, minor, reserved)| HheaM { f, nhm, minor, reserved }),
            |m, rec| check_hhea(m, rec),
        );
        ctx.section(
            "maxp",
            n,
            (bu16(), proptest::option::weighted(0.6, proptest::array::uniform13(bu16()))).prop_map(|(n, v1)| MaxpM { n, v1 }),
            |m, rec| check_maxp(m, rec),
        );
        ctx.section(
            "hmtx",
            n,
            (proptest::collection::vec((bu16(), bi16()), 0..12), proptest::collection::vec(bi16(), 0..12)).prop_map(|(metrics, lsbs)| HmtxM { metrics, lsbs }),
            |m, rec| check_hmtx(m, rec),
        );
        ctx.section("cvt", ctx.cases(12_000, 360_000), proptest::collection::vec(bi16(), 0..40), |m, rec| check_cvt(m, rec));
        ctx.section("os2", ctx.cases(36_000, 1_200_000), os2_strategy(), |m, rec| check_os2(m, rec));
        ctx.section(
            "scalars",
            ctx.cases(24_000, 720_000),
            (bu32(), bu32(), bu32(), bu32(), bi16(), bi32(), bu16(), bi16()),
            |m, rec| check_scalars(m, rec),
        );
        tt::run(ctx);
        cff::run(ctx);
    }
}

// ================================================================== libFuzzer entry (target c15_roundtrip)

/// Reader of the fuzz tape: every read succeeds (lowest value of the range once the bytes are
/// used up), ranges are inclusive and are exactly the ranges of the proptest strategies.
pub(crate) struct Tape<'a>(arbitrary::Unstructured<'a>);

impl<'a> Tape<'a> {
    pub(crate) fn n(&mut self, lo: u32, hi: u32) -> u32 {
        self.0.int_in_range(lo..=hi).unwrap_or(lo)
    }
    pub(crate) fn i(&mut self, lo: i32, hi: i32) -> i32 {
        self.0.int_in_range(lo..=hi).unwrap_or(lo)
    }
    pub(crate) fn len(&mut self, lo: usize, hi: usize) -> usize {
        self.n(lo as u32, hi as u32) as usize
    }
    pub(crate) fn bool(&mut self) -> bool {
        self.n(0, 1) == 1
    }
    /// true with `k` chances in `of`
    pub(crate) fn chance(&mut self, k: u32, of: u32) -> bool {
        self.n(0, of - 1) < k
    }
    pub(crate) fn u8(&mut self) -> u8 {
        self.n(0, 0xFF) as u8
    }
    pub(crate) fn u16(&mut self) -> u16 {
        self.n(0, 0xFFFF) as u16
    }
    pub(crate) fn u32(&mut self) -> u32 {
        self.n(0, u32::MAX)
    }
    pub(crate) fn pick<T: Clone>(&mut self, list: &[T]) -> T {
        list[self.len(0, list.len() - 1)].clone()
    }
    /// `bu16()`: any u16, boundary values one byte away
    pub(crate) fn b16(&mut self) -> u16 {
        let s = self.u8() as usize;
        if s < B16.len() {
            B16[s]
        } else {
            self.u16()
        }
    }
    pub(crate) fn bi16(&mut self) -> i16 {
        self.b16() as i16
    }
    /// `bu32()`
    pub(crate) fn b32(&mut self) -> u32 {
        const E: [u32; 9] = [0, 1, 0xFFFF, 0x1_0000, 0xFF_FFFF, 0x100_0000, 0x7FFF_FFFF, 0x8000_0000, 0xFFFF_FFFF];
        let s = self.u8() as usize;
        if s < E.len() {
            E[s]
        } else {
            self.u32()
        }
    }
    /// `bi64()`
    pub(crate) fn b64(&mut self) -> i64 {
        const E: [i64; 8] = [0, 1, -1, i64::MAX, i64::MIN, 0xFFFF_FFFF, 0x1_0000_0000, 3_600_000_000];
        let s = self.u8() as usize;
        if s < E.len() {
            E[s]
        } else {
            ((self.u32() as u64) << 32 | self.u32() as u64) as i64
        }
    }
    pub(crate) fn vec<T>(&mut self, lo: usize, hi: usize, mut f: impl FnMut(&mut Self) -> T) -> Vec<T> {
        let n = self.len(lo, hi);
        (0..n).map(|_| f(self)).collect()
    }
}

/// the generated sections the target reaches, in the order the first input byte selects them
/// (whole CFF, CFF2 and ItemVariationStore are not decoded)
pub const FUZZ_SECTIONS: [&str; 28] = [
    "head", "hhea", "maxp", "hmtx", "cvt", "os2", "scalars",
    "post", "name-owned", "name-owned-64K", "name-borrowed", "loca", "glyph", "glyph-extreme", "glyf-loca", "cmap-subtable", "cmap-table",
    "operand-int", "operand-real", "operators", "dict-top", "dict-private", "dict-font", "index", "placeholder", "charset", "encoding", "fdselect",
];

/// `data[0] % 28` selects the section; `data[1..]` is decoded into that section's model (the domain of
/// the section's proptest strategy: same ranges, same dependent fix-ups) and given to its check.
pub fn fuzz_check(data: &[u8], rec: &mut Rec) -> CaseResult {
    let Some((&k, tape)) = data.split_first() else { return Ok(()) };
    let k = k as usize % FUZZ_SECTIONS.len();
    let mut t = Tape(arbitrary::Unstructured::new(tape));
    let t = &mut t;
    match k {
        0 => {
            let m = HeadM {
                major: t.b16(),
                minor: t.b16(),
                rev: t.b32() as i32,
                csa: t.b32(),
                flags: t.b16(),
                upem: t.b16(),
                created: t.b64(),
                modified: t.b64(),
                bbox: [t.bi16(), t.bi16(), t.bi16(), t.bi16()],
                mac: t.b16(),
                ppem: t.b16(),
                hint: t.bi16(),
                long: t.bool(),
                gdf: t.bi16(),
            };
            check_head(&m, rec)
        }
        1 => {
            let mut f = [0u16; 10];
            for v in f.iter_mut() {
                *v = t.b16();
            }
            let m = HheaM { f, nhm: t.b16(), minor: t.b16(), reserved: [t.bi16(), t.bi16(), t.bi16(), t.bi16()] };
            check_hhea(&m, rec)
        }
        2 => {
            let n = t.b16();
            let v1 = if t.chance(6, 10) {
                let mut f = [0u16; 13];
                for v in f.iter_mut() {
                    *v = t.b16();
                }
                Some(f)
            } else {
                None
            };
            check_maxp(&MaxpM { n, v1 }, rec)
        }
        3 => {
            let metrics = t.vec(0, 11, |t| (t.b16(), t.bi16()));
            let lsbs = t.vec(0, 11, |t| t.bi16());
            check_hmtx(&HmtxM { metrics, lsbs }, rec)
        }
        4 => {
            let v = t.vec(0, 39, |t| t.bi16());
            check_cvt(&v, rec)
        }
        5 => {
            let kind = t.n(0, 6) as u8;
            let mut w = [0u16; 15];
            for v in w.iter_mut() {
                *v = t.b16();
            }
            let mut panose = [0u8; 10];
            for v in panose.iter_mut() {
                *v = t.u8();
            }
            let m = Os2M {
                kind,
                w,
                panose,
                ur: [t.b32(), t.b32(), t.b32(), t.b32()],
                vend: t.b32(),
                fssel: t.b16(),
                first: t.b16(),
                last: t.b16(),
                v0: [t.b16(), t.b16(), t.b16(), t.b16(), t.b16()],
                v1: [t.b32(), t.b32()],
                v2: [t.b16(), t.b16(), t.b16(), t.b16(), t.b16()],
                v5: [t.b16(), t.b16()],
            };
            check_os2(&m, rec)
        }
        6 => {
            let c = (t.b32(), t.b32(), t.b32(), t.b32(), t.bi16(), t.b32() as i32, t.b16(), t.bi16());
            check_scalars(&c, rec)
        }
        7..=16 => tt::fuzz_section(k - 7, t, rec),
        _ => cff::fuzz_section(k - 17, t, rec),
    }
}
