//! C15 — not built yet.
use crate::engine::{Ctx, Property};

pub struct C15;

impl Property for C15 {
    fn id(&self) -> &'static str {
        "C15"
    }
    fn rule(&self) -> String {
        "not implemented".to_string()
    }
    fn run(&self, _ctx: &mut Ctx) {}
}
