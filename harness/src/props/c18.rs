//! C18 — not built yet.
use crate::engine::{Ctx, Property};

pub struct C18;

impl Property for C18 {
    fn id(&self) -> &'static str {
        "C18"
    }
    fn rule(&self) -> String {
        "not implemented".to_string()
    }
    fn run(&self, _ctx: &mut Ctx) {}
}
