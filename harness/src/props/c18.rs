//! C18 — CFF and CFF2 outlines follow Type 2 charstring semantics.
//!
//! Forward construction: a *path model* (contours of relative line / cubic segments, with
//! per-region variation deltas for CFF2) is encoded by `fontgen::type2` (free choice among
//! the equivalent operator forms, number encodings, stem hints / hintmask / cntrmask, width,
//! shared and ad-hoc subroutine factorings with padded INDEXes for every bias band, `blend` /
//! `vsindex`), wrapped by `fontgen::cff` into a name-keyed CFF, a CID-keyed CFF (per-FD local
//! subroutines through FDSelect 0/3) or a CFF2 table (FDArray / FDSelect / VariationStore),
//! parsed with `CFF::read` / `CFF2::read` and visited with a recording `OutlineSink`. The
//! delivered commands must equal the model path: one `move_to` per contour, `line_to` /
//! `cubic_curve_to` at the accumulated coordinates, exactly one `close` per contour (before
//! the next move and at the end), hints and width invisible. allsorts emits no closing
//! `line_to`, neither does the model, so the command lists are compared as they are.
//!
//! Sections: `cff-name-keyed`, `cff-cid-keyed`, `cff2` (random fonts), `cff-seac` (endchar
//! with 4/5 operands composing two StandardEncoding glyphs), and the enumerations
//! `nesting-depth` (1..12: <= 10 draws, >= 11 must fail), `bias-bands` (INDEX sizes around
//! 1240 / 33900 x called position), `stack-limits` (every path operator at 48 / ~60 / 513
//! operands), `cff2-special` (blend with zero regions, several blends per operator),
//! `fixture-fonts` (all CFF/CFF2 fonts under /repo/tests against `refmodel::type2`).
//!
//! Before allsorts is blamed, every generated glyph is run through `refmodel::type2` (my own
//! interpreter): if *that* does not give the model path back, the case is a HARNESS-ERROR.
//!
//! Failures that match the input class of a specific, separately reported defect carry that
//! defect's signature (`C18:cff2-local-subrs-from-fd0`, `C18:seac-component-width`, ...) and
//! are deferred so that they never mask a different violation in the same font; all of them
//! are repaired in /repo by now, so the signatures only reappear if a repair regresses.

use crate::engine::{fixtures, CaseResult, Ctx, Fail, Property, Rec};
use crate::fontgen::cff::{
    build_cff, build_cff2, build_cff2_with, build_cff_with, build_otf, Cff2Model, CffKind, CffLayout, CffModel, CharsetModel, PrivateModel, VarStoreModel,
};
use crate::fontgen::sfnt::find_table;
use crate::fontgen::type2::{
    self as t2, apply_blends, count_calls, diff_commands, factor, gen_frag_chunks, gen_glyph_plan, op, serialize, subr_bias, Cmd, Dec,
    EncOpts, EncStats, Encoder, FactorOpts, Frag, Grid, NumForm, PathModel, PathOpts, Seg, SubrLayout, Tok, ONE,
};
use crate::fontgen::var::{fvar_table, AxisModel};
use crate::refmodel::type2::{region_scalar, Deviations, T2Font};
use allsorts::binary::read::ReadScope;
use allsorts::cff::cff2::CFF2;
use allsorts::cff::outline::CFF2Outlines;
use allsorts::cff::CFF;
use allsorts::outline::{OutlineBuilder, OutlineSink};
use allsorts::pathfinder_geometry::line_segment::LineSegment2F;
use allsorts::pathfinder_geometry::vector::Vector2F;
use allsorts::tables::variable_fonts::fvar::FvarTable;
use allsorts::tables::variable_fonts::OwnedTuple;
use allsorts::tables::F2Dot14;
use proptest::prelude::*;
use std::panic::{catch_unwind, resume_unwind, AssertUnwindSafe};

pub struct C18;

// ------------------------------------------------------------------------------------------
// recording sink

#[derive(Default)]
struct Sink {
    cmds: Vec<Cmd>,
    quads: usize,
}

impl OutlineSink for Sink {
    fn move_to(&mut self, to: Vector2F) {
        self.cmds.push(Cmd::Move(to.x() as f64, to.y() as f64));
    }
    fn line_to(&mut self, to: Vector2F) {
        self.cmds.push(Cmd::Line(to.x() as f64, to.y() as f64));
    }
    fn quadratic_curve_to(&mut self, _ctrl: Vector2F, to: Vector2F) {
        self.quads += 1;
        self.cmds.push(Cmd::Line(to.x() as f64, to.y() as f64));
    }
    fn cubic_curve_to(&mut self, ctrl: LineSegment2F, to: Vector2F) {
        self.cmds.push(Cmd::Curve(
            ctrl.from_x() as f64,
            ctrl.from_y() as f64,
            ctrl.to_x() as f64,
            ctrl.to_y() as f64,
            to.x() as f64,
            to.y() as f64,
        ));
    }
    fn close(&mut self) {
        self.cmds.push(Cmd::Close);
    }
}

// ------------------------------------------------------------------------------------------
// generated case

#[derive(Clone, Copy, Debug, PartialEq)]
pub enum Kind {
    NameKeyed,
    Cid,
    Cff2,
}

impl Kind {
    fn tag(self) -> &'static str {
        match self {
            Kind::NameKeyed => "cff",
            Kind::Cid => "cid",
            Kind::Cff2 => "cff2",
        }
    }
}

#[derive(Clone, Debug)]
pub struct Case {
    pub kind: Kind,
    pub seed: u64,
    pub nglyphs: usize,
    /// 0 integers ±30000, 1 multiples of 1/256 ±16000, 2 any 16.16 ±120, 3 integers ±2000
    pub grid: u8,
    pub hints: bool,
    pub width: bool,
    pub free_forms: bool,
    /// shared path fragments (stack-neutral subroutines)
    pub nfrags: usize,
    /// ad-hoc cuts of arbitrary token ranges into subroutines, per glyph
    pub cuts: usize,
    /// nest the cuts as deep as the limit allows
    pub deep: bool,
    pub max_segs: usize,
    /// 0: INDEXes hold just the subroutines; 1..=4: one INDEX padded to 1238/1239/1240/1241;
    /// 5..=8: to 33898/33899/33900/33901
    pub pad: u8,
    pub nfd: usize,
    /// CFF2: VariationStore present, blends used
    pub variable: bool,
    pub axes: usize,
    pub block_order: u8,
    pub off_size: u8,
    pub header_extra: u8,
    /// parse through an OTTO sfnt and the table provider instead of the bare table
    pub via_sfnt: bool,
}

fn case_strategy(kind: Kind) -> impl Strategy<Value = Case> {
    let a = (
        any::<u64>(),
        prop_oneof![3 => 1usize..=3, 2 => 4usize..=8],
        prop_oneof![3 => Just(0u8), 2 => Just(1u8), 1 => Just(2u8), 2 => Just(3u8)],
        proptest::bool::weighted(0.6),
        proptest::bool::weighted(0.5),
        proptest::bool::weighted(0.6),
        prop_oneof![2 => Just(0usize), 3 => 1usize..=5],
        prop_oneof![2 => Just(0usize), 3 => 1usize..=4],
        proptest::bool::weighted(0.08),
        prop_oneof![3 => 1usize..=8, 2 => 9usize..=30],
    );
    let b = (
        prop_oneof![80 => Just(0u8), 16 => 1u8..=4, 1 => 5u8..=8],
        1usize..=3,
        proptest::bool::weighted(0.6),
        1usize..=3,
        any::<u8>(),
        prop_oneof![3 => Just(1u8), 1 => 2u8..=4],
        prop_oneof![3 => Just(0u8), 1 => 1u8..=3],
        proptest::bool::weighted(0.1),
    );
    (a, b).prop_map(
        move |(
            (seed, nglyphs, grid, hints, width, free_forms, nfrags, cuts, deep, max_segs),
            (pad, nfd, variable, axes, block_order, off_size, header_extra, via_sfnt),
        )| {
            let nfd = match kind {
                Kind::NameKeyed => 1,
                Kind::Cid => nfd.max(2).min(3),
                Kind::Cff2 => nfd,
            };
            Case {
                kind,
                seed,
                nglyphs,
                grid,
                hints,
                width: width && kind != Kind::Cff2,
                free_forms,
                nfrags,
                cuts,
                deep,
                max_segs,
                pad,
                nfd,
                variable: variable && kind == Kind::Cff2,
                axes,
                block_order,
                off_size,
                header_extra,
                via_sfnt,
            }
        },
    )
}

// ------------------------------------------------------------------------------------------
// building a font from a case

struct SubrTab {
    toks: Vec<Vec<Tok>>,
    depth: Vec<u32>,
    /// font dict whose local subroutines a body refers to (matters for global bodies that
    /// contain local calls: they belong to one glyph)
    ctx_fd: Vec<usize>,
}

impl SubrTab {
    fn new() -> SubrTab {
        SubrTab { toks: Vec::new(), depth: Vec::new(), ctx_fd: Vec::new() }
    }
    fn push(&mut self, t: Vec<Tok>, depth: u32, fd: usize) -> usize {
        self.toks.push(t);
        self.depth.push(depth);
        self.ctx_fd.push(fd);
        self.toks.len() - 1
    }
}

pub struct GlyphInfo {
    pub model: PathModel,
    pub stats: EncStats,
    pub fd: usize,
    pub vsindex: usize,
    /// numeric operands in the flattened program (for the rounding-error bound)
    pub nops: usize,
    /// nesting depth of subroutine calls
    pub depth: u32,
    /// CFF2: an hvcurveto/vhcurveto with more than 48 operands is used
    pub hv_over_48: bool,
    /// CFF2, font dict != 0: the glyph executes local subroutines, or blends under its font
    /// dict's default vsindex which differs from that of font dict 0 (input class of the known
    /// finding "local subroutines / vsindex taken from font dict 0")
    pub fd0_sensitive: bool,
    pub blends: usize,
}

pub struct Built {
    pub kind: Kind,
    pub table: Vec<u8>,
    pub glyphs: Vec<GlyphInfo>,
    pub vstore: Option<VarStoreModel>,
    /// raw F2Dot14 coordinates of the instance used for the variable visit
    pub tuple: Vec<i16>,
    pub classes: Vec<String>,
    pub max_abs: f64,
    /// compact rendering of every glyph's token list (debugging aid, VERIF_C18_DUMP=1)
    pub dump: Vec<String>,
}

fn grid_of(c: &Case) -> Grid {
    if c.variable {
        return Grid::SMALL;
    }
    match c.grid {
        0 => Grid::INT,
        1 => Grid::F8,
        2 => Grid::F16,
        _ => Grid::SMALL,
    }
}

fn pad_size(pad: u8) -> Option<usize> {
    match pad {
        1 => Some(1238),
        2 => Some(1239),
        3 => Some(1240),
        4 => Some(1241),
        5 => Some(33898),
        6 => Some(33899),
        7 => Some(33900),
        8 => Some(33901),
        _ => None,
    }
}

fn gen_vstore(dec: &mut Dec, axes: usize) -> (VarStoreModel, Vec<i16>) {
    let nreg = 1 + dec.below(4);
    let mut regions = Vec::new();
    let mut interesting: Vec<i16> = vec![0, 16384, -16384, 1, -1, 8192, -8192];
    for _ in 0..nreg {
        let mut r = Vec::new();
        for _ in 0..axes {
            // well-formed: start <= peak <= end, no zero crossing unless peak == 0
            let t = match dec.below(7) {
                0 => [0, 0, 0],
                1 => [-16384, 0, 16384],
                2 => [0, 16384, 16384],
                3 => [-16384, -16384, 0],
                4 => {
                    let p = dec.range(1, 16384) as i16;
                    let s = dec.range(0, p as i32) as i16;
                    let e = dec.range(p as i32, 16384) as i16;
                    [s, p, e]
                }
                5 => {
                    let p = -(dec.range(1, 16384) as i16);
                    let s = dec.range(-16384, p as i32) as i16;
                    let e = dec.range(p as i32, 0) as i16;
                    [s, p, e]
                }
                _ => [0, 8192, 16384],
            };
            interesting.extend_from_slice(&t);
            r.push(t);
        }
        regions.push(r);
    }
    let ndata = 1 + dec.below(3);
    let mut data = Vec::new();
    for _ in 0..ndata {
        let k = 1 + dec.below(3);
        data.push((0..k).map(|_| dec.below(nreg) as u16).collect());
    }
    let tuple: Vec<i16> = (0..axes)
        .map(|_| {
            if dec.chance(1, 2) {
                interesting[dec.below(interesting.len())]
            } else {
                dec.range(-16384, 16384) as i16
            }
        })
        .collect();
    (VarStoreModel { axis_count: axes as u16, regions, data }, tuple)
}

fn count_nums(toks: &[Tok]) -> usize {
    toks.iter().filter(|t| matches!(t, Tok::Num { .. } | Tok::Call { .. })).count()
}

/// hv/vh operators of a token list whose operand count exceeds 48 (counted on the flat list:
/// operands directly preceding the operator, blends already applied do not matter because
/// variable glyphs never reach that many operands)
fn has_hv_over_48(toks: &[Tok]) -> bool {
    let mut n = 0usize;
    for t in toks {
        match t {
            Tok::Num { .. } => n += 1,
            Tok::Op(o) => {
                if (*o == op::HVCURVETO || *o == op::VHCURVETO) && n > 48 {
                    return true;
                }
                if *o != op::BLEND {
                    n = 0;
                }
            }
            Tok::Mask { .. } => n = 0,
            Tok::Call { .. } => {}
        }
    }
    false
}

/// Build the font of a case in the canonical container layout.
pub fn build(c: &Case) -> Built {
    build_with(c, &CffLayout::default())
}

/// Build the font of a case with a non-canonical (but legal) container layout: same glyph
/// programs, subroutines and models as `build(c)`, different bytes around them.
pub fn build_with(c: &Case, layout: &CffLayout) -> Built {
    build_full(c, layout, None)
}

/// `build(c)` with the charset of a name-keyed font replaced by `charset` (SIDs of glyphs 1..n; every
/// other byte of the font is the same). Used by C09 for charsets that start in ISOAdobe order.
pub fn build_with_charset(c: &Case, charset: CharsetModel) -> Built {
    build_full(c, &CffLayout::default(), Some(charset))
}

fn build_full(c: &Case, layout: &CffLayout, name_keyed_charset: Option<CharsetModel>) -> Built {
    let mut dec = Dec::new(c.seed);
    let grid = grid_of(c);
    let cff2 = c.kind == Kind::Cff2;
    let nfd = c.nfd.max(1);
    let nglyphs = c.nglyphs.max(1);
    let mut classes: Vec<String> = Vec::new();

    let fd_select: Vec<u8> = (0..nglyphs).map(|g| if nfd == 1 { 0 } else if g < nfd { g as u8 } else { dec.below(nfd) as u8 }).collect();

    // variation data
    let (vstore, tuple) = if c.variable {
        let (v, t) = gen_vstore(&mut dec, c.axes.max(1));
        (Some(v), t)
    } else {
        (None, Vec::new())
    };
    let fd_vsindex: Vec<Option<u16>> = (0..nfd)
        .map(|_| match &vstore {
            Some(v) if dec.chance(2, 3) => Some(dec.below(v.data.len()) as u16),
            _ => None,
        })
        .collect();

    let mut globals = SubrTab::new();
    let mut locals: Vec<SubrTab> = (0..nfd).map(|_| SubrTab::new()).collect();

    let scale = match dec.below(4) {
        0 => 20,
        1 => 150,
        2 => 1200,
        _ => 32767,
    }
    .min(grid.bound);

    // ---- shared fragments
    let mut frags: Vec<Frag> = Vec::new();
    let frag_opts = EncOpts {
        cff2,
        free_number_forms: c.free_forms,
        hints: false,
        width: None,
        regions: 0,
        vsindex: None,
        blend_permille: 0,
        delta_scale: 0,
        inexact: c.variable,
    };
    for _ in 0..c.nfrags {
        let global = dec.chance(1, 2);
        let fd = dec.below(nfd);
        let usable = |i: usize| -> bool {
            let f: &Frag = &frags[i];
            f.depth < 3 && (f.global || (!global && f.fd == fd))
        };
        let (chunks, flat) = gen_frag_chunks(&mut dec, grid, scale, &frags, &usable);
        let mut e = Encoder::new(&frag_opts);
        e.fragment(&mut dec, &chunks, &frags);
        let depth = 1 + chunks
            .iter()
            .map(|ch| match ch {
                t2::Chunk::Frag(i) => frags[*i].depth,
                _ => 0,
            })
            .max()
            .unwrap_or(0);
        let id = if global { globals.push(e.toks, depth, 0) } else { locals[fd].push(e.toks, depth, fd) };
        let f = Frag::new(chunks, flat, &frags, global, fd, (global, id));
        frags.push(f);
    }

    // ---- glyphs
    let mut glyph_toks: Vec<Vec<Tok>> = Vec::new();
    let mut infos: Vec<GlyphInfo> = Vec::new();
    for g in 0..nglyphs {
        let fd = fd_select[g] as usize;
        let mut gd = dec.fork();
        let usable = |i: usize| -> bool { frags[i].global || frags[i].fd == fd };
        let po = PathOpts {
            grid,
            max_contours: if c.variable { 3 } else { 4 },
            max_segs: if c.variable { c.max_segs.min(12) } else { c.max_segs },
            scale,
            long_runs: !c.variable,
        };
        let plan = gen_glyph_plan(&mut gd, &po, &frags, &usable);
        // vsindex: font dict default or an explicit operator
        let (vsindex_op, vsindex) = match &vstore {
            Some(v) => {
                let dflt = fd_vsindex[fd].unwrap_or(0) as usize;
                if gd.chance(1, 3) {
                    let x = gd.below(v.data.len());
                    (Some(x as u16), x)
                } else {
                    (None, dflt)
                }
            }
            None => (None, 0),
        };
        let regions = vstore.as_ref().map(|v| v.data[vsindex].len()).unwrap_or(0);
        let eo = EncOpts {
            cff2,
            free_number_forms: c.free_forms,
            hints: c.hints && gd.chance(3, 4),
            width: if c.width && gd.chance(2, 3) {
                Some(match gd.below(4) {
                    0 => gd.range(-32768, 32767) * ONE,
                    1 => gd.range(-500, 1500) * ONE + gd.below(65536) as i32,
                    _ => gd.range(0, 1200) * ONE,
                })
            } else {
                None
            },
            regions,
            vsindex: vsindex_op,
            blend_permille: if regions > 0 { [0, 150, 500, 1000][gd.below(4)] } else { 0 },
            delta_scale: 12,
            inexact: regions > 0,
        };
        let mut e = Encoder::new(&eo);
        e.glyph(&mut gd, &plan, &frags);
        let mut stats = e.stats.clone();
        let (toks, deltas) = apply_blends(&mut gd, e.toks, &eo, &mut stats);
        let mut model = plan.model(&frags);
        model.deltas = deltas;
        let hv_over_48 = cff2 && has_hv_over_48(&toks);
        // ad-hoc subroutine cuts
        let call_depth = |global: bool, id: usize| -> u32 {
            if global {
                globals.depth[id]
            } else {
                locals[fd].depth[id]
            }
        };
        let mut new_bodies: Vec<(bool, Vec<Tok>, u32)> = Vec::new();
        let base_g = globals.toks.len();
        let base_l = locals[fd].toks.len();
        let (toks, depth) = {
            let mut ng = 0usize;
            let mut nl = 0usize;
            let mut new_subr = |body: Vec<Tok>, d: u32, dd: &mut Dec| -> (bool, usize) {
                let global = dd.chance(1, 2);
                let id = if global {
                    ng += 1;
                    base_g + ng - 1
                } else {
                    nl += 1;
                    base_l + nl - 1
                };
                new_bodies.push((global, body, d));
                (global, id)
            };
            // depth of subroutines created in this very call
            let fo = FactorOpts { cff2, regions, max_depth: 10, call_depth: &call_depth, deep: c.deep };
            if c.cuts > 0 {
                factor(&mut gd, toks, &fo, &mut new_subr, c.cuts)
            } else {
                let d = toks
                    .iter()
                    .map(|t| match t {
                        Tok::Call { global, id, .. } => call_depth(*global, *id),
                        _ => 0,
                    })
                    .max()
                    .unwrap_or(0);
                (toks, d)
            }
        };
        for (global, body, d) in new_bodies {
            if global {
                globals.push(body, d, fd);
            } else {
                locals[fd].push(body, d, fd);
            }
        }
        let nops = count_nums(&toks)
            + globals.toks.iter().map(|t| count_nums(t)).sum::<usize>()
            + locals[fd].toks.iter().map(|t| count_nums(t)).sum::<usize>();
        let fd0_sensitive = cff2 && fd != 0 && stats.blends > 0 && vsindex_op.is_none() && fd_vsindex[fd].unwrap_or(0) != fd_vsindex[0].unwrap_or(0);
        infos.push(GlyphInfo { model, blends: stats.blends, stats, fd, vsindex, nops, depth, hv_over_48, fd0_sensitive });
        glyph_toks.push(toks);
    }

    // does a glyph's call tree reach a local subroutine?
    fn uses_local(toks: &[Tok], globals: &SubrTab, seen: &mut Vec<usize>) -> bool {
        toks.iter().any(|t| match t {
            Tok::Call { global: false, .. } => true,
            Tok::Call { global: true, id, .. } => {
                if seen.contains(id) {
                    false
                } else {
                    seen.push(*id);
                    uses_local(&globals.toks[*id], globals, seen)
                }
            }
            _ => false,
        })
    }
    for (g, gi) in infos.iter_mut().enumerate() {
        if cff2 && gi.fd != 0 && uses_local(&glyph_toks[g], &globals, &mut Vec::new()) {
            gi.fd0_sensitive = true;
        }
    }

    // ---- INDEX layouts (one table may be padded to a bias boundary)
    let padded_table = dec.below(nfd + 1); // 0 = global, i+1 = local of fd i
    let layout_for = |dec: &mut Dec, which: usize, n: usize| -> SubrLayout {
        let size = match pad_size(c.pad) {
            Some(s) if which == padded_table => s.max(n),
            _ => n + if dec.chance(1, 4) { dec.below(6) } else { 0 },
        };
        SubrLayout::new(dec, n, size)
    };
    let glayout = layout_for(&mut dec, 0, globals.toks.len());
    let llayouts: Vec<SubrLayout> = (0..nfd).map(|i| layout_for(&mut dec, i + 1, locals[i].toks.len())).collect();
    for (l, n) in std::iter::once((&glayout, globals.toks.len())).chain(llayouts.iter().zip(locals.iter().map(|l| l.toks.len()))) {
        if n > 0 {
            classes.push(format!("bias:{}", subr_bias(l.size)));
            if l.size == 1239 || l.size == 1240 || l.size == 33899 || l.size == 33900 {
                classes.push(format!("index-size:{}", l.size));
            }
        }
    }

    // ---- serialise
    let filler: Vec<u8> = if cff2 { Vec::new() } else { vec![op::RETURN as u8] };
    let ser = |toks: &[Tok], fd: usize| -> Vec<u8> {
        serialize(toks, &|global, id| if global { glayout.number(id) } else { llayouts[fd].number(id) })
    };
    let gbodies: Vec<Vec<u8>> = globals.toks.iter().zip(&globals.ctx_fd).map(|(t, fd)| ser(t, *fd)).collect();
    let global_subrs = glayout.entries(&gbodies, &filler);
    let mut privates: Vec<PrivateModel> = Vec::new();
    for i in 0..nfd {
        let bodies: Vec<Vec<u8>> = locals[i].toks.iter().map(|t| ser(t, i)).collect();
        let entries = llayouts[i].entries(&bodies, &filler);
        privates.push(PrivateModel {
            default_width_x: if dec.chance(1, 2) { Some(dec.range(0, 1000)) } else { None },
            nominal_width_x: if dec.chance(1, 2) { Some(dec.range(0, 1000)) } else { None },
            with_hint_entries: dec.chance(1, 3),
            subrs: if entries.is_empty() && dec.chance(1, 2) { None } else { Some(entries) },
            subrs_gap: if dec.chance(1, 4) { dec.below(9) } else { 0 },
            vsindex: fd_vsindex[i],
        });
    }
    let charstrings: Vec<Vec<u8>> = glyph_toks.iter().enumerate().map(|(g, t)| ser(t, fd_select[g] as usize)).collect();

    let table = match c.kind {
        Kind::NameKeyed => build_cff_with(&CffModel {
            name: b"VerifC18".to_vec(),
            strings: Vec::new(),
            global_subrs,
            charstrings,
            charset: {
                let drawn = match dec.below(3) {
                    0 => CharsetModel::IsoAdobe,
                    1 => CharsetModel::Format0((1..nglyphs as u16).collect()),
                    _ => CharsetModel::Format1((1..nglyphs as u16).collect()),
                };
                name_keyed_charset.unwrap_or(drawn)
            },
            kind: CffKind::NameKeyed { private: privates.remove(0) },
            header_extra: c.header_extra,
            min_off_size: c.off_size,
            block_order: c.block_order,
            font_bbox: if dec.chance(1, 2) { Some([-1000, -1000, 3000, 3000]) } else { None },
        }, layout),
        Kind::Cid => build_cff_with(&CffModel {
            name: b"VerifC18-CID".to_vec(),
            strings: Vec::new(),
            global_subrs,
            charstrings,
            charset: CharsetModel::Format2((1..nglyphs as u16).collect()),
            kind: CffKind::Cid { fds: privates, fd_select: fd_select.clone(), fd_select_format: if dec.chance(1, 2) { 0 } else { 3 } },
            header_extra: c.header_extra,
            min_off_size: c.off_size,
            block_order: c.block_order,
            font_bbox: None,
        }, layout),
        Kind::Cff2 => build_cff2_with(&Cff2Model {
            global_subrs,
            charstrings,
            fds: privates,
            fd_select: if nfd > 1 || dec.chance(1, 4) { Some((if dec.chance(1, 2) { 0 } else { 3 }, fd_select.clone())) } else { None },
            vstore: vstore.clone(),
            header_extra: c.header_extra,
            min_off_size: c.off_size,
            block_order: c.block_order,
            font_matrix: dec.chance(1, 3),
        }, layout),
    };
    if !layout.is_canonical() {
        classes.push("layout:non-canonical".into());
        let mut add = |c: bool, n: &str| {
            if c {
                classes.push(format!("layout:{}", n));
            }
        };
        add(layout.header_off_size != 0 && !cff2, "header-offsize");
        add(layout.index_off_size.iter().any(|v| *v != 0), "index-offsize");
        add(layout.gaps.iter().any(|v| *v != 0), "gaps");
        add(layout.detach_local_subrs, "detached-local-subrs");
        add(layout.top_dict_order != 0 || layout.private_dict_order != 0, "dict-operator-order");
        add(layout.dict_int_form != 0, "dict-int-forms");
        add(layout.dict_reals, "dict-reals");
        add(layout.top_dict_extra && !cff2, "top-dict-extra");
        add(layout.font_dict_extra && c.kind == Kind::Cid, "font-dict-extra");
        add(layout.vstore_trailing != 0 && c.variable, "vstore-trailing");
        add(layout.ivs_gap != 0 && c.variable, "ivs-gap");
        add(layout.trailing != 0, "trailing-bytes");
    }
    if c.header_extra > 0 {
        classes.push("layout:header-size>min".into());
    }
    let dump = if std::env::var("VERIF_C18_DUMP").is_ok() {
        let show = |toks: &[Tok]| -> String {
            toks.iter()
                .map(|t| match t {
                    Tok::Num { v, var, .. } => format!("{}{}", *v as f64 / 65536.0, if var.is_some() { "~" } else { "" }),
                    Tok::Op(o) => format!("op{}", if *o >= 0x0c00 { format!("12.{}", o & 0xff) } else { o.to_string() }),
                    Tok::Mask { cntr, bytes } => format!("{}[{}]", if *cntr { "cntrmask" } else { "hintmask" }, hex::encode(bytes)),
                    Tok::Call { global, id, .. } => format!("call{}#{}", if *global { "G" } else { "L" }, id),
                })
                .collect::<Vec<_>>()
                .join(" ")
        };
        let mut d: Vec<String> = glyph_toks.iter().enumerate().map(|(g, t)| format!("glyph {} fd {}: {}", g, fd_select[g], show(t))).collect();
        for (i, t) in globals.toks.iter().enumerate() {
            d.push(format!("gsubr #{} at {}: {}", i, glayout.pos[i], show(t)));
        }
        for (f, l) in locals.iter().enumerate() {
            for (i, t) in l.toks.iter().enumerate() {
                d.push(format!("lsubr fd {} #{} at {}: {}", f, i, llayouts[f].pos[i], show(t)));
            }
        }
        d.push(format!("vstore {:?} tuple {:?} fd_vsindex {:?}", vstore, tuple, fd_vsindex));
        d
    } else {
        Vec::new()
    };
    Built { kind: c.kind, table, glyphs: infos, vstore, tuple, classes, max_abs: grid.bound as f64, dump }
}

// ------------------------------------------------------------------------------------------
// running allsorts

enum Parsed<'a> {
    Cff(CFF<'a>),
    Cff2(CFF2<'a>),
}

fn parse_table<'a>(kind_cff2: bool, table: &'a [u8], tag: &str) -> Result<Parsed<'a>, Fail> {
    if kind_cff2 {
        ReadScope::new(table)
            .read::<CFF2<'_>>()
            .map(Parsed::Cff2)
            .map_err(|e| Fail::new(format!("C18:{}:table-rejected", tag), format!("CFF2::read failed on a well-formed table: {:?}", e)))
    } else {
        ReadScope::new(table)
            .read::<CFF<'_>>()
            .map(Parsed::Cff)
            .map_err(|e| Fail::new(format!("C18:{}:table-rejected", tag), format!("CFF::read failed on a well-formed table: {:?}", e)))
    }
}

fn visit(p: &mut Parsed<'_>, gid: u16, tuple: Option<&OwnedTuple>) -> (Result<(), String>, Sink) {
    let mut sink = Sink::default();
    let r = match p {
        Parsed::Cff(c) => c.visit(gid, &mut sink).map_err(|e| format!("{:?}", e)),
        Parsed::Cff2(c) => CFF2Outlines { table: c, tuple }.visit(gid, &mut sink).map_err(|e| format!("{:?}", e)),
    };
    (r, sink)
}

fn owned_tuple(raw: &[i16]) -> Result<OwnedTuple, Fail> {
    let axes: Vec<AxisModel> = raw
        .iter()
        .enumerate()
        .map(|(i, _)| AxisModel { tag: [b'A', b'X', b'0', b'0' + i as u8], min: -ONE, default: 0, max: ONE, flags: 0, name_id: 256 + i as u16 })
        .collect();
    let bytes = fvar_table(&axes, &[], 0);
    // the fvar table is only the vehicle allsorts requires for constructing an OwnedTuple
    let fvar = ReadScope::new(&bytes).read::<FvarTable<'_>>().map_err(|e| Fail::new("C18:harness-fvar", format!("{:?}", e)))?;
    let vals: Vec<F2Dot14> = raw.iter().map(|v| F2Dot14::from_raw(*v)).collect();
    fvar.owned_tuple(&vals).ok_or_else(|| Fail::new("C18:harness-fvar", "owned_tuple refused".to_string()))
}

fn render(cmds: &[Cmd]) -> String {
    let mut s = String::new();
    for c in cmds.iter().take(40) {
        match c {
            Cmd::Move(x, y) => s.push_str(&format!("M {} {} ", x, y)),
            Cmd::Line(x, y) => s.push_str(&format!("L {} {} ", x, y)),
            Cmd::Curve(a, b, c2, d, e, f) => s.push_str(&format!("C {} {} {} {} {} {} ", a, b, c2, d, e, f)),
            Cmd::Close => s.push_str("Z "),
        }
    }
    if cmds.len() > 40 {
        s.push_str("…");
    }
    s
}

fn max_coord(cmds: &[Cmd]) -> f64 {
    let mut m = 0f64;
    for c in cmds {
        match c {
            Cmd::Move(x, y) | Cmd::Line(x, y) => m = m.max(x.abs()).max(y.abs()),
            Cmd::Curve(a, b, c2, d, e, f) => {
                for v in [a, b, c2, d, e, f] {
                    m = m.max(v.abs());
                }
            }
            Cmd::Close => {}
        }
    }
    m
}

fn same_structure(a: &[Cmd], b: &[Cmd]) -> bool {
    a.len() == b.len() && a.iter().zip(b).all(|(x, y)| std::mem::discriminant(x) == std::mem::discriminant(y))
}

/// Failure bookkeeping: an unattributed failure is returned at once; failures attributed to a
/// specific known defect are remembered and returned at the end, so that they never mask a
/// different violation in the same font.
#[derive(Default)]
struct Deferred(Option<Fail>);

impl Deferred {
    fn defer(&mut self, f: Fail) {
        if self.0.is_none() {
            self.0 = Some(f);
        }
    }
    fn finish(self) -> CaseResult {
        match self.0 {
            Some(f) => Err(f),
            None => Ok(()),
        }
    }
}

/// Compare what allsorts delivered for one glyph with the expected commands.
#[allow(clippy::too_many_arguments)]
fn judge(
    tag: &str,
    what: &str,
    res: &Result<(), String>,
    sink: &Sink,
    want: &[Cmd],
    tol: f64,
    deferred: &mut Deferred,
    defect_alt: Option<&(Result<Vec<Cmd>, String>, bool)>,
) -> CaseResult {
    // Defect model for the known CFF2 finding (local subroutines / default vsindex taken from
    // font dict 0): `defect_alt` is what the reference interpreter delivers with that deviation
    // switched on, plus whether the glyph is structurally in the finding's input class (it
    // belongs to another font dict and executes local subroutines or blends under a different
    // default vsindex). A failure is attributed to the finding if the deviating reference
    // itself departs from the specified result (or gives up) — allsorts then ran a foreign
    // program and what comes out is arbitrary (which error is detected where differs between
    // interpreters: f32 vs f64, bounding box, operand validation, width heuristics) — or if the
    // glyph is structurally in the class and allsorts gave up.
    let attributed = |got_err: Option<&String>| -> bool {
        match defect_alt {
            Some((Ok(alt), structural)) => diff_commands(alt, want, tol).is_some() || (*structural && got_err.is_some()),
            Some((Err(_), _)) => true,
            None => false,
        }
    };
    let exact = |alt: &Vec<Cmd>| diff_commands(&sink.cmds, alt, tol).is_none() || (alt.is_empty() && sink.cmds == [Cmd::Close]);
    if let Err(e) = res {
        if attributed(Some(e)) {
            deferred.defer(Fail::new(
                "C18:cff2-local-subrs-from-fd0",
                format!("{}: allsorts fails with {} where local subroutines / default vsindex are taken from font dict 0 instead of the glyph's font dict; expected {}", what, e, render(want)),
            ));
            return Ok(());
        }
        return Err(Fail::new(format!("C18:{}:visit-error", tag), format!("{}: visit failed with {} on a well-formed charstring; expected {}", what, e, render(want))));
    }
    if sink.quads > 0 {
        return Err(Fail::new(format!("C18:{}:quadratic", tag), format!("{}: quadratic_curve_to called for a CFF outline", what)));
    }
    if let Some(d) = diff_commands(&sink.cmds, want, tol) {
        if tag == "cff2" && want.is_empty() && sink.cmds == [Cmd::Close] {
            deferred.defer(Fail::new(
                "C18:cff2-close-without-contour",
                format!("{}: a CFF2 charstring without any moveto delivers a lone close() (no contour was opened)", what),
            ));
            return Ok(());
        }
        if attributed(None) {
            deferred.defer(Fail::new(
                "C18:cff2-local-subrs-from-fd0",
                format!(
                    "{}: allsorts delivers {} what an interpreter taking local subroutines / default vsindex from font dict 0 delivers: {} — expected {}",
                    what,
                    match defect_alt {
                        Some((Ok(alt), _)) if exact(alt) => "exactly",
                        _ => "a different result of the same foreign program than",
                    },
                    render(&sink.cmds),
                    render(want)
                ),
            ));
            return Ok(());
        }
        let kind = if same_structure(&sink.cmds, want) { "path-coordinates" } else { "path-structure" };
        return Err(Fail::new(
            format!("C18:{}:{}", tag, kind),
            format!("{}: {} (tolerance {:.4}); got {} — expected {}", what, d, tol, render(&sink.cmds), render(want)),
        ));
    }
    Ok(())
}

fn scalars_for(vs: &VarStoreModel, vsindex: usize, tuple: &[i16]) -> Vec<f64> {
    let coords: Vec<f64> = tuple.iter().map(|v| *v as f64 / 16384.0).collect();
    vs.data[vsindex]
        .iter()
        .map(|r| {
            let reg: Vec<(f64, f64, f64)> =
                vs.regions[*r as usize].iter().map(|t| (t[0] as f64 / 16384.0, t[1] as f64 / 16384.0, t[2] as f64 / 16384.0)).collect();
            region_scalar(&reg, &coords)
        })
        .collect()
}

/// Visit with a panic net for the one known panic class (CFF2 hv/vhcurveto with more than 48
/// operands); any other panic propagates to the engine unchanged.
fn visit_guarded(p: &mut Parsed<'_>, gid: u16, tuple: Option<&OwnedTuple>, known_panic_class: bool) -> Result<(Result<(), String>, Sink), ()> {
    if !known_panic_class {
        return Ok(visit(p, gid, tuple));
    }
    match catch_unwind(AssertUnwindSafe(|| visit(p, gid, tuple))) {
        Ok(r) => Ok(r),
        Err(payload) => {
            let msg = payload
                .downcast_ref::<String>()
                .cloned()
                .or_else(|| payload.downcast_ref::<&str>().map(|s| s.to_string()))
                .unwrap_or_default();
            if msg.contains("out of range for slice of length 48") || msg.contains("range end index") {
                Err(())
            } else {
                resume_unwind(payload)
            }
        }
    }
}

pub fn check_built(b: &Built, via_sfnt: bool, rec: &mut Rec) -> CaseResult {
    let tag = b.kind.tag();
    let cff2 = b.kind == Kind::Cff2;
    rec.artefact("table", &b.table);
    rec.hash_bytes(&b.table);

    // ---- self-check with my own reader + interpreter (a disagreement is a harness bug)
    let mine = if cff2 { T2Font::parse_cff2(&b.table) } else { T2Font::parse_cff(&b.table) };
    let mine = match mine {
        Ok(m) => m,
        Err(e) => panic!("harness self-check: refmodel cannot parse the generated {} table: {}", tag, e),
    };
    let coords: Vec<f64> = b.tuple.iter().map(|v| *v as f64 / 16384.0).collect();
    let mut wants: Vec<Vec<Cmd>> = Vec::new();
    for (g, gi) in b.glyphs.iter().enumerate() {
        let sc = b.vstore.as_ref().map(|v| scalars_for(v, gi.vsindex, &b.tuple));
        let want = gi.model.commands(sc.as_deref());
        let got = mine.outline(g, if b.vstore.is_some() { Some(&coords) } else { None }, &Deviations::default());
        match got {
            Ok(cmds) => {
                if let Some(d) = diff_commands(&cmds, &want, 1e-6) {
                    panic!("harness self-check: glyph {} of generated {} font: my interpreter disagrees with the model: {}", g, tag, d);
                }
            }
            Err(e) => panic!(
                "harness self-check: glyph {} of generated {} font: my interpreter fails: {}; charstring {}; gsubrs {:?}; lsubrs {:?}",
                g,
                tag,
                e,
                hex::encode(mine.charstrings[g]),
                mine.gsubrs.iter().map(|s| hex::encode(s)).collect::<Vec<_>>(),
                mine.fds[mine.fd_of(g)].lsubrs.iter().map(|s| hex::encode(s)).collect::<Vec<_>>()
            ),
        }
        wants.push(want);
    }

    // ---- allsorts
    let otf;
    let table_cow;
    let table: &[u8] = if via_sfnt {
        otf = build_otf(b.table.clone(), cff2, b.glyphs.len() as u16, &[]);
        let fd = ReadScope::new(&otf)
            .read::<allsorts::font_data::FontData<'_>>()
            .map_err(|e| Fail::new(format!("C18:{}:sfnt-rejected", tag), format!("{:?}", e)))?;
        let prov = fd.table_provider(0).map_err(|e| Fail::new(format!("C18:{}:sfnt-rejected", tag), format!("{:?}", e)))?;
        use allsorts::tables::FontTableProvider;
        table_cow = prov
            .read_table_data(if cff2 { allsorts::tag::CFF2 } else { allsorts::tag::CFF })
            .map_err(|e| Fail::new(format!("C18:{}:sfnt-rejected", tag), format!("{:?}", e)))?
            .into_owned();
        if table_cow != b.table {
            return Err(Fail::new(format!("C18:{}:sfnt-table-differs", tag), "table provider returned different CFF bytes".to_string()));
        }
        &table_cow
    } else {
        &b.table
    };
    let mut parsed = parse_table(cff2, table, tag)?;
    let tuple = if b.vstore.is_some() { Some(owned_tuple(&b.tuple)?) } else { None };
    let mut deferred = Deferred::default();
    for (g, gi) in b.glyphs.iter().enumerate() {
        let want = &wants[g];
        if max_coord(want) > 32000.0 {
            rec.class("skipped:coordinates-beyond-i16");
            continue;
        }
        // rounding bound: f32 accumulation is exact on the grids used for static glyphs; for
        // blended glyphs every operand contributes at most a few ulps at the magnitude reached
        let tol = if gi.blends > 0 { 1e-3 + gi.nops as f64 * (max_coord(want) + 64.0) / 4_194_304.0 } else { 1e-3 };
        let what = format!("glyph {} (fd {})", g, gi.fd);
        // defect model for the known CFF2 finding
        let alt = if cff2 && gi.fd != 0 {
            Some((mine.outline(g, if b.vstore.is_some() { Some(&coords) } else { None }, &Deviations { cff2_fd0: true }), gi.fd0_sensitive))
        } else {
            None
        };
        // visit with the tuple (variable fonts) and, where no blend is used, without
        let mut passes: Vec<Option<&OwnedTuple>> = Vec::new();
        if let Some(t) = &tuple {
            passes.push(Some(t));
        }
        if gi.blends == 0 {
            passes.push(None);
        }
        // glyphs on which the known font-dict-0 deviation changes the result execute foreign
        // subroutines in allsorts; a panic there is part of that finding
        let fd0_class = match &alt {
            Some((Ok(a), structural)) => *structural || diff_commands(a, want, tol).is_some(),
            Some((Err(_), _)) => true,
            None => false,
        };
        for t in passes {
            if fd0_class {
                match catch_unwind(AssertUnwindSafe(|| visit(&mut parsed, g as u16, t))) {
                    Ok((res, sink)) => judge(tag, &what, &res, &sink, want, tol, &mut deferred, alt.as_ref())?,
                    Err(_) => deferred.defer(Fail::new(
                        "C18:cff2-local-subrs-from-fd0",
                        format!("{}: allsorts panics while executing the subroutines of font dict 0 for a glyph of another font dict", what),
                    )),
                }
                continue;
            }
            match visit_guarded(&mut parsed, g as u16, t, gi.hv_over_48) {
                Ok((res, sink)) => judge(tag, &what, &res, &sink, want, tol, &mut deferred, alt.as_ref())?,
                Err(()) => deferred.defer(Fail::new(
                    "C18:cff2-hvcurveto-over-48-operands-panics",
                    format!("{}: CFF2 hvcurveto/vhcurveto with more than 48 operands panics (temp buffer sized for CFF)", what),
                )),
            }
        }
    }

    // ---- classification (each class once per case)
    let mut curves = 0;
    let mut calls = 0;
    let mut masks = 0;
    let mut cl: std::collections::BTreeSet<String> = std::collections::BTreeSet::new();
    let mut add = |cond: bool, c: &str| {
        if cond {
            cl.insert(c.to_string());
        }
    };
    for gi in &b.glyphs {
        curves += gi.model.ncurves();
        calls += gi.depth.min(1) as usize + gi.stats.calls;
        masks += gi.stats.masks;
        for f in &gi.stats.forms {
            add(true, &format!("form:{}", f));
        }
        for f in &gi.stats.num_forms {
            add(true, &format!("num:{}", f));
        }
        add(gi.stats.width, "width");
        add(gi.stats.implicit_vstem, "implicit-vstem-before-mask");
        add(gi.stats.masks > 0, "hintmask/cntrmask");
        add(gi.stats.stems > 8, "stems>8 (mask bytes>1)");
        add(gi.depth > 0, &format!("nesting:{:02}", gi.depth));
        add(gi.fd != 0, "fd!=0");
        add(gi.fd != 0 && gi.depth > 0, "fd!=0 with subr calls");
        add(gi.blends > 0, "blend");
        add(gi.model.contours.is_empty(), "empty-glyph");
        add(gi.stats.max_args >= 48, "args>=48");
        add(gi.stats.max_args > 48, "args>48 (cff2)");
        add(gi.hv_over_48, "hv/vhcurveto args>48 (cff2)");
    }
    for c in &b.classes {
        add(true, c);
    }
    add(via_sfnt, "via-sfnt");
    // the engine keeps at most 64 labels per case: forms first
    for c in cl.iter().filter(|c| !c.starts_with("num:")).chain(cl.iter().filter(|c| c.starts_with("num:"))) {
        rec.class(c);
    }
    rec.set_nontrivial(curves >= 1 && (calls >= 1 || masks >= 1));
    rec.evaluations(b.glyphs.len() as u64);
    deferred.finish()
}

/// A case of the random sections: the font case plus the seed of a non-canonical container
/// layout (`None`: canonical layout).
pub type LaidOutCase = (Case, Option<u64>);

pub fn layout_of(seed: Option<u64>) -> CffLayout {
    match seed {
        Some(s) => CffLayout::draw(&mut Dec::new(s)),
        None => CffLayout::default(),
    }
}

pub fn check_case(cl: &LaidOutCase, rec: &mut Rec) -> CaseResult {
    let (c, lseed) = cl;
    let layout = layout_of(*lseed);
    let b = build_with(c, &layout);
    for l in &b.dump {
        eprintln!("{}", l);
    }
    if !b.dump.is_empty() {
        eprintln!("layout {:?}", layout);
    }
    rec.sample(|| {
        format!(
            "{:?} seed {:#x}: {} glyphs, {} table bytes; glyph0 {} contours/{} segs, forms {:?}",
            c.kind,
            c.seed,
            b.glyphs.len(),
            b.table.len(),
            b.glyphs[0].model.contours.len(),
            b.glyphs[0].model.nsegs(),
            b.glyphs[0].stats.forms
        )
    });
    check_built(&b, c.via_sfnt, rec)
}

// ------------------------------------------------------------------------------------------
// seac: endchar with four (five with width) operands composes two StandardEncoding glyphs

#[derive(Clone, Debug)]
pub struct SeacCase {
    pub seed: u64,
    pub hints: bool,
    /// the component charstrings carry their own width operand
    pub component_width: bool,
    pub seac_width: bool,
    /// 0: ISOAdobe predefined charset (glyph id = SID), 1: format 0, 2: format 1
    pub charset: u8,
    pub free_forms: bool,
    /// number of subroutine cuts per component charstring (0: the components call no subroutine);
    /// base and accent share one global and one local Subr INDEX
    pub subr_cuts: u8,
}

fn seac_strategy() -> impl Strategy<Value = SeacCase> {
    (any::<u64>(), any::<bool>(), any::<bool>(), any::<bool>(), 0u8..3, any::<bool>(), prop_oneof![2 => Just(0u8), 3 => 1u8..4]).prop_map(
        |(seed, hints, component_width, seac_width, charset, free_forms, subr_cuts)| SeacCase { seed, hints, component_width, seac_width, charset, free_forms, subr_cuts },
    )
}

fn shift(cmds: &[Cmd], dx: f64, dy: f64) -> Vec<Cmd> {
    cmds.iter()
        .map(|c| match c {
            Cmd::Move(x, y) => Cmd::Move(x + dx, y + dy),
            Cmd::Line(x, y) => Cmd::Line(x + dx, y + dy),
            Cmd::Curve(a, b, c2, d, e, f) => Cmd::Curve(a + dx, b + dy, c2 + dx, d + dy, e + dx, f + dy),
            Cmd::Close => Cmd::Close,
        })
        .collect()
}

pub fn check_seac(c: &SeacCase, rec: &mut Rec) -> CaseResult {
    use crate::refmodel::type2::standard_encoding_sid;
    let mut dec = Dec::new(c.seed);
    // StandardEncoding codes that name a glyph
    let codes: Vec<u8> = (0u16..256).map(|v| v as u8).filter(|v| standard_encoding_sid(*v) != 0).collect();
    let bcode = codes[dec.below(codes.len())];
    let mut acode = codes[dec.below(codes.len())];
    if acode == bcode {
        acode = if bcode == 65 { 194 } else { 65 };
    }
    let (bsid, asid) = (standard_encoding_sid(bcode), standard_encoding_sid(acode));
    let grid = Grid::SMALL;
    let po = PathOpts { grid, max_contours: 2, max_segs: 6, scale: 300, long_runs: false };
    // subroutines the components are factored into (shared by base and accent)
    let mut gsub: Vec<Vec<Tok>> = Vec::new();
    let mut lsub: Vec<Vec<Tok>> = Vec::new();
    let mut comp = |dec: &mut Dec| -> (Vec<Tok>, PathModel, EncStats) {
        let plan = gen_glyph_plan(dec, &po, &[], &|_| false);
        let eo = EncOpts {
            cff2: false,
            free_number_forms: c.free_forms,
            hints: c.hints,
            width: if c.component_width { Some(dec.range(1, 1000) * ONE) } else { None },
            regions: 0,
            vsindex: None,
            blend_permille: 0,
            delta_scale: 0,
            inexact: false,
        };
        let mut e = Encoder::new(&eo);
        e.glyph(dec, &plan, &[]);
        let toks = if c.subr_cuts > 0 {
            // ids are allocated behind the subroutines that exist already; a new body only calls bodies
            // created during this very call, whose depth `factor` tracks by itself
            let (bg, bl) = (gsub.len(), lsub.len());
            let mut new_bodies: Vec<(bool, Vec<Tok>)> = Vec::new();
            let (mut ng, mut nl) = (0usize, 0usize);
            let call_depth = |_: bool, _: usize| -> u32 { 0 };
            let fo = FactorOpts { cff2: false, regions: 0, max_depth: 8, call_depth: &call_depth, deep: false };
            let mut new_subr = |body: Vec<Tok>, _d: u32, dd: &mut Dec| -> (bool, usize) {
                let global = dd.chance(1, 2);
                let id = if global {
                    ng += 1;
                    bg + ng - 1
                } else {
                    nl += 1;
                    bl + nl - 1
                };
                new_bodies.push((global, body));
                (global, id)
            };
            let (toks, _) = factor(dec, e.toks.clone(), &fo, &mut new_subr, c.subr_cuts as usize);
            for (global, body) in new_bodies {
                if global {
                    gsub.push(body);
                } else {
                    lsub.push(body);
                }
            }
            toks
        } else {
            e.toks.clone()
        };
        (toks, plan.model(&[]), e.stats)
    };
    let (btoks, bmodel, bstats) = comp(&mut dec);
    let (atoks, amodel, astats) = comp(&mut dec);
    let (gl_l, lo_l) = (SubrLayout::identity(gsub.len()), SubrLayout::identity(lsub.len()));
    let ser = |toks: &[Tok]| -> Vec<u8> { serialize(toks, &|global, id| if global { gl_l.number(id) } else { lo_l.number(id) }) };
    let (bcs, acs) = (ser(&btoks), ser(&atoks));
    let accent_calls = count_calls(&atoks);
    let base_calls = count_calls(&btoks);
    let adx = dec.range(-500, 500);
    let ady = dec.range(-500, 500);
    let mut toks = Vec::new();
    if c.seac_width {
        toks.push(num(dec.range(1, 1000)));
    }
    toks.extend([num(adx), num(ady), num(bcode as i32), num(acode as i32), Tok::Op(op::ENDCHAR)]);
    let seac_cs = serialize(&toks, &|_, _| 0);
    let endchar = vec![op::ENDCHAR as u8];
    // glyph ids
    let (charstrings, charset, seac_gid) = if c.charset == 0 {
        let mut cs = vec![endchar.clone(); 229];
        cs[bsid as usize] = bcs;
        cs[asid as usize] = acs;
        // the composite takes a slot that is not one of the components
        let g = (1..229u16).find(|g| *g != bsid && *g != asid).unwrap();
        cs[g as usize] = seac_cs;
        (cs, CharsetModel::IsoAdobe, g)
    } else {
        let cs = vec![endchar.clone(), acs, seac_cs, bcs];
        let sids = vec![asid, 200, bsid];
        (cs, if c.charset == 1 { CharsetModel::Format0(sids) } else { CharsetModel::Format1(sids) }, 2u16)
    };
    let mut m = CffModel::simple(charstrings);
    m.charset = charset;
    let filler = vec![op::RETURN as u8];
    m.global_subrs = gl_l.entries(&gsub.iter().map(|t| ser(t)).collect::<Vec<_>>(), &filler);
    let local_entries = lo_l.entries(&lsub.iter().map(|t| ser(t)).collect::<Vec<_>>(), &filler);
    m.kind = CffKind::NameKeyed {
        private: PrivateModel {
            nominal_width_x: Some(500),
            default_width_x: Some(400),
            subrs: if local_entries.is_empty() { None } else { Some(local_entries) },
            ..Default::default()
        },
    };
    let table = build_cff(&m);
    rec.artefact("table", &table);
    rec.hash_bytes(&table);
    let mut want = bmodel.commands(None);
    want.extend(shift(&amodel.commands(None), adx as f64, ady as f64));
    let what = format!("seac glyph {} (base code {}, accent code {}, accent origin {} {})", seac_gid, bcode, acode, adx, ady);
    match T2Font::parse_cff(&table).and_then(|f| f.outline(seac_gid as usize, None, &Deviations::default())) {
        Ok(cmds) => {
            if let Some(d) = diff_commands(&cmds, &want, 1e-6) {
                panic!("harness self-check ({}): my interpreter disagrees with the model: {}", what, d);
            }
        }
        Err(e) => panic!("harness self-check ({}): my interpreter fails: {}", what, e),
    }
    let mut parsed = parse_table(false, &table, "cff")?;
    rec.class("seac");
    rec.class_if(c.component_width, "seac:components-with-width");
    rec.class_if(c.seac_width, "seac:width");
    rec.class_if(accent_calls > 0, "seac:accent-calls-subroutine");
    rec.class_if(base_calls > 0, "seac:base-calls-subroutine");
    rec.class_if(bstats.masks > 0 && astats.masks > 0, "seac:both-components-masked");
    rec.class_if(bstats.stems > 0 && astats.masks > 0, "seac:accent-masked-after-hinted-base");
    rec.class_if(c.charset == 0 && (bcode > 228 || acode > 228), "seac:isoadobe-code>228");
    rec.set_nontrivial(bmodel.ncurves() + amodel.ncurves() > 0);
    let visited = catch_unwind(AssertUnwindSafe(|| visit(&mut parsed, seac_gid, None)));
    let ok = match &visited {
        Ok((res, sink)) => res.is_ok() && sink.quads == 0 && diff_commands(&sink.cmds, &want, 1e-3).is_none(),
        Err(_) => false,
    };
    if !ok {
        // Attribute to the specific seac defects by input class, in the order in which allsorts
        // reaches them; anything outside these classes is judged (or re-raised) below.
        let got = match &visited {
            Ok((res, sink)) => format!("{:?}, delivered {}", res, render(&sink.cmds)),
            Err(_) => "panic".to_string(),
        };
        let detail = format!("{}: {} — expected {}", what, got, render(&want));
        if c.charset == 0 && (bcode > 228 || acode > 228) {
            return Err(Fail::new("C18:seac-isoadobe-code-above-228", format!("StandardEncoding code above 228 in a font with the ISOAdobe charset; {}", detail)));
        }
        if !c.seac_width && visited.is_err() {
            return Err(Fail::new("C18:seac-without-width-panics", format!("four-operand endchar (no width): {}", detail)));
        }
        if c.component_width {
            return Err(Fail::new("C18:seac-component-width", format!("components that carry their own width operand; {}", detail)));
        }
        if bstats.stems > 0 && astats.masks > 0 {
            return Err(Fail::new("C18:seac-stem-count-not-reset", format!("accent with hintmask after a hinted base; {}", detail)));
        }
    }
    let (res, sink) = match visited {
        Ok(v) => v,
        Err(payload) => resume_unwind(payload),
    };
    let mut d = Deferred::default();
    judge("cff-seac", &what, &res, &sink, &want, 1e-3, &mut d, None)?;
    d.finish()
}

// ------------------------------------------------------------------------------------------
// libFuzzer input decoding (target c18_type2)

/// What one fuzz input decodes to: a case of one of the three random font sections
/// (`cff-name-keyed`, `cff-cid-keyed`, `cff2`, with the optional container-layout seed) or a
/// case of the `cff-seac` section. The first input byte selects the section.
#[derive(Clone, Debug)]
pub enum FuzzCase {
    Font(LaidOutCase),
    Seac(SeacCase),
}

/// `prop_oneof![w0 => lo0..=hi0, w1 => lo1..=hi1, ...]` over integer ranges: one selector byte
/// picks the alternative with (about) the strategy's weights, a second value picks inside it
/// (no second value is consumed for a `Just`). Exhausted input gives the first alternative's
/// lowest value, which is the smallest one throughout.
fn u_alts(u: &mut arbitrary::Unstructured<'_>, alts: &[(u32, u32, u32)]) -> arbitrary::Result<u32> {
    let total: u32 = alts.iter().map(|a| a.0).sum();
    let mut k = u.int_in_range(0..=total - 1)?;
    for (w, lo, hi) in alts {
        if k < *w {
            return if lo == hi { Ok(*lo) } else { u.int_in_range(*lo..=*hi) };
        }
        k -= *w;
    }
    unreachable!()
}

/// `proptest::bool::weighted(num/den)`; exhausted input gives `false`.
fn u_chance(u: &mut arbitrary::Unstructured<'_>, num: u32, den: u32) -> arbitrary::Result<bool> {
    Ok(u.int_in_range(0..=den - 1)? >= den - num)
}

fn u_font_case(u: &mut arbitrary::Unstructured<'_>, kind: Kind) -> arbitrary::Result<LaidOutCase> {
    // same alternatives, ranges and post-processing as `case_strategy(kind)`; the fields that
    // shape the glyph programs come first so that short inputs already reach them
    let seed: u64 = u.arbitrary()?;
    let nglyphs = u_alts(u, &[(3, 1, 3), (2, 4, 8)])? as usize;
    let grid = u_alts(u, &[(3, 0, 0), (2, 1, 1), (1, 2, 2), (2, 3, 3)])? as u8;
    let hints = u_chance(u, 6, 10)?;
    let width = u_chance(u, 5, 10)?;
    let free_forms = u_chance(u, 6, 10)?;
    let nfrags = u_alts(u, &[(2, 0, 0), (3, 1, 5)])? as usize;
    let cuts = u_alts(u, &[(2, 0, 0), (3, 1, 4)])? as usize;
    let deep = u_chance(u, 2, 25)?;
    let max_segs = u_alts(u, &[(3, 1, 8), (2, 9, 30)])? as usize;
    let pad = u_alts(u, &[(80, 0, 0), (16, 1, 4), (1, 5, 8)])? as u8;
    let nfd = u.int_in_range(1usize..=3)?;
    let variable = u_chance(u, 6, 10)?;
    let axes = u.int_in_range(1usize..=3)?;
    let block_order: u8 = u.arbitrary()?;
    let off_size = u_alts(u, &[(3, 1, 1), (1, 2, 4)])? as u8;
    let header_extra = u_alts(u, &[(3, 0, 0), (1, 1, 3)])? as u8;
    let via_sfnt = u_chance(u, 1, 10)?;
    // proptest::option::weighted(0.5, any::<u64>())
    let layout_seed = if u_chance(u, 1, 2)? { Some(u.arbitrary::<u64>()?) } else { None };
    let nfd = match kind {
        Kind::NameKeyed => 1,
        Kind::Cid => nfd.max(2).min(3),
        Kind::Cff2 => nfd,
    };
    Ok((
        Case {
            kind,
            seed,
            nglyphs,
            grid,
            hints,
            width: width && kind != Kind::Cff2,
            free_forms,
            nfrags,
            cuts,
            deep,
            max_segs,
            pad,
            nfd,
            variable: variable && kind == Kind::Cff2,
            axes,
            block_order,
            off_size,
            header_extra,
            via_sfnt,
        },
        layout_seed,
    ))
}

fn u_seac_case(u: &mut arbitrary::Unstructured<'_>) -> arbitrary::Result<SeacCase> {
    // same as `seac_strategy`
    Ok(SeacCase {
        seed: u.arbitrary()?,
        hints: u.arbitrary()?,
        component_width: u.arbitrary()?,
        seac_width: u.arbitrary()?,
        charset: u.int_in_range(0u8..=2)?,
        free_forms: u.arbitrary()?,
        subr_cuts: u_alts(u, &[(2, 0, 0), (3, 1, 3)])? as u8,
    })
}

/// Structure-aware decoding of a libFuzzer input. Byte 0 selects the section with about the
/// weights of `C18::run` (8 : 6 : 6 : 1 for name-keyed : CID : CFF2 : seac); the rest is read
/// field by field with the ranges of `case_strategy` / `seac_strategy`. Every input decodes
/// (`Unstructured` pads exhausted input with zeros = the smallest value of every field).
pub fn case_from_bytes(data: &[u8]) -> arbitrary::Result<FuzzCase> {
    let mut u = arbitrary::Unstructured::new(data);
    Ok(match u.int_in_range(0u8..=20)? {
        0..=7 => FuzzCase::Font(u_font_case(&mut u, Kind::NameKeyed)?),
        8..=13 => FuzzCase::Font(u_font_case(&mut u, Kind::Cid)?),
        14..=19 => FuzzCase::Font(u_font_case(&mut u, Kind::Cff2)?),
        _ => FuzzCase::Seac(u_seac_case(&mut u)?),
    })
}

pub fn check_fuzz_case(c: &FuzzCase, rec: &mut Rec) -> CaseResult {
    match c {
        FuzzCase::Font(l) => check_case(l, rec),
        FuzzCase::Seac(s) => check_seac(s, rec),
    }
}

// ------------------------------------------------------------------------------------------
// deterministic enumerations: nesting depth, bias bands, stack limits

fn simple_font(kind: Kind, charstrings: Vec<Vec<u8>>, gsubrs: Vec<Vec<u8>>, lsubrs: Vec<Vec<u8>>) -> Vec<u8> {
    let private = PrivateModel { subrs: if lsubrs.is_empty() { None } else { Some(lsubrs) }, ..Default::default() };
    match kind {
        Kind::NameKeyed => {
            let mut m = CffModel::simple(charstrings);
            m.global_subrs = gsubrs;
            m.kind = CffKind::NameKeyed { private };
            build_cff(&m)
        }
        Kind::Cid => {
            // glyphs use font dict 1; font dict 0 has a decoy subroutine set
            let n = charstrings.len();
            let mut m = CffModel::simple(charstrings);
            m.global_subrs = gsubrs;
            m.charset = CharsetModel::Format2((1..n as u16).collect());
            let decoy = PrivateModel { subrs: Some(vec![vec![op::ENDCHAR as u8]; 3]), ..Default::default() };
            m.kind = CffKind::Cid { fds: vec![decoy, private], fd_select: vec![1; n], fd_select_format: 3 };
            build_cff(&m)
        }
        Kind::Cff2 => {
            let mut m = Cff2Model::simple(charstrings);
            m.global_subrs = gsubrs;
            m.fds = vec![private];
            build_cff2(&m)
        }
    }
}

fn num(v: i32) -> Tok {
    Tok::Num { v: v * ONE, form: NumForm::Short, comp: None, var: None, blendable: false }
}

fn expect_path(kind: Kind, table: &[u8], gid: u16, want: &[Cmd], what: &str, rec: &mut Rec) -> CaseResult {
    let tag = kind.tag();
    rec.artefact("table", table);
    rec.hash_bytes(table);
    let cff2 = kind == Kind::Cff2;
    let mine = if cff2 { T2Font::parse_cff2(table) } else { T2Font::parse_cff(table) };
    match mine.and_then(|m| m.outline(gid as usize, None, &Deviations::default())) {
        Ok(c) => {
            if let Some(d) = diff_commands(&c, want, 1e-6) {
                panic!("harness self-check ({}): my interpreter disagrees with the expectation: {}", what, d);
            }
        }
        Err(e) => panic!("harness self-check ({}): my interpreter fails: {}", what, e),
    }
    let mut parsed = parse_table(cff2, table, tag)?;
    let (res, sink) = visit(&mut parsed, gid, None);
    let mut deferred = Deferred::default();
    judge(tag, what, &res, &sink, want, 1e-3, &mut deferred, None)?;
    deferred.finish()
}

fn expect_error(kind: Kind, table: &[u8], gid: u16, what: &str, sig: &str, rec: &mut Rec) -> CaseResult {
    let tag = kind.tag();
    rec.artefact("table", table);
    rec.hash_bytes(table);
    let cff2 = kind == Kind::Cff2;
    let mut parsed = parse_table(cff2, table, tag)?;
    let (res, sink) = visit(&mut parsed, gid, None);
    if res.is_ok() {
        return Err(Fail::new(format!("C18:{}:{}", tag, sig), format!("{}: visit succeeded, delivered {}", what, render(&sink.cmds))));
    }
    Ok(())
}

const KINDS: [Kind; 3] = [Kind::NameKeyed, Kind::Cid, Kind::Cff2];

/// chain of `depth` nested subroutines; the innermost draws a line. pattern 0: all local,
/// 1: all global, 2: alternating (main -> global -> local -> ...)
fn nesting_case(i: u64, rec: &mut Rec) -> CaseResult {
    let depths = [1u32, 2, 3, 9, 10, 11, 12];
    let kind = KINDS[(i % 3) as usize];
    let pattern = ((i / 3) % 3) as usize;
    let depth = depths[((i / 9) as usize) % depths.len()];
    let cff2 = kind == Kind::Cff2;
    let is_global = |level: u32| match pattern {
        0 => false,
        1 => true,
        _ => level % 2 == 1,
    };
    // level L (1..=depth) lives at index L-1 of its table... tables hold only their own levels
    let mut gl: Vec<Vec<Tok>> = Vec::new();
    let mut lo: Vec<Vec<Tok>> = Vec::new();
    let mut ids = Vec::new();
    for level in 1..=depth {
        let g = is_global(level);
        let id = if g { gl.len() } else { lo.len() };
        ids.push((g, id));
        if g {
            gl.push(Vec::new())
        } else {
            lo.push(Vec::new())
        }
    }
    for level in 1..=depth {
        let mut body = Vec::new();
        if level == depth {
            body.extend([num(30), num(40), Tok::Op(op::RLINETO)]);
        } else {
            let (g, id) = ids[level as usize];
            body.push(Tok::Call { global: g, id, form: NumForm::Short });
        }
        // every level also draws something after the call returns
        body.extend([num(level as i32), Tok::Op(op::HLINETO)]);
        if !cff2 {
            body.push(Tok::Op(op::RETURN));
        }
        let (g, id) = ids[level as usize - 1];
        if g {
            gl[id] = body
        } else {
            lo[id] = body
        }
    }
    let mut main = vec![num(10), num(20), Tok::Op(op::RMOVETO), Tok::Call { global: ids[0].0, id: ids[0].1, form: NumForm::Short }];
    if !cff2 {
        main.push(Tok::Op(op::ENDCHAR));
    }
    let gl_l = SubrLayout::identity(gl.len());
    let lo_l = SubrLayout::identity(lo.len());
    let ser = |t: &[Tok]| serialize(t, &|g, id| if g { gl_l.number(id) } else { lo_l.number(id) });
    let table = simple_font(kind, vec![ser(&main)], gl.iter().map(|t| ser(t)).collect(), lo.iter().map(|t| ser(t)).collect());
    let what = format!("{:?}, nesting depth {} ({})", kind, depth, ["local", "global", "alternating"][pattern]);
    rec.class(&format!("nesting-depth:{}", depth));
    rec.set_nontrivial(true);
    if depth <= 10 {
        let mut want = vec![Cmd::Move(10.0, 20.0), Cmd::Line(40.0, 60.0)];
        let mut x = 40.0;
        for level in (1..=depth).rev() {
            x += level as f64;
            want.push(Cmd::Line(x, 60.0));
        }
        want.push(Cmd::Close);
        expect_path(kind, &table, 0, &want, &what, rec)
    } else {
        expect_error(kind, &table, 0, &what, "nesting-limit-not-enforced", rec)
    }
}

const BIAS_SIZES: [usize; 18] = [1, 2, 107, 108, 214, 215, 216, 1238, 1239, 1240, 1241, 2371, 2372, 33898, 33899, 33900, 33901, 65535];

fn bias_case(i: u64, rec: &mut Rec) -> CaseResult {
    let kind = KINDS[(i % 3) as usize];
    let global = (i / 3) % 2 == 1;
    let size = BIAS_SIZES[((i / 6) as usize) % BIAS_SIZES.len()];
    let posk = ((i / 6) as usize / BIAS_SIZES.len()) % 5;
    let bias = subr_bias(size) as i64;
    let pos = match posk {
        0 => 0,
        1 => size - 1,
        2 => size / 2,
        3 => (bias.clamp(0, size as i64 - 1)) as usize,          // operand 0
        _ => ((bias + 108).clamp(0, size as i64 - 1)) as usize, // operand 108: two-byte number
    };
    let cff2 = kind == Kind::Cff2;
    // every filler subroutine draws something *different*, so that an off-by-one index shows
    let filler = |k: usize| -> Vec<u8> {
        let mut t = vec![num(-(1 + (k % 50) as i32)), Tok::Op(op::VLINETO)];
        if !cff2 {
            t.push(Tok::Op(op::RETURN));
        }
        serialize(&t, &|_, _| 0)
    };
    let mut body = vec![num(30), num(40), Tok::Op(op::RLINETO)];
    if !cff2 {
        body.push(Tok::Op(op::RETURN));
    }
    let mut subrs: Vec<Vec<u8>> = (0..size).map(filler).collect();
    subrs[pos] = serialize(&body, &|_, _| 0);
    let layout = SubrLayout { size, pos: vec![pos] };
    let mut main = vec![num(10), num(20), Tok::Op(op::RMOVETO), Tok::Call { global, id: 0, form: NumForm::Short }];
    if !cff2 {
        main.push(Tok::Op(op::ENDCHAR));
    }
    let cs = serialize(&main, &|_, id| layout.number(id));
    let table = if global { simple_font(kind, vec![cs], subrs, Vec::new()) } else { simple_font(kind, vec![cs], Vec::new(), subrs) };
    let what = format!("{:?}, {} INDEX of {} subroutines, call of index {} (operand {})", kind, if global { "global" } else { "local" }, size, pos, layout.number(0));
    rec.class(&format!("bias:{}", bias));
    rec.class_if(size == 1239 || size == 1240 || size == 33899 || size == 33900, &format!("index-size:{}", size));
    rec.set_nontrivial(true);
    let want = vec![Cmd::Move(10.0, 20.0), Cmd::Line(40.0, 60.0), Cmd::Close];
    expect_path(kind, &table, 0, &want, &what, rec)
}

/// every path operator with the largest legal operand count (48 for CFF; for CFF2 also counts
/// just above 48 and the 513 maximum)
fn stack_case(i: u64, rec: &mut Rec) -> CaseResult {
    const OPS: [&str; 10] = ["rlineto", "hlineto", "vlineto", "rrcurveto", "hhcurveto", "vvcurveto", "hvcurveto", "vhcurveto", "rcurveline", "rlinecurve"];
    let name = OPS[(i % 10) as usize];
    let variant = (i / 10) % 4; // 0: CFF 48, 1: CFF2 ~50..60, 2: CFF2 ~513, 3: CID 48
    let (kind, limit) = match variant {
        0 => (Kind::NameKeyed, 48usize),
        1 => (Kind::Cff2, 60),
        2 => (Kind::Cff2, 513),
        _ => (Kind::Cid, 48),
    };
    let cff2 = kind == Kind::Cff2;
    // segments fitting the operator, as many as the limit allows
    let mut segs: Vec<Seg> = Vec::new();
    let u = ONE;
    let nargs;
    match name {
        "rlineto" => {
            let n = limit / 2;
            for k in 0..n {
                segs.push(Seg::Line([(1 + k as i32 % 5) * u, if k % 2 == 0 { 2 * u } else { -2 * u }]));
            }
            nargs = 2 * n;
        }
        "hlineto" | "vlineto" => {
            let n = limit;
            let mut h = name == "hlineto";
            for k in 0..n {
                let v = (1 + k as i32 % 3) * u * if k % 4 < 2 { 1 } else { -1 };
                segs.push(if h { Seg::Line([v, 0]) } else { Seg::Line([0, v]) });
                h = !h;
            }
            nargs = n;
        }
        "rrcurveto" => {
            let n = limit / 6;
            for k in 0..n {
                let s = if k % 2 == 0 { 1 } else { -1 };
                segs.push(Seg::Curve([u, 2 * u * s, 3 * u, u * s, 2 * u, -u * s]));
            }
            nargs = 6 * n;
        }
        "hhcurveto" | "vvcurveto" => {
            let n = (limit - 1) / 4;
            for k in 0..n {
                let lead = if k == 0 { 5 * u } else { 0 };
                segs.push(if name == "hhcurveto" { Seg::Curve([u, lead, 2 * u, 3 * u, u, 0]) } else { Seg::Curve([lead, u, 2 * u, 3 * u, 0, u]) });
            }
            nargs = 4 * n + 1;
        }
        "hvcurveto" | "vhcurveto" => {
            let n = (limit - 1) / 4;
            let mut hv = name == "hvcurveto";
            for k in 0..n {
                let last = k + 1 == n;
                let t = if last { 7 * u } else { 0 };
                segs.push(if hv { Seg::Curve([u, 0, 2 * u, u, t, -u]) } else { Seg::Curve([0, u, u, 2 * u, -u, t]) });
                hv = !hv;
            }
            nargs = 4 * n + 1;
        }
        "rcurveline" => {
            let n = (limit - 2) / 6;
            for _ in 0..n {
                segs.push(Seg::Curve([u, 2 * u, 3 * u, u, 2 * u, -u]));
            }
            segs.push(Seg::Line([4 * u, 5 * u]));
            nargs = 6 * n + 2;
        }
        _ => {
            let n = (limit - 6) / 2;
            for k in 0..n {
                segs.push(Seg::Line([u, if k % 2 == 0 { u } else { -u }]));
            }
            segs.push(Seg::Curve([u, 2 * u, 3 * u, u, 2 * u, -u]));
            nargs = 2 * n + 6;
        }
    }
    // encode by hand: all operands of all segments in the operator's order, one operator
    let mut toks = vec![num(100), num(100), Tok::Op(op::RMOVETO)];
    let push = |toks: &mut Vec<Tok>, v: i32| toks.push(Tok::Num { v, form: NumForm::Short, comp: None, var: None, blendable: false });
    match name {
        "rlineto" | "rrcurveto" | "rcurveline" | "rlinecurve" => {
            for s in &segs {
                for v in s.comps() {
                    push(&mut toks, *v);
                }
            }
        }
        "hlineto" | "vlineto" => {
            for s in &segs {
                let c = s.comps();
                push(&mut toks, if c[0] != 0 { c[0] } else { c[1] });
            }
        }
        "hhcurveto" | "vvcurveto" => {
            let hh = name == "hhcurveto";
            for (k, s) in segs.iter().enumerate() {
                let c = s.comps();
                if k == 0 {
                    push(&mut toks, if hh { c[1] } else { c[0] });
                }
                if hh {
                    for j in [0, 2, 3, 4] {
                        push(&mut toks, c[j]);
                    }
                } else {
                    for j in [1, 2, 3, 5] {
                        push(&mut toks, c[j]);
                    }
                }
            }
        }
        _ => {
            let mut hv = name == "hvcurveto";
            for (k, s) in segs.iter().enumerate() {
                let c = s.comps();
                let last = k + 1 == segs.len();
                if hv {
                    for j in [0, 2, 3, 5] {
                        push(&mut toks, c[j]);
                    }
                    if last {
                        push(&mut toks, c[4]);
                    }
                } else {
                    for j in [1, 2, 3, 4] {
                        push(&mut toks, c[j]);
                    }
                    if last {
                        push(&mut toks, c[5]);
                    }
                }
                hv = !hv;
            }
        }
    }
    debug_assert_eq!(toks.len() - 3, nargs);
    toks.push(Tok::Op(match name {
        "rlineto" => op::RLINETO,
        "hlineto" => op::HLINETO,
        "vlineto" => op::VLINETO,
        "rrcurveto" => op::RRCURVETO,
        "hhcurveto" => op::HHCURVETO,
        "vvcurveto" => op::VVCURVETO,
        "hvcurveto" => op::HVCURVETO,
        "vhcurveto" => op::VHCURVETO,
        "rcurveline" => op::RCURVELINE,
        _ => op::RLINECURVE,
    }));
    if !cff2 {
        toks.push(Tok::Op(op::ENDCHAR));
    }
    let cs = serialize(&toks, &|_, _| 0);
    let table = simple_font(kind, vec![cs], Vec::new(), Vec::new());
    let model = PathModel { contours: vec![t2::Contour { mv: [100 * u, 100 * u], segs }], deltas: Default::default() };
    let want = model.commands(None);
    let what = format!("{:?}, {} with {} operands", kind, name, nargs);
    rec.class(&format!("stack:{}:{}", name, if nargs > 48 { ">48" } else { "<=48" }));
    rec.set_nontrivial(true);
    if cff2 && nargs > 48 && (name == "hvcurveto" || name == "vhcurveto") {
        // known panic class: attribute narrowly
        rec.artefact("table", &table);
        let mut parsed = parse_table(true, &table, "cff2")?;
        return match visit_guarded(&mut parsed, 0, None, true) {
            Ok((res, sink)) => {
                let mut d = Deferred::default();
                judge("cff2", &what, &res, &sink, &want, 1e-3, &mut d, None)?;
                d.finish()
            }
            Err(()) => Err(Fail::new(
                "C18:cff2-hvcurveto-over-48-operands-panics",
                format!("{}: panics (temp buffer of the hv/vh curve parser is sized for CFF's 48 operands)", what),
            )),
        };
    }
    expect_path(kind, &table, 0, &want, &what, rec)
}

/// CFF2 corner cases built by hand.
/// 0: `blend` under an ItemVariationData subtable that refers to no region (k = 0)
/// 1: the same through an explicit `vsindex`
/// 2: two blends feeding one operator, hint operands blended
fn cff2_special_case(i: u64, rec: &mut Rec) -> CaseResult {
    let vs = VarStoreModel { axis_count: 1, regions: vec![vec![[0, 16384, 16384]]], data: vec![vec![], vec![0]] };
    let tuple = [8192i16];
    let (dflt_vsindex, toks, want): (u16, Vec<Tok>, Vec<Cmd>) = match i {
        0 => (
            0,
            vec![num(10), num(20), num(2), Tok::Op(op::BLEND), Tok::Op(op::RMOVETO), num(30), num(40), Tok::Op(op::RLINETO)],
            vec![Cmd::Move(10.0, 20.0), Cmd::Line(40.0, 60.0), Cmd::Close],
        ),
        1 => (
            1,
            vec![num(0), Tok::Op(op::VSINDEX), num(10), num(20), num(2), Tok::Op(op::BLEND), Tok::Op(op::RMOVETO), num(30), num(40), Tok::Op(op::RLINETO)],
            vec![Cmd::Move(10.0, 20.0), Cmd::Line(40.0, 60.0), Cmd::Close],
        ),
        _ => (
            1,
            vec![
                // hstem 100 (+8) 50 (+4)
                num(100), num(50), num(8), num(4), num(2), Tok::Op(op::BLEND), Tok::Op(op::HSTEM),
                // rmoveto 10 (+2·0.5) 20 (+6·0.5) in two blends
                num(10), num(2), num(1), Tok::Op(op::BLEND), num(20), num(6), num(1), Tok::Op(op::BLEND), Tok::Op(op::RMOVETO),
                num(30), num(40), Tok::Op(op::RLINETO),
            ],
            vec![Cmd::Move(11.0, 23.0), Cmd::Line(41.0, 63.0), Cmd::Close],
        ),
    };
    let mut m = Cff2Model::simple(vec![serialize(&toks, &|_, _| 0)]);
    m.vstore = Some(vs);
    m.fds[0].vsindex = Some(dflt_vsindex);
    let table = build_cff2(&m);
    rec.artefact("table", &table);
    rec.hash_bytes(&table);
    rec.set_nontrivial(true);
    let what = format!("CFF2 special case {}", i);
    let mine = T2Font::parse_cff2(&table).and_then(|f| f.outline(0, Some(&[0.5]), &Deviations::default()));
    match mine {
        Ok(c) if diff_commands(&c, &want, 1e-9).is_none() => {}
        other => panic!("harness self-check ({}): my interpreter gives {:?}", what, other),
    }
    let mut parsed = parse_table(true, &table, "cff2")?;
    let t = owned_tuple(&tuple)?;
    let r = catch_unwind(AssertUnwindSafe(|| visit(&mut parsed, 0, Some(&t))));
    match r {
        Ok((res, sink)) => {
            let mut d = Deferred::default();
            judge("cff2", &what, &res, &sink, &want, 1e-3, &mut d, None)?;
            d.finish()
        }
        Err(payload) => {
            let msg = payload.downcast_ref::<String>().cloned().or_else(|| payload.downcast_ref::<&str>().map(|s| s.to_string())).unwrap_or_default();
            if i < 2 && msg.contains("chunk size must be non-zero") {
                Err(Fail::new(
                    "C18:cff2-blend-with-zero-regions-panics",
                    format!("{}: `blend` under an ItemVariationData subtable without regions panics: {}", what, msg),
                ))
            } else {
                resume_unwind(payload)
            }
        }
    }
}

// ------------------------------------------------------------------------------------------
// real fonts: allsorts vs. my interpreter, glyph by glyph

fn fixture_fonts() -> Vec<String> {
    let mut v = Vec::new();
    for dir in ["fonts", "font_specimen", "aots"] {
        for f in fixtures::list(dir, &["otf"], 8 << 20) {
            v.push(f);
        }
    }
    v
}

const FIXTURE_CHUNK: usize = 64;

/// item = (font index, chunk index); quick looks at a sample of chunks of the big fonts
fn fixture_case(font_rel: &str, chunk: usize, stride: usize, rec: &mut Rec) -> CaseResult {
    let data = match fixtures::read(font_rel) {
        Some(d) => d,
        None => return Ok(()),
    };
    let (table, cff2) = match (find_table(&data, b"CFF "), find_table(&data, b"CFF2")) {
        (Some(t), _) => (t, false),
        (_, Some(t)) => (t, true),
        _ => return Ok(()),
    };
    let mine = if cff2 { T2Font::parse_cff2(table) } else { T2Font::parse_cff(table) };
    let mine = match mine {
        Ok(m) => m,
        Err(e) => {
            // my reader is the weaker party on exotic real fonts: count, do not judge
            rec.class(&format!("fixture-unreadable-by-refmodel:{}", e.chars().take(40).collect::<String>()));
            return Ok(());
        }
    };
    let tag = if cff2 { "cff2" } else if mine.cid { "cid" } else { "cff" };
    let mut parsed = parse_table(cff2, table, tag)?;
    // variation tuples for variable CFF2 fonts
    let axis_count = mine.vstore.as_ref().map(|v| v.axis_count).unwrap_or(0);
    let mut tuples: Vec<Vec<i16>> = Vec::new();
    if axis_count > 0 {
        for t in [0i16, 16384, -16384, 8192, -4000, 1] {
            tuples.push(vec![t; axis_count]);
        }
    }
    let n = mine.charstrings.len();
    let lo = chunk * FIXTURE_CHUNK * stride;
    let mut deferred = Deferred::default();
    let mut checked = 0u64;
    let mut nontrivial = false;
    for k in 0..FIXTURE_CHUNK {
        let g = lo + k * stride;
        if g >= n {
            break;
        }
        let mut variants: Vec<Option<&Vec<i16>>> = vec![None];
        for t in &tuples {
            variants.push(Some(t));
        }
        for tv in variants {
            let coords: Option<Vec<f64>> = tv.map(|t| t.iter().map(|v| *v as f64 / 16384.0).collect());
            let want = mine.outline(g, coords.as_deref(), &Deviations::default());
            let ot = match tv {
                Some(t) => Some(owned_tuple(t)?),
                None => None,
            };
            let (res, sink) = visit(&mut parsed, g as u16, ot.as_ref());
            checked += 1;
            match want {
                Ok(want) => {
                    if max_coord(&want) > 32000.0 {
                        continue;
                    }
                    nontrivial |= want.iter().any(|c| matches!(c, Cmd::Curve(..)));
                    let alt = if cff2 && mine.fd_of(g) != 0 { Some((mine.outline(g, coords.as_deref(), &Deviations { cff2_fd0: true }), false)) } else { None };
                    let tol = if tv.is_some() { 0.05 } else { 1e-3 };
                    judge(tag, &format!("{} glyph {} tuple {:?}", font_rel, g, tv), &res, &sink, &want, tol, &mut deferred, alt.as_ref())?;
                }
                Err(e) => {
                    // my interpreter refuses (unsupported operator, blend without tuple, ...):
                    // nothing to compare against
                    rec.class(&format!("fixture-glyph-not-interpretable:{}", e.chars().take(32).collect::<String>()));
                }
            }
        }
    }
    rec.class(&format!("fixture:{}", tag));
    rec.set_nontrivial(nontrivial);
    rec.hash_bytes(font_rel.as_bytes());
    rec.hash_u64(chunk as u64);
    rec.evaluations(checked);
    deferred.finish()
}

// ------------------------------------------------------------------------------------------

impl Property for C18 {
    fn id(&self) -> &'static str {
        "C18"
    }
    fn rule(&self) -> String {
        "A case is a generated font: a seed and size/feature parameters determine 1-8 glyph path models (0-4 contours of \
         relative line/cubic segments on a grid on which f32 accumulation is exact; integer, 1/256 or full 16.16 values), \
         their Type 2 encoding (operator form per run, number forms, width, stem hints and masks, shared fragment \
         subroutines, random token-range cuts into nested local/global subroutines, INDEX padding to the bias boundaries, \
         CFF2 blend/vsindex at a random tuple) and the container (name-keyed CFF, CID-keyed CFF with 2-3 font dicts, CFF2). \
         Non-trivial = the font has at least one curve and at least one subroutine call or hintmask/cntrmask; distinct = \
         distinct table bytes. Enumerations: nesting depth 1..12 x local/global/alternating x container; INDEX sizes around \
         every bias boundary x called position; every path operator at the largest legal operand count; all CFF/CFF2 \
         fixture fonts glyph by glyph against an independent interpreter."
            .into()
    }
    fn assumptions(&self) -> Vec<String> {
        vec![
            "my Type 2 encoder, CFF/CFF2 builder and interpreter implement TN #5176/#5177 and the CFF2 chapters correctly; \
             every generated glyph is first interpreted by my own interpreter and must reproduce the model (else HARNESS-ERROR)"
                .into(),
            "absolute coordinates stay within ±30000 (allsorts refuses outlines whose bounding box does not fit i16, which the property does not forbid)".into(),
            "a subroutine that ends in endchar carries no dead `return` after it; nothing follows endchar".into(),
            "blend without a variation tuple is an error by allsorts' documented API (tuple required if the font is variable): glyphs with blends are visited with a tuple only".into(),
            "OwnedTuple values are constructed through a generated fvar table (the only public constructor)".into(),
        ]
    }
    fn run(&self, ctx: &mut Ctx) {
        let n = ctx.cases(160_000, 2_400_000);
        let laid = |k: Kind| (case_strategy(k), proptest::option::weighted(0.5, any::<u64>()));
        ctx.section("cff-name-keyed", n * 4 / 10, laid(Kind::NameKeyed), check_case);
        ctx.section("cff-cid-keyed", n * 3 / 10, laid(Kind::Cid), check_case);
        ctx.section("cff2", n * 3 / 10, laid(Kind::Cff2), check_case);
        ctx.section("cff-seac", n / 20, seac_strategy(), check_seac);
        ctx.enumerate("nesting-depth", 7 * 9, true, nesting_case);
        ctx.enumerate("bias-bands", (6 * BIAS_SIZES.len() * 5) as u64, true, bias_case);
        ctx.enumerate("stack-limits", 40, true, stack_case);
        ctx.enumerate("cff2-special", 3, true, cff2_special_case);
        // fixtures: (font, chunk) items
        let fonts = fixture_fonts();
        let thorough = ctx.thorough();
        let mut items: Vec<(String, usize, usize)> = Vec::new();
        for f in &fonts {
            let len = fixtures::tests_dir().join(f).metadata().map(|m| m.len()).unwrap_or(0);
            // rough glyph-count guess from the file size keeps the item list cheap to build
            let nglyph_guess = if len > 1_000_000 { 18000 } else if len > 100_000 { 2000 } else if len > 20_000 { 400 } else { 64 };
            let stride = if thorough { 1 } else if nglyph_guess > 4000 { 16 } else if nglyph_guess > 1000 { 4 } else { 1 };
            let chunks = (nglyph_guess + FIXTURE_CHUNK * stride - 1) / (FIXTURE_CHUNK * stride);
            for c in 0..chunks {
                items.push((f.clone(), c, stride));
            }
        }
        let total = items.len() as u64;
        ctx.enumerate("fixture-fonts", total, true, move |i, rec| {
            let (f, c, s) = &items[i as usize];
            fixture_case(f, *c, *s, rec)
        });
    }
}
