//! C02 helper: per-script alphabets and the text-token model. A text is a list of tokens; each
//! token resolves (given the alphabet of the case's script) to 0..n scalars. Tokens are biased
//! to the material the complex-script shapers treat specially: viramas, nuktas, reph and
//! pre-base forms, lone marks, repeated joiners, incomplete syllables, foreign characters.
//! Everything here is plain Unicode data typed in from the code charts (no allsorts code).

use crate::engine::util::pick;

pub const ZWNJ: u32 = 0x200C;
pub const ZWJ: u32 = 0x200D;
pub const CGJ: u32 = 0x034F;
pub const DOTTED_CIRCLE: u32 = 0x25CC;

/// Character inventory of one script. Ranges are inclusive.
pub struct Alphabet {
    pub tag: &'static [u8; 4],
    /// every code point of the script's blocks (assigned or not)
    pub blocks: &'static [(u32, u32)],
    /// consonants / base letters
    pub cons: &'static [(u32, u32)],
    /// virama / halant / coeng / asat like characters
    pub halant: &'static [u32],
    pub nukta: &'static [u32],
    /// RA-like letters (reph / rakar / medial ra formation)
    pub ra: &'static [u32],
    /// dependent vowel signs
    pub matra: &'static [(u32, u32)],
    /// vowel signs displayed before (or around) the base
    pub prebase: &'static [u32],
    /// other combining marks of the script (bindus, tone marks, harakat, ...)
    pub marks: &'static [(u32, u32)],
    /// characters with dedicated handling (SARA AM, kinzi parts, tatweel, lam/alef, ...)
    pub special: &'static [u32],
}

const fn indic(
    tag: &'static [u8; 4],
    blocks: &'static [(u32, u32)],
    cons: &'static [(u32, u32)],
    halant: &'static [u32],
    nukta: &'static [u32],
    ra: &'static [u32],
    matra: &'static [(u32, u32)],
    prebase: &'static [u32],
    marks: &'static [(u32, u32)],
    special: &'static [u32],
) -> Alphabet {
    Alphabet { tag, blocks, cons, halant, nukta, ra, matra, prebase, marks, special }
}

pub static ALPHABETS: &[Alphabet] = &[
    indic(
        b"arab",
        &[(0x0600, 0x06FF), (0x0750, 0x077F), (0x08A0, 0x08FF), (0xFB50, 0xFDFF), (0xFE70, 0xFEFF)],
        &[(0x0621, 0x064A), (0x0671, 0x06D3), (0x0750, 0x077F), (0x08A0, 0x08B4)],
        &[0x0652],
        &[],
        &[0x0631, 0x0644],
        &[(0x064B, 0x065F)],
        &[0x0670],
        &[(0x0610, 0x061A), (0x064B, 0x065F), (0x06D6, 0x06ED), (0x08D3, 0x08FF)],
        &[0x0640, 0x0644, 0x0627, 0x0622, 0x0623, 0x0625, 0x0651, 0x0654, 0x0655, 0x0600, 0x0605, 0x06DD, 0x0621, 0x200F, 0x061C, 0xFEFB, 0xFDFA],
    ),
    indic(
        b"syrc",
        &[(0x0700, 0x074F), (0x0860, 0x086F)],
        &[(0x0710, 0x072F), (0x074D, 0x074F), (0x0860, 0x086A)],
        &[],
        &[],
        &[0x0715, 0x0716, 0x072A],
        &[(0x0730, 0x074A)],
        &[0x0711],
        &[(0x0730, 0x074A), (0x064B, 0x0655)],
        &[0x070F, 0x0710, 0x0711, 0x0640, 0x0712, 0x0713, 0x0714, 0x0718, 0x071D, 0x0720, 0x072C, 0x0700],
    ),
    indic(
        b"deva",
        &[(0x0900, 0x097F), (0xA8E0, 0xA8FF), (0x1CD0, 0x1CFF)],
        &[(0x0915, 0x0939), (0x0958, 0x095F), (0x0978, 0x097F), (0x0904, 0x0914)],
        &[0x094D],
        &[0x093C],
        &[0x0930, 0x0931],
        &[(0x093A, 0x093B), (0x093E, 0x094C), (0x094E, 0x094F), (0x0955, 0x0957), (0x0962, 0x0963)],
        &[0x093F, 0x094E],
        &[(0x0900, 0x0903), (0x0951, 0x0954), (0xA8E0, 0xA8F1), (0x1CD0, 0x1CE8)],
        &[0x0950, 0x093D, 0x0964, 0x0965, 0x0970, 0x0971, 0x0930, 0x0931, 0x0915, 0x0937, 0x091C, 0x091E, 0x1CF5, 0xA8F2],
    ),
    indic(
        b"beng",
        &[(0x0980, 0x09FF)],
        &[(0x0995, 0x09B9), (0x09DC, 0x09DF), (0x09F0, 0x09F1), (0x0985, 0x0994)],
        &[0x09CD],
        &[0x09BC],
        &[0x09B0, 0x09F0],
        &[(0x09BE, 0x09CC), (0x09D7, 0x09D7), (0x09E2, 0x09E3)],
        &[0x09BF, 0x09C7, 0x09C8, 0x09CB, 0x09CC],
        &[(0x0981, 0x0983), (0x09FE, 0x09FE)],
        &[0x09CE, 0x09AF, 0x09AC, 0x09B0, 0x09F0, 0x09F1, 0x09D7, 0x09BE, 0x09FC],
    ),
    indic(
        b"guru",
        &[(0x0A00, 0x0A7F)],
        &[(0x0A15, 0x0A39), (0x0A59, 0x0A5E), (0x0A05, 0x0A14), (0x0A72, 0x0A73)],
        &[0x0A4D],
        &[0x0A3C],
        &[0x0A30, 0x0A39, 0x0A35],
        &[(0x0A3E, 0x0A4C)],
        &[0x0A3F],
        &[(0x0A01, 0x0A03), (0x0A70, 0x0A71), (0x0A75, 0x0A75), (0x0A51, 0x0A51)],
        &[0x0A72, 0x0A73, 0x0A71, 0x0A70, 0x0A2F, 0x0A30],
    ),
    indic(
        b"gujr",
        &[(0x0A80, 0x0AFF)],
        &[(0x0A95, 0x0AB9), (0x0A85, 0x0A94), (0x0AF9, 0x0AF9)],
        &[0x0ACD],
        &[0x0ABC],
        &[0x0AB0],
        &[(0x0ABE, 0x0ACC), (0x0AE2, 0x0AE3)],
        &[0x0ABF],
        &[(0x0A81, 0x0A83), (0x0AFA, 0x0AFF)],
        &[0x0AD0, 0x0ABD, 0x0AB0, 0x0A95, 0x0AB7, 0x0A9C, 0x0A9E],
    ),
    indic(
        b"orya",
        &[(0x0B00, 0x0B7F)],
        &[(0x0B15, 0x0B39), (0x0B5C, 0x0B5F), (0x0B71, 0x0B71), (0x0B05, 0x0B14)],
        &[0x0B4D],
        &[0x0B3C],
        &[0x0B30],
        &[(0x0B3E, 0x0B4C), (0x0B55, 0x0B57), (0x0B62, 0x0B63)],
        &[0x0B47, 0x0B48, 0x0B4B, 0x0B4C],
        &[(0x0B01, 0x0B03)],
        &[0x0B56, 0x0B57, 0x0B3E, 0x0B2F, 0x0B5F, 0x0B30],
    ),
    indic(
        b"taml",
        &[(0x0B80, 0x0BFF)],
        &[(0x0B95, 0x0BB9), (0x0B85, 0x0B94)],
        &[0x0BCD],
        &[],
        &[0x0BB0, 0x0BB1],
        &[(0x0BBE, 0x0BCC), (0x0BD7, 0x0BD7)],
        &[0x0BC6, 0x0BC7, 0x0BC8, 0x0BCA, 0x0BCB, 0x0BCC],
        &[(0x0B82, 0x0B83)],
        &[0x0BD7, 0x0BBE, 0x0B95, 0x0BB7, 0x0BB8, 0x0BB0, 0x0BC0, 0x0BD0],
    ),
    indic(
        b"telu",
        &[(0x0C00, 0x0C7F)],
        &[(0x0C15, 0x0C39), (0x0C58, 0x0C5A), (0x0C05, 0x0C14)],
        &[0x0C4D],
        &[0x0C3C],
        &[0x0C30, 0x0C31],
        &[(0x0C3E, 0x0C4C), (0x0C55, 0x0C56), (0x0C62, 0x0C63)],
        &[0x0C46, 0x0C47, 0x0C48],
        &[(0x0C00, 0x0C04)],
        &[0x0C56, 0x0C55, 0x0C30],
    ),
    indic(
        b"knda",
        &[(0x0C80, 0x0CFF)],
        &[(0x0C95, 0x0CB9), (0x0CDE, 0x0CDE), (0x0C85, 0x0C94)],
        &[0x0CCD],
        &[0x0CBC],
        &[0x0CB0, 0x0CB1],
        &[(0x0CBE, 0x0CCC), (0x0CD5, 0x0CD6), (0x0CE2, 0x0CE3)],
        &[0x0CBF, 0x0CC6],
        &[(0x0C81, 0x0C83)],
        &[0x0CD5, 0x0CD6, 0x0CC2, 0x0CF1, 0x0CF2, 0x0CB0],
    ),
    indic(
        b"mlym",
        &[(0x0D00, 0x0D7F)],
        &[(0x0D15, 0x0D3A), (0x0D05, 0x0D14), (0x0D7A, 0x0D7F)],
        &[0x0D4D, 0x0D3B, 0x0D3C],
        &[],
        &[0x0D30, 0x0D31],
        &[(0x0D3E, 0x0D4C), (0x0D57, 0x0D57), (0x0D62, 0x0D63)],
        &[0x0D46, 0x0D47, 0x0D48, 0x0D4A, 0x0D4B, 0x0D4C],
        &[(0x0D00, 0x0D03)],
        &[0x0D4E, 0x0D57, 0x0D3E, 0x0D2F, 0x0D35, 0x0D32, 0x0D30, 0x0D7C],
    ),
    indic(
        b"sinh",
        &[(0x0D80, 0x0DFF)],
        &[(0x0D9A, 0x0DC6), (0x0D85, 0x0D96)],
        &[0x0DCA],
        &[],
        &[0x0DBB],
        &[(0x0DCF, 0x0DDF), (0x0DF2, 0x0DF3)],
        &[0x0DD9, 0x0DDA, 0x0DDB, 0x0DDC, 0x0DDD, 0x0DDE],
        &[(0x0D81, 0x0D83)],
        &[0x0DBA, 0x0DBB, 0x0DCF, 0x0DDF],
    ),
    indic(
        b"khmr",
        &[(0x1780, 0x17FF), (0x19E0, 0x19FF)],
        &[(0x1780, 0x17B3)],
        &[0x17D2],
        &[],
        &[0x179A],
        &[(0x17B6, 0x17C5)],
        &[0x17C1, 0x17C2, 0x17C3, 0x17BE, 0x17BF, 0x17C0, 0x17C4, 0x17C5],
        &[(0x17C6, 0x17D1), (0x17D3, 0x17D3), (0x17DD, 0x17DD)],
        &[0x17CC, 0x17C9, 0x17CA, 0x17B4, 0x17B5, 0x17D2, 0x179A],
    ),
    indic(
        b"mymr",
        &[(0x1000, 0x109F), (0xA9E0, 0xA9FF), (0xAA60, 0xAA7F)],
        &[(0x1000, 0x102A), (0x103F, 0x103F), (0x1050, 0x1055), (0x105A, 0x105D), (0x1075, 0x1081)],
        &[0x1039, 0x103A],
        &[],
        &[0x101B, 0x1004, 0x103C],
        &[(0x102B, 0x1035), (0x1056, 0x1059), (0x1062, 0x1064), (0x1067, 0x106D), (0x1083, 0x108D)],
        &[0x1031, 0x1084, 0x103C],
        &[(0x1036, 0x1038), (0x103B, 0x103E), (0x1058, 0x1059), (0x105E, 0x1060), (0x1082, 0x1082), (0x1087, 0x108D)],
        &[0x1004, 0x101B, 0x105A, 0x103A, 0x1039, 0x103B, 0x103C, 0x103D, 0x103E, 0x1031, 0x1037, 0x1032, 0x1036, 0x104E],
    ),
    indic(
        b"thai",
        &[(0x0E00, 0x0E7F)],
        &[(0x0E01, 0x0E2E)],
        &[0x0E3A],
        &[],
        &[0x0E23, 0x0E24, 0x0E26],
        &[(0x0E30, 0x0E39), (0x0E47, 0x0E47)],
        &[0x0E40, 0x0E41, 0x0E42, 0x0E43, 0x0E44],
        &[(0x0E47, 0x0E4E), (0x0E31, 0x0E31), (0x0E34, 0x0E3A)],
        &[0x0E33, 0x0E4D, 0x0E32, 0x0E48, 0x0E49, 0x0E4A, 0x0E4B, 0x0E0D, 0x0E10, 0x0E1B, 0x0E1D, 0x0E1F],
    ),
    indic(
        b"lao ",
        &[(0x0E80, 0x0EFF)],
        &[(0x0E81, 0x0EAE), (0x0EDC, 0x0EDF)],
        &[0x0EBA],
        &[],
        &[0x0EA3, 0x0EBC, 0x0EBD],
        &[(0x0EB0, 0x0EB9), (0x0EBB, 0x0EBB)],
        &[0x0EC0, 0x0EC1, 0x0EC2, 0x0EC3, 0x0EC4],
        &[(0x0EC8, 0x0ECE), (0x0EB1, 0x0EB1), (0x0EB4, 0x0EBC)],
        &[0x0EB3, 0x0ECD, 0x0EB2, 0x0EC8, 0x0EC9, 0x0ECA, 0x0ECB],
    ),
    indic(
        b"kana",
        &[(0x3000, 0x30FF), (0xFF00, 0xFFEF), (0x4E00, 0x4E7F), (0xFE30, 0xFE4F)],
        &[(0x3041, 0x3096), (0x30A1, 0x30FA), (0x4E00, 0x4E2F)],
        &[],
        &[],
        &[0x30FC, 0x3001, 0x3002],
        &[(0x3099, 0x309A)],
        &[],
        &[(0x3099, 0x309C)],
        &[0x30FC, 0x3001, 0x3002, 0xFF08, 0xFF09, 0x300C, 0x300D, 0x2026, 0x2014, 0x301C, 0xFF1A, 0x3041, 0x30E7],
    ),
    indic(
        b"latn",
        &[(0x0020, 0x007E), (0x00A0, 0x024F), (0x0300, 0x036F), (0x0370, 0x03FF), (0x0400, 0x04FF), (0x1E00, 0x1EFF), (0x2000, 0x206F)],
        &[(0x0041, 0x005A), (0x0061, 0x007A)],
        &[],
        &[],
        &[0x0066, 0x0069, 0x006C, 0x0074],
        &[(0x0300, 0x036F)],
        &[],
        &[(0x0300, 0x036F), (0x1AB0, 0x1AFF), (0x1DC0, 0x1DFF), (0x20D0, 0x20FF), (0xFE20, 0xFE2F)],
        &[0x0066, 0x0069, 0x006C, 0x0074, 0x0054, 0x0056, 0x0041, 0x0031, 0x0032, 0x002F, 0x2044, 0x0020, 0x00AD],
    ),
];

/// The characters the synthetic Latin-type fonts encode (letters, digits, two combining marks).
pub static SYNTHETIC: Alphabet = Alphabet {
    tag: b"latn",
    blocks: &[(0x0061, 0x007A), (0x0030, 0x0039), (0x0020, 0x002F), (0x0300, 0x0303)],
    // the lookups of the synthetic fonts are written over the first few letters
    cons: &[(0x0061, 0x0069), (0x0041, 0x0049), (0x0061, 0x0066)],
    halant: &[0x0301],
    nukta: &[0x0302],
    ra: &[0x0067, 0x0068, 0x0063, 0x0064, 0x0061, 0x0062],
    matra: &[(0x0301, 0x0302)],
    prebase: &[0x0030, 0x0031, 0x0032],
    marks: &[(0x0301, 0x0302)],
    special: &[0x0061, 0x0062, 0x0063, 0x0064, 0x0065, 0x0066, 0x0067, 0x0068, 0x0069, 0x002F, 0x0020, 0x25CC, 0x0031, 0xFB00, 0xFB01, 0xFB02, 0xFB03, 0xFB04, 0xFEFB],
};

/// The private-use characters the generated layout fonts encode (U+E000 + glyph id).
pub static PUA: Alphabet = Alphabet {
    tag: b"latn",
    blocks: &[(0xE001, 0xE040)],
    cons: &[(0xE001, 0xE014), (0xE001, 0xE008), (0xE001, 0xE03F)],
    halant: &[0xE002, 0xE005],
    nukta: &[0xE003],
    ra: &[0xE001, 0xE004, 0xE007],
    matra: &[(0xE001, 0xE014)],
    prebase: &[0xE006, 0xE009],
    marks: &[(0xE001, 0xE014)],
    special: &[0xE001, 0xE002, 0xE003, 0xE004, 0xE005, 0xE006, 0xE007, 0xE008, 0xE00A, 0xE010, 0xE013, 0xE020],
};

pub fn alphabet_for(tag: &[u8; 4]) -> &'static Alphabet {
    let base: [u8; 4] = match tag {
        b"dev2" => *b"deva",
        b"bng2" => *b"beng",
        b"gur2" => *b"guru",
        b"gjr2" => *b"gujr",
        b"ory2" => *b"orya",
        b"tml2" => *b"taml",
        b"tel2" => *b"telu",
        b"knd2" => *b"knda",
        b"mlm2" => *b"mlym",
        b"mym2" => *b"mymr",
        t => *t,
    };
    ALPHABETS
        .iter()
        .find(|a| a.tag == &base)
        .unwrap_or_else(|| ALPHABETS.last().expect("alphabets"))
}

fn from_ranges(r: &[(u32, u32)], sel: u32) -> Option<u32> {
    let total: u32 = r.iter().map(|(a, b)| b - a + 1).sum();
    if total == 0 {
        return None;
    }
    let mut k = pick(total as usize, sel) as u32;
    for (a, b) in r {
        let n = b - a + 1;
        if k < n {
            return Some(a + k);
        }
        k -= n;
    }
    None
}

fn from_list(l: &[u32], sel: u32) -> Option<u32> {
    if l.is_empty() {
        None
    } else {
        Some(l[pick(l.len(), sel)])
    }
}

const GENERIC_MARKS: &[(u32, u32)] = &[
    (0x0300, 0x036F),
    (0x0483, 0x0489),
    (0x1AB0, 0x1AC0),
    (0x1DC0, 0x1DFF),
    (0x20D0, 0x20F0),
    (0xFE20, 0xFE2F),
    (0x0591, 0x05BD),
    (0x3099, 0x309A),
    (0x1D165, 0x1D169),
    (0xE0020, 0xE007F),
];

const JOINERS: &[u32] = &[ZWJ, ZWNJ, CGJ, ZWJ, ZWNJ, 0x2060, 0x200B, 0x00AD, 0xFEFF, 0x200E, 0x200F];

const ASCII: &[(u32, u32)] = &[(0x30, 0x39), (0x2F, 0x2F), (0x20, 0x20), (0x41, 0x5A), (0x61, 0x7A), (0x21, 0x2E), (0x2044, 0x2044), (0x00A0, 0x00A0)];

/// One element of the text model.
#[derive(Clone, Debug, PartialEq)]
pub enum Tok {
    /// uniform over the script's blocks
    Block(u32),
    Cons(u32),
    Halant(u32),
    Nukta(u32),
    Ra(u32),
    Matra(u32),
    PreBase(u32),
    Mark(u32),
    Special(u32),
    Joiner(u32),
    GenericMark(u32),
    /// variation selector: VS1..16 / VS15 / VS16 / VS17..256
    Vs(u32),
    Dotted,
    Ascii(u32),
    /// a letter of a different script (foreign to the run's script)
    Foreign(u32, u32),
    /// arbitrary scalar value (BMP or astral)
    Any(u32),
    /// repeat the previous scalar n more times
    Repeat(u8),
    /// a syllable-shaped pattern built from the alphabet's inventory
    Syl(u8, u32, u32, u32),
    /// a literal scalar value (used by the deterministic short-string sweep)
    Lit(u32),
    /// an ASCII fraction `digits '/' digits` behind an optional ligature-prone prefix and in
    /// front of 0-2 further characters: (prefix selector, digit selector, suffix selector).
    /// `Features::Mask` with FRAC applies different lookups to the fraction and to the rest.
    Fraction(u32, u32, u32),
}

/// Letter sequences that commonly ligate (plus the ones the synthetic fonts ligate).
pub const LIGATURE_PREFIXES: &[&str] = &[
    "", "TM", "TM ", "fi", "ffi", "office ", "ff", "fl", "ffl ", "Th", "fj", "tt", "ct", "st ", "fi fl ", "cd", "cd ", "cccccccc", "ab",
    "gh", "--", "->", "!= ", "www", "...",
];
pub const FRACTIONS: &[&str] = &["1/2", "12/34", "3/4", "1/23", "123/456", "1/2/3", "10/9", "7/8", "0/0", "1/", "/2", "1 /2", "1\u{2044}2"];
pub const FRACTION_SUFFIXES: &[&str] = &["", "", " ", "a", "1", " x", "fi", ".", "/", " 1/2"];

pub fn fraction_text(prefix: u32, digits: u32, suffix: u32) -> String {
    let mut s = String::new();
    s.push_str(LIGATURE_PREFIXES[pick(LIGATURE_PREFIXES.len(), prefix)]);
    if digits & 3 == 0 {
        s.push_str(FRACTIONS[pick(FRACTIONS.len(), digits)]);
    } else {
        // random digits: 1-3 / 1-3
        let n1 = 1 + (digits >> 2) % 3;
        let n2 = 1 + (digits >> 4) % 3;
        let mut d = digits >> 6;
        for _ in 0..n1 {
            s.push(char::from(b'0' + (d % 10) as u8));
            d /= 10;
        }
        s.push('/');
        for _ in 0..n2 {
            s.push(char::from(b'0' + (d % 10) as u8));
            d /= 10;
        }
    }
    s.push_str(FRACTION_SUFFIXES[pick(FRACTION_SUFFIXES.len(), suffix)]);
    s
}

fn scalar(v: u32) -> Option<char> {
    char::from_u32(v)
}

/// Resolve tokens to at most `max` scalars.
pub fn resolve(toks: &[Tok], a: &Alphabet, max: usize) -> Vec<char> {
    let mut out: Vec<char> = Vec::new();
    let push = |out: &mut Vec<char>, v: Option<u32>| {
        if let Some(c) = v.and_then(scalar) {
            out.push(c);
        }
    };
    let c = |s: u32| from_ranges(a.cons, s);
    let h = |s: u32| from_list(a.halant, s);
    let n = |s: u32| from_list(a.nukta, s);
    let ra = |s: u32| from_list(a.ra, s);
    let m = |s: u32| from_ranges(a.matra, s);
    let pb = |s: u32| from_list(a.prebase, s);
    let mk = |s: u32| from_ranges(a.marks, s);
    for t in toks {
        if out.len() >= max {
            break;
        }
        match *t {
            Tok::Block(s) => push(&mut out, from_ranges(a.blocks, s)),
            Tok::Cons(s) => push(&mut out, c(s)),
            Tok::Halant(s) => push(&mut out, h(s).or_else(|| mk(s))),
            Tok::Nukta(s) => push(&mut out, n(s).or_else(|| mk(s))),
            Tok::Ra(s) => push(&mut out, ra(s).or_else(|| c(s))),
            Tok::Matra(s) => push(&mut out, m(s)),
            Tok::PreBase(s) => push(&mut out, pb(s).or_else(|| m(s))),
            Tok::Mark(s) => push(&mut out, mk(s)),
            Tok::Special(s) => push(&mut out, from_list(a.special, s).or_else(|| c(s))),
            Tok::Joiner(s) => push(&mut out, from_list(JOINERS, s)),
            Tok::GenericMark(s) => push(&mut out, from_ranges(GENERIC_MARKS, s)),
            Tok::Vs(s) => {
                let v = match s % 8 {
                    0 | 1 => 0xFE00 + (s >> 3) % 16,
                    2 | 3 => 0xFE0E,
                    4 | 5 => 0xFE0F,
                    6 => 0xE0100 + (s >> 3) % 240,
                    _ => 0x180B + (s >> 3) % 3,
                };
                push(&mut out, Some(v));
            }
            Tok::Dotted => push(&mut out, Some(DOTTED_CIRCLE)),
            Tok::Lit(v) => push(&mut out, Some(v)),
            Tok::Fraction(p, d, x) => out.extend(fraction_text(p, d, x).chars()),
            Tok::Ascii(s) => push(&mut out, from_ranges(ASCII, s)),
            Tok::Foreign(which, s) => {
                let other = &ALPHABETS[pick(ALPHABETS.len(), which)];
                let v = if s & 1 == 0 { from_ranges(other.cons, s) } else { from_ranges(other.blocks, s) };
                push(&mut out, v);
            }
            Tok::Any(s) => {
                // half BMP, half anywhere; surrogates are mapped into the BMP private use area
                let v = if s & 1 == 0 { (s >> 1) & 0xFFFF } else { (s >> 1) % 0x110000 };
                let v = if (0xD800..0xE000).contains(&v) { v + 0x0800 } else { v };
                push(&mut out, Some(v));
            }
            Tok::Repeat(k) => {
                if let Some(&last) = out.last() {
                    for _ in 0..(k % 6) + 1 {
                        out.push(last);
                    }
                }
            }
            Tok::Syl(kind, r1, r2, r3) => {
                let seq: Vec<Option<u32>> = match kind % 20 {
                    0 => vec![c(r1), h(r2), c(r3)],
                    1 => vec![ra(r1), h(r2), c(r3)],
                    2 => vec![c(r1), h(r2), ra(r3)],
                    3 => vec![c(r1), n(r2), h(r2), c(r3)],
                    4 => vec![c(r1), h(r2), Some(ZWJ)],
                    5 => vec![c(r1), h(r2), Some(ZWNJ), c(r3)],
                    6 => vec![c(r1), pb(r2)],
                    7 => vec![c(r1), h(r2)],
                    8 => vec![if r1 & 1 == 0 { m(r2) } else { mk(r2) }],
                    9 => vec![h(r1), h(r2)],
                    10 => vec![c(r1), mk(r2), mk(r3), mk(r2)],
                    11 => vec![Some(ZWJ), Some(ZWJ), Some(ZWNJ), if r1 & 1 == 0 { Some(ZWJ) } else { h(r2) }],
                    12 => vec![c(r1), h(r2), c(r2), h(r3), c(r3), h(r1), c(r1 ^ r3), pb(r2), mk(r3)],
                    13 => vec![Some(DOTTED_CIRCLE), if r1 & 1 == 0 { m(r2) } else { mk(r2) }, h(r3)],
                    14 => {
                        if r1 & 1 == 0 {
                            vec![ra(r2), h(r3), Some(ZWJ), c(r1)]
                        } else {
                            vec![ra(r2), Some(ZWJ), h(r3), c(r1)]
                        }
                    }
                    15 => vec![c(r1), m(r2), m(r3), h(r1)],
                    16 => vec![ra(r1), h(r2), c(r3), h(r2), c(r1), pb(r3), mk(r1)],
                    17 => vec![c(r1), n(r2), m(r3), mk(r2), n(r1)],
                    18 => vec![c(r1), h(r2), c(r3), h(r2), ra(r1), h(r3)],
                    _ => vec![from_list(a.special, r1), h(r2), from_list(a.special, r3), pb(r1), mk(r2)],
                };
                for v in seq {
                    push(&mut out, v);
                }
            }
        }
    }
    out.truncate(max);
    out
}

/// The characters of an alphabet that the shapers treat specially, plus joiners and the dotted
/// circle: the inventory of the deterministic short-string sweep.
pub fn key_inventory(a: &Alphabet, reduced: bool) -> Vec<u32> {
    let mut v: Vec<u32> = Vec::new();
    let mut add = |c: Option<u32>| {
        if let Some(c) = c {
            if !v.contains(&c) && char::from_u32(c).is_some() {
                v.push(c);
            }
        }
    };
    let first = |r: &[(u32, u32)], k: u32| r.first().map(|(lo, hi)| (*lo + k).min(*hi));
    add(first(a.cons, 0));
    add(a.halant.first().copied());
    add(a.ra.first().copied());
    add(a.prebase.first().copied());
    add(Some(ZWJ));
    add(Some(ZWNJ));
    add(a.nukta.first().copied());
    add(first(a.marks, 0));
    add(first(a.matra, 0));
    add(a.special.first().copied());
    if !reduced {
        add(Some(DOTTED_CIRCLE));
        add(a.halant.get(1).copied());
        add(a.ra.get(1).copied());
        add(a.prebase.get(1).copied());
        add(first(a.cons, 5));
        add(a.special.get(1).copied());
        add(a.special.get(2).copied());
        add(first(a.marks, 1));
        add(a.matra.last().map(|(_, hi)| *hi));
    }
    v
}

/// classification helpers (for the evidence histogram)
pub fn has_halant(text: &[char]) -> bool {
    text.iter().any(|c| ALPHABETS.iter().any(|a| a.halant.contains(&(*c as u32))))
}
pub fn has_joiner(text: &[char]) -> bool {
    text.iter().any(|c| matches!(*c as u32, ZWJ | ZWNJ | CGJ))
}
pub fn has_vs(text: &[char]) -> bool {
    text.iter().any(|c| matches!(*c as u32, 0xFE00..=0xFE0F | 0xE0100..=0xE01EF))
}
pub fn in_ranges(r: &[(u32, u32)], v: u32) -> bool {
    r.iter().any(|(a, b)| (*a..=*b).contains(&v))
}
/// first scalar is a combining mark (a mark with no base)
pub fn starts_with_mark(text: &[char]) -> bool {
    use unicode_general_category::{get_general_category, GeneralCategory::*};
    text.first()
        .map(|c| matches!(get_general_category(*c), NonspacingMark | SpacingMark | EnclosingMark))
        .unwrap_or(false)
}
pub fn has_foreign(text: &[char], a: &Alphabet) -> bool {
    text.iter().any(|c| {
        let v = *c as u32;
        v > 0x7F && !in_ranges(a.blocks, v) && !matches!(v, ZWJ | ZWNJ | CGJ | DOTTED_CIRCLE | 0xFE00..=0xFE0F) && !in_ranges(GENERIC_MARKS, v)
    })
}
