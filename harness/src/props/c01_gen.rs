//! C01 generated seeds: tiny complete fonts for every table kind / format for which an
//! independent encoder exists in `fontgen` (or in the property module that owns it). The models
//! are deterministic: hand-written, or drawn from the owning module's strategy with fixed RNG
//! seeds. Where a module exposes no builder, its `check_case` is run once and the font is taken
//! from the artefact it records (the verdict of that other check is ignored here).

use crate::engine::panics;
use crate::engine::util::mix64;
use crate::engine::{CaseResult, Rec};
use crate::fontgen::basic::BasicFont;
use crate::fontgen::sfnt;
use proptest::strategy::{Strategy, ValueTree};
use proptest::test_runner::{Config, RngAlgorithm, TestRng, TestRunner};
use std::collections::{BTreeMap, BTreeSet};
use std::panic::{catch_unwind, AssertUnwindSafe};

pub struct GenSeed {
    pub name: String,
    pub bytes: Vec<u8>,
    /// user-space tuples (raw 16.16) worth instancing at (region peaks / edges of the model)
    pub tuples: Vec<Vec<i32>>,
    /// the seed carries layout tables (GSUB/GPOS/kern/morx): shape lightly
    pub shape: bool,
}

fn sample<S: Strategy>(s: &S, seed: u64) -> Option<S::Value> {
    let mut bytes = [0u8; 32];
    let mut x = mix64(seed ^ 0xC01);
    for c in bytes.chunks_mut(8) {
        x = mix64(x);
        c.copy_from_slice(&x.to_le_bytes());
    }
    let rng = TestRng::from_seed(RngAlgorithm::ChaCha, &bytes);
    let mut runner = TestRunner::new_with_rng(Config { failure_persistence: None, ..Config::default() }, rng);
    s.new_tree(&mut runner).ok().map(|t| t.current())
}

/// Run another property's case body once and return the artefacts it recorded.
fn artefacts_of(f: impl FnOnce(&mut Rec) -> CaseResult) -> Vec<(String, Vec<u8>)> {
    let mut rec = Rec::for_fuzz();
    let _ = catch_unwind(AssertUnwindSafe(|| f(&mut rec)));
    let _ = panics::take_last();
    crate::engine::alloc::disarm();
    rec.artefacts
}

fn artefact(arts: &[(String, Vec<u8>)], name: &str) -> Option<Vec<u8>> {
    arts.iter().find(|a| a.0 == name).map(|a| a.1.clone())
}

fn guarded<T>(f: impl FnOnce() -> Option<T>) -> Option<T> {
    let r = catch_unwind(AssertUnwindSafe(f)).ok().flatten();
    let _ = panics::take_last();
    r
}

// ------------------------------------------------------------------------------------------

fn cmap_seeds(out: &mut Vec<GenSeed>) {
    use super::super::c06::{build, Case, RecModel};
    let m = |pairs: &[(u32, u16)]| -> BTreeMap<u32, u16> { pairs.iter().copied().collect() };
    let ascii: Vec<(u32, u16)> = (0x41u32..0x4B).map(|c| (c, ((c - 0x40) % 3) as u16)).collect();
    let sparse = m(&[(0x20, 1), (0x41, 2), (0x42, 1), (0x61, 2), (0xE9, 1), (0x2014, 2), (0x25CC, 1), (0xFFFD, 2)]);
    let astral = m(&[(0x41, 1), (0x42, 2), (0x1F600, 1), (0x1F601, 2), (0x1F602, 1), (0x20000, 2), (0x10FFFF, 1)]);
    let big5 = m(&[(0x41, 1), (0xA440, 2), (0xA441, 1), (0xA4A1, 2), (0xC940, 1)]);
    let rec = |platform: u16, encoding: u16, format: u16, map: BTreeMap<u32, u16>, leads: &[u8]| RecModel {
        platform,
        encoding,
        format,
        map,
        extra_leads: leads.iter().copied().collect::<BTreeSet<u8>>(),
    };
    let cases: Vec<(&str, Vec<RecModel>, Option<u16>)> = vec![
        ("f0-macroman", vec![rec(1, 0, 0, m(&ascii), &[])], Some(0x20)),
        ("f2-big5", vec![rec(3, 4, 2, big5, &[0xA5])], Some(0x20)),
        ("f4-bmp", vec![rec(3, 1, 4, sparse.clone(), &[])], Some(0x20)),
        ("f4-symbol", vec![rec(3, 0, 4, m(&[(0xF020, 1), (0xF041, 2), (0xF042, 1), (0xF0FF, 2)]), &[])], Some(0xF020)),
        ("f6-unicode", vec![rec(0, 3, 6, m(&ascii), &[])], None),
        ("f10-ucs4", vec![rec(3, 10, 10, m(&[(0x1F600, 1), (0x1F601, 2), (0x1F602, 1), (0x1F604, 2)]), &[])], Some(0x20)),
        ("f12-ucs4", vec![rec(3, 10, 12, astral.clone(), &[])], Some(0x20)),
        (
            "f4-f12-f14-f0",
            vec![rec(0, 5, 14, BTreeMap::new(), &[]), rec(3, 1, 4, sparse, &[]), rec(3, 10, 12, astral, &[]), rec(1, 0, 0, m(&ascii), &[])],
            Some(0x20),
        ),
    ];
    for (i, (name, recs, first_char)) in cases.into_iter().enumerate() {
        let layout: Vec<u32> = (0..24).map(|k| mix64(i as u64 * 100 + k) as u32).collect();
        let case = Case { recs, first_char, layout, probes: Vec::new() };
        if let Some(b) = guarded(|| Some(build(&case))) {
            out.push(GenSeed { name: format!("gen:cmap-{}", name), bytes: b.font, tuples: vec![], shape: false });
        }
    }
}

fn glyf_seeds(out: &mut Vec<GenSeed>) {
    use super::super::c16;
    let mut n = 0;
    let add = |arts: Vec<(String, Vec<u8>)>, what: &str, out: &mut Vec<GenSeed>| {
        if let (Some(glyf), Some(loca), Some(long)) = (artefact(&arts, "glyf"), artefact(&arts, "loca"), artefact(&arts, "long_loca")) {
            let long = long.first() == Some(&1);
            let entries = if long { loca.len() / 4 } else { loca.len() / 2 };
            if entries < 2 || glyf.len() > 6000 || glyf.is_empty() {
                return false;
            }
            let mut f = BasicFont::with_glyphs((entries - 1) as u16);
            f.long_loca = long;
            f.cmap.insert(0x41, 1.min(entries as u16 - 2));
            f.extra.push((*b"glyf", glyf));
            f.extra.push((*b"loca", loca));
            out.push(GenSeed { name: format!("gen:glyf-{}", what), bytes: f.build(), tuples: vec![], shape: false });
            return true;
        }
        false
    };
    let s = c16::case_strategy();
    for seed in 0..40u64 {
        if n >= 3 {
            break;
        }
        if let Some(case) = sample(&s, seed) {
            if case.composites.len() < 2 {
                continue;
            }
            let arts = artefacts_of(|rec| c16::check_case(&case, rec));
            if add(arts, &format!("composites{}", n), out) {
                n += 1;
            }
        }
    }
    let s = c16::chain_strategy();
    for seed in 0..8u64 {
        if let Some(case) = sample(&s, seed) {
            let arts = artefacts_of(|rec| c16::check_case(&case, rec));
            if add(arts, "chain", out) {
                break;
            }
        }
    }
}

fn variation_seeds(out: &mut Vec<GenSeed>) {
    use super::super::c12;
    let s = c12::case_strategy();
    // (score, seed) of candidate models: prefer those that carry the most optional tables
    let mut cands: Vec<(usize, u64)> = Vec::new();
    for seed in 0..60u64 {
        if let Some(c) = sample(&s, seed) {
            if c.glyphs.len() > 6 || c.axes.len() > 3 {
                continue;
            }
            let score = c.hvar.is_some() as usize * 2 + c.mvar.is_some() as usize * 2 + c.cvar.is_some() as usize * 2 + c.with_avar as usize + c.long_gvar as usize;
            cands.push((score, seed));
        }
    }
    cands.sort_by(|a, b| b.0.cmp(&a.0).then(a.1.cmp(&b.1)));
    let mut n = 0;
    for (_, seed) in cands {
        if n >= 4 {
            break;
        }
        let case = match sample(&s, seed) {
            Some(c) => c,
            None => continue,
        };
        if let Some((font, users)) = guarded(|| Some(c12::generated_font_and_users(&case))) {
            if font.len() <= 8000 {
                let tuples: Vec<Vec<i32>> = users.into_iter().take(6).collect();
                if n < 2 {
                    // the same font with name tables that stress instance naming: family / subfamily /
                    // PostScript-name-prefix (ids 1, 2, 6, 16, 17, 25) strings that are long (the generated
                    // PostScript name is cut at 63 bytes) and not ASCII, with the multi-byte characters starting
                    // at every offset modulo 3 so that a byte-indexed cut can fall inside one; also an
                    // unpaired surrogate, an empty string and a Mac Roman record with high bytes.
                    for (k, recs) in name_stress_tables().into_iter().enumerate() {
                        if let Some((flavour, mut tabs)) = super::faults::sfnt_tables(&font) {
                            tabs.retain(|(t, _)| t != b"name");
                            tabs.push((*b"name", recs));
                            out.push(GenSeed { name: format!("gen:var-{}-names{}", n, k), bytes: sfnt::build_sfnt(flavour, &tabs), tuples: tuples.clone(), shape: false });
                        }
                    }
                }
                out.push(GenSeed { name: format!("gen:var-{}", n), bytes: font, tuples, shape: false });
                n += 1;
            }
        }
    }
}

/// name tables (format 0) whose strings stress the naming code of `variations::instance`
fn name_stress_tables() -> Vec<Vec<u8>> {
    use crate::fontgen::buf::Buf;
    // records: (platform, encoding, language, name id, raw string bytes)
    let table = |records: Vec<(u16, u16, u16, u16, Vec<u8>)>| -> Vec<u8> {
        let mut sorted = records;
        sorted.sort_by_key(|r| (r.0, r.1, r.2, r.3));
        let (mut recs, mut strings) = (Buf::new(), Buf::new());
        for (p, e, l, id, raw) in &sorted {
            recs.u16(*p).u16(*e).u16(*l).u16(*id).u16(raw.len() as u16).u16(strings.len() as u16);
            strings.bytes(raw);
        }
        let mut b = Buf::new();
        b.u16(0).u16(sorted.len() as u16).u16((6 + 12 * sorted.len()) as u16);
        b.bytes(&recs.0).bytes(&strings.0);
        b.into_vec()
    };
    let utf16 = |s: &str| -> Vec<u8> { s.encode_utf16().flat_map(|u| u.to_be_bytes()).collect() };
    let mut out = Vec::new();
    for lead in 0..3usize {
        // "a" * lead + 40 three-byte characters (+ an astral one): cut positions fall inside characters
        let long: String = "a".repeat(lead) + &"\u{5B57}".repeat(40) + "\u{1F600}" + &"\u{00E9}".repeat(30);
        let win = |id: u16, s: &str| (3u16, 1u16, 0x409u16, id, utf16(s));
        out.push(table(vec![win(1, &long), win(2, "R\u{00E9}gul\u{00E8}re"), win(6, &long), win(16, &long), win(17, &long), win(25, &long), win(256, "\u{91CD}\u{91CF}"), win(257, &long), win(258, &long)]));
    }
    // unpaired surrogates, empty strings, odd byte length, Mac Roman records with high bytes
    let mut odd = utf16(&"\u{00FC}".repeat(70));
    odd.pop();
    out.push(table(vec![
        (3, 1, 0x409, 1, vec![0xD8, 0x00, 0x00, 0x41, 0xDC, 0x00]),
        (3, 1, 0x409, 2, Vec::new()),
        (3, 1, 0x409, 6, odd.clone()),
        (3, 1, 0x409, 16, vec![0xD8, 0x3D]),
        (3, 1, 0x409, 25, odd),
        (1, 0, 0, 1, (0x80u8..=0xFF).collect()),
        (1, 0, 0, 6, (0x80u8..=0xFF).collect()),
        (1, 0, 0, 25, (0x80u8..=0xFF).collect()),
        (3, 10, 0x409, 25, utf16(&"\u{1F600}".repeat(40))),
    ]));
    out
}

fn otto_with(base: &[u8], drop: &[&[u8; 4]], add: Vec<(sfnt::Tag, Vec<u8>)>, num_glyphs: u16) -> Option<Vec<u8>> {
    let (_, mut tabs) = super::faults::sfnt_tables(base)?;
    tabs.retain(|(t, _)| !drop.iter().any(|d| *d == t) && !add.iter().any(|a| &a.0 == t));
    for (t, d) in tabs.iter_mut() {
        if &*t == b"maxp" && d.len() >= 6 {
            d[4..6].copy_from_slice(&num_glyphs.to_be_bytes());
        } else if &*t == b"hhea" && d.len() >= 36 {
            d[34..36].copy_from_slice(&1u16.to_be_bytes());
        }
    }
    tabs.extend(add);
    Some(sfnt::build_sfnt(sfnt::OTTO, &tabs))
}

fn cff_seeds(out: &mut Vec<GenSeed>) {
    use super::super::c18::{build, Case, Kind};
    let base = match crate::engine::fixtures::read("aots/base.otf") {
        Some(b) => b,
        None => return,
    };
    let mk = |kind: Kind, seed: u64, nglyphs: usize, nfd: usize, variable: bool, axes: usize, nfrags: usize, cuts: usize, off_size: u8, header_extra: u8, block_order: u8| Case {
        kind,
        seed,
        nglyphs,
        grid: 3,
        hints: true,
        width: kind != Kind::Cff2,
        free_forms: true,
        nfrags,
        cuts,
        deep: false,
        max_segs: 5,
        pad: 0,
        nfd,
        variable,
        axes,
        block_order,
        off_size,
        header_extra,
        via_sfnt: true,
    };
    let cases = vec![
        ("cff-name", mk(Kind::NameKeyed, 11, 4, 1, false, 1, 2, 1, 1, 0, 0)),
        ("cff-name-offsize3", mk(Kind::NameKeyed, 12, 3, 1, false, 1, 0, 0, 3, 2, 1)),
        ("cff-cid-a", mk(Kind::Cid, 21, 5, 2, false, 1, 2, 2, 1, 0, 0)),
        ("cff-cid-b", mk(Kind::Cid, 22, 6, 3, false, 1, 1, 1, 2, 0, 2)),
        ("cff2-static", mk(Kind::Cff2, 31, 4, 2, false, 1, 2, 1, 1, 0, 0)),
        ("cff2-var1", mk(Kind::Cff2, 32, 4, 1, true, 1, 1, 1, 1, 0, 0)),
        ("cff2-var2", mk(Kind::Cff2, 33, 5, 2, true, 2, 2, 2, 2, 0, 1)),
    ];
    for (name, case) in cases {
        let built = match guarded(|| Some(build(&case))) {
            Some(b) => b,
            None => continue,
        };
        let n = built.glyphs.len() as u16;
        let font = if case.kind == Kind::Cff2 {
            let mut add = vec![(*b"CFF2", built.table.clone())];
            let mut tuples = Vec::new();
            if case.variable {
                let tags = [*b"wght", *b"wdth", *b"opsz"];
                let axes: Vec<crate::fontgen::var::AxisModel> = (0..case.axes)
                    .map(|i| crate::fontgen::var::AxisModel { tag: tags[i % 3], min: 100 << 16, default: 400 << 16, max: 900 << 16, flags: 0, name_id: 256 + i as u16 })
                    .collect();
                add.push((*b"fvar", crate::fontgen::var::fvar_table(&axes, &[], 0)));
                // the instance the owning check visits (normalised 2.14 -> user space)
                let user: Vec<i32> = built
                    .tuple
                    .iter()
                    .map(|t| {
                        let t = *t as i64;
                        let v = if t >= 0 { (400i64 << 16) + (500i64 << 16) * t / 16384 } else { (400i64 << 16) + (300i64 << 16) * t / 16384 };
                        v as i32
                    })
                    .collect();
                tuples.push(user);
            }
            otto_with(&base, &[b"CFF "], add, n).map(|f| (f, tuples))
        } else {
            otto_with(&base, &[], vec![(*b"CFF ", built.table.clone())], n).map(|f| (f, Vec::new()))
        };
        if let Some((bytes, tuples)) = font {
            if bytes.len() <= 16000 {
                out.push(GenSeed { name: format!("gen:{}", name), bytes, tuples, shape: false });
            }
        }
    }
}

fn layout_seeds(out: &mut Vec<GenSeed>) {
    use super::super::{c04, c05};
    // GSUB (+ GDEF, FeatureVariations)
    let s = c04::case_strategy();
    let mut cands: Vec<(usize, u64)> = Vec::new();
    for seed in 0..40u64 {
        if let Some(c) = sample(&s, seed) {
            let score = c.fv.is_some() as usize * 3 + c.lookups.len().min(6);
            cands.push((score, seed));
        }
    }
    cands.sort_by(|a, b| b.0.cmp(&a.0).then(a.1.cmp(&b.1)));
    let mut n = 0;
    for (_, seed) in cands {
        if n >= 3 {
            break;
        }
        if let Some(case) = sample(&s, seed) {
            let arts = artefacts_of(|rec| c04::check_case(&case, rec));
            if let Some(font) = artefact(&arts, "font") {
                if font.len() <= 8000 {
                    out.push(GenSeed { name: format!("gen:gsub-{}", n), bytes: font, tuples: vec![], shape: true });
                    n += 1;
                }
            }
        }
    }
    // GPOS / kern: entropy tapes and the owning module's pinned minimal programs
    let mut n = 0;
    for seed in 0..24u64 {
        if n >= 4 {
            break;
        }
        let data: Vec<u8> = (0..4096u64).map(|i| (mix64(seed * 1_000_003 + i / 8) >> ((i % 8) * 8)) as u8).collect();
        let tape = c05::tape_from_bytes(&data);
        let arts = artefacts_of(|rec| c05::check_case(&tape, rec));
        if let Some(font) = artefact(&arts, "font") {
            if font.len() <= 8000 {
                let has = |t: &[u8; 4]| sfnt::find_table(&font, t).is_some();
                // want both GPOS and kern carriers among the chosen ones
                if n < 2 || has(b"kern") {
                    out.push(GenSeed { name: format!("gen:gpos-{}{}", n, if has(b"kern") { "-kern" } else { "" }), bytes: font, tuples: vec![], shape: true });
                    n += 1;
                }
            }
        }
    }
    for k in [0u32, 3, 7, 11] {
        let arts = artefacts_of(|rec| {
            let p = c05::pinned_case(k);
            c05::check_program(&p, rec)
        });
        if let Some(font) = artefact(&arts, "font") {
            if font.len() <= 8000 {
                out.push(GenSeed { name: format!("gen:gpos-pinned{}", k), bytes: font, tuples: vec![], shape: true });
            }
        }
    }
    // C02's hand-built fonts (morx-only, kern-only, rvrn variable font, ...)
    if let Some(set) = guarded(|| Some(super::super::c02::fonts())) {
        let mut n = 0;
        for g in &set.groups {
            for e in g {
                if e.synthetic && e.bytes.len() <= 16000 && n < 8 {
                    let name = e.name.replace(' ', "_");
                    if out.iter().any(|s| s.bytes == e.bytes) {
                        continue;
                    }
                    out.push(GenSeed { name: format!("gen:c02:{}", name), bytes: e.bytes.clone(), tuples: vec![], shape: true });
                    n += 1;
                }
            }
        }
    }
}

fn container_seeds(out: &mut Vec<GenSeed>) {
    use super::super::{c10, c11};
    // WOFF2 with transformed glyf / hmtx, collections
    let s = c11::case_strategy();
    let mut plain = 0;
    let mut coll = 0;
    for seed in 0..60u64 {
        if plain >= 2 && coll >= 2 {
            break;
        }
        if let Some(case) = sample(&s, seed) {
            let arts = artefacts_of(|rec| c11::check_case(&case, rec));
            if let Some(bytes) = artefact(&arts, "woff2") {
                if bytes.len() > 6000 || bytes.len() < 60 {
                    continue;
                }
                let is_coll = bytes.get(4..8) == Some(&b"ttcf"[..]);
                if is_coll && coll < 2 {
                    out.push(GenSeed { name: format!("gen:woff2-coll{}", coll), bytes, tuples: vec![], shape: false });
                    coll += 1;
                } else if !is_coll && plain < 2 {
                    out.push(GenSeed { name: format!("gen:woff2-xf{}", plain), bytes, tuples: vec![], shape: false });
                    plain += 1;
                }
            }
        }
    }
    // TTC v1/v2 and WOFF with metadata / private blocks (arbitrary table contents)
    for (kind, label) in [(c10::Kind::Ttc, "ttc"), (c10::Kind::Woff, "woff")] {
        let s = c10::case_strategy(kind);
        let mut n = 0;
        for seed in 0..30u64 {
            if n >= 2 {
                break;
            }
            if let Some(case) = sample(&s, seed) {
                let arts = artefacts_of(|rec| c10::check_case(&case, rec));
                if let Some(bytes) = artefact(&arts, "file") {
                    if bytes.len() <= 6000 && bytes.len() >= 60 {
                        out.push(GenSeed { name: format!("gen:c10-{}{}", label, n), bytes, tuples: vec![], shape: false });
                        n += 1;
                    }
                }
            }
        }
    }
}

// ------------------------------------------------------------------------------------------
// embedded bitmaps: EBLC/EBDT and CBLC/CBDT written from the OpenType specification

struct SubSpec {
    index_format: u16,
    image_format: u16,
    glyphs: Vec<u16>,
}

fn bitmap_image(image_format: u16, depth: u32, salt: u8) -> Vec<u8> {
    let (w, h) = (5u32, 4u32);
    let small = [h as u8, w as u8, 1, 4, 6];
    let big = [h as u8, w as u8, 1, 4, 6, 0xFD, 1, 7];
    let byte_aligned = (h * ((w * depth + 7) / 8)) as usize;
    let bit_aligned = ((h * w * depth + 7) / 8) as usize;
    let fill = |n: usize| -> Vec<u8> { (0..n).map(|i| (i as u8).wrapping_mul(37).wrapping_add(salt)).collect() };
    let png: Vec<u8> = [&[0x89u8, b'P', b'N', b'G', 0x0D, 0x0A, 0x1A, 0x0A][..], &fill(9)[..]].concat();
    let mut v = Vec::new();
    match image_format {
        1 => {
            v.extend_from_slice(&small);
            v.extend(fill(byte_aligned));
        }
        2 => {
            v.extend_from_slice(&small);
            v.extend(fill(bit_aligned));
        }
        5 => v.extend(fill(bit_aligned)),
        6 => {
            v.extend_from_slice(&big);
            v.extend(fill(byte_aligned));
        }
        7 => {
            v.extend_from_slice(&big);
            v.extend(fill(bit_aligned));
        }
        8 => {
            v.extend_from_slice(&small);
            v.push(0);
            v.extend_from_slice(&[0, 2, 0, 1, 0, 0, 0, 2, 3, 0xFF]);
        }
        9 => {
            v.extend_from_slice(&big);
            v.extend_from_slice(&[0, 2, 0, 1, 0, 0, 0, 2, 3, 0xFF]);
        }
        17 => {
            v.extend_from_slice(&small);
            v.extend_from_slice(&(png.len() as u32).to_be_bytes());
            v.extend(png);
        }
        18 => {
            v.extend_from_slice(&big);
            v.extend_from_slice(&(png.len() as u32).to_be_bytes());
            v.extend(png);
        }
        _ => {
            v.extend_from_slice(&(png.len() as u32).to_be_bytes());
            v.extend(png);
        }
    }
    v
}

/// (location table, data table) for strikes given as (ppem, bit depth, index sub-tables)
fn bitmap_tables(color: bool, strikes: &[(u8, u8, Vec<SubSpec>)]) -> (Vec<u8>, Vec<u8>) {
    use crate::fontgen::buf::Buf;
    let major = if color { 3 } else { 2 };
    let mut dat = Buf::new();
    dat.u16(major).u16(0);
    let big = [4u8, 5, 1, 4, 6, 0xFD, 1, 7];
    // index sub-table arrays and sub-tables per strike
    let mut arrays: Vec<Vec<u8>> = Vec::new();
    for (_, depth, subs) in strikes {
        let mut array = Buf::new();
        let mut bodies = Buf::new();
        let array_len = 8 * subs.len();
        for sp in subs {
            let first = *sp.glyphs.first().unwrap_or(&0);
            let last = *sp.glyphs.last().unwrap_or(&0);
            array.u16(first).u16(last).u32((array_len + bodies.len()) as u32);
            let image_data_offset = dat.len() as u32;
            let images: Vec<Vec<u8>> = sp.glyphs.iter().map(|g| bitmap_image(sp.image_format, *depth as u32, *g as u8)).collect();
            bodies.u16(sp.index_format).u16(sp.image_format).u32(image_data_offset);
            match sp.index_format {
                1 | 3 => {
                    // one offset per glyph id of the range; ids without an image repeat the offset
                    let mut off = 0u32;
                    let mut k = 0usize;
                    let mut offs = Vec::new();
                    for g in first..=last {
                        offs.push(off);
                        if sp.glyphs.get(k) == Some(&g) {
                            off += images[k].len() as u32;
                            k += 1;
                        }
                    }
                    offs.push(off);
                    for o in offs {
                        if sp.index_format == 1 {
                            bodies.u32(o);
                        } else {
                            bodies.u16(o as u16);
                        }
                    }
                    bodies.pad_to(4);
                }
                2 => {
                    bodies.u32(images[0].len() as u32).bytes(&big);
                }
                4 => {
                    bodies.u32(sp.glyphs.len() as u32);
                    let mut off = 0u16;
                    for (g, im) in sp.glyphs.iter().zip(&images) {
                        bodies.u16(*g).u16(off);
                        off += im.len() as u16;
                    }
                    bodies.u16(0).u16(off);
                }
                _ => {
                    bodies.u32(images[0].len() as u32).bytes(&big).u32(sp.glyphs.len() as u32);
                    for g in &sp.glyphs {
                        bodies.u16(*g);
                    }
                    bodies.pad_to(4);
                }
            }
            for im in &images {
                dat.bytes(im);
            }
        }
        array.bytes(&bodies.0);
        arrays.push(array.into_vec());
    }
    let mut loc = Buf::new();
    loc.u16(major).u16(0).u32(strikes.len() as u32);
    let mut at = 8 + 48 * strikes.len();
    for ((ppem, depth, subs), array) in strikes.iter().zip(&arrays) {
        let first = subs.iter().filter_map(|s| s.glyphs.first()).min().copied().unwrap_or(0);
        let last = subs.iter().filter_map(|s| s.glyphs.last()).max().copied().unwrap_or(0);
        loc.u32(at as u32).u32(array.len() as u32).u32(subs.len() as u32).u32(0);
        for _ in 0..2 {
            // SbitLineMetrics
            loc.i8(10).i8(-3).u8(12).i8(1).i8(0).i8(0).i8(0).i8(1).i8(9).i8(-2).i8(0).i8(0);
        }
        loc.u16(first).u16(last).u8(*ppem).u8(*ppem).u8(*depth).i8(1);
        at += array.len();
    }
    for a in &arrays {
        loc.bytes(a);
    }
    (loc.into_vec(), dat.into_vec())
}

fn bitmap_seeds(out: &mut Vec<GenSeed>) {
    let sub = |index_format: u16, image_format: u16, glyphs: &[u16]| SubSpec { index_format, image_format, glyphs: glyphs.to_vec() };
    let mono = vec![
        sub(1, 1, &[1, 2]),
        sub(3, 2, &[3, 4]),
        sub(2, 5, &[5, 6]),
        sub(4, 6, &[7, 8]),
        sub(5, 5, &[9, 10]),
        sub(1, 7, &[11]),
        sub(3, 8, &[12]),
        sub(1, 9, &[13]),
    ];
    let grey = vec![sub(1, 6, &[1, 2]), sub(3, 2, &[3, 5]), sub(5, 5, &[7, 9])];
    let (eblc, ebdt) = bitmap_tables(false, &[(12, 1, mono), (20, 8, grey), (24, 4, vec![sub(1, 7, &[1, 2, 3])]), (28, 2, vec![sub(3, 1, &[1, 2])])]);
    let mut f = BasicFont::with_glyphs(15);
    for i in 0..14u32 {
        f.cmap.insert(0x41 + i, (i + 1) as u16);
    }
    f.extra.push((*b"EBLC", eblc));
    f.extra.push((*b"EBDT", ebdt));
    out.push(GenSeed { name: "gen:bitmap-ebdt".into(), bytes: f.build(), tuples: vec![], shape: false });
    let colour = vec![sub(1, 17, &[1, 2]), sub(3, 18, &[3, 4]), sub(2, 19, &[5, 6]), sub(5, 19, &[7, 9]), sub(4, 17, &[10, 11]), sub(1, 1, &[12]), sub(3, 6, &[13])];
    let (cblc, cbdt) = bitmap_tables(true, &[(32, 32, colour), (64, 32, vec![sub(1, 18, &[1, 2, 3])])]);
    let mut f = BasicFont::with_glyphs(15);
    for i in 0..14u32 {
        f.cmap.insert(0x41 + i, (i + 1) as u16);
    }
    f.cmap.insert(0x1F600, 5);
    f.extra.push((*b"CBLC", cblc));
    f.extra.push((*b"CBDT", cbdt));
    out.push(GenSeed { name: "gen:bitmap-cbdt".into(), bytes: f.build(), tuples: vec![], shape: false });
}

// ------------------------------------------------------------------------------------------
// reference cycles: every place where font data names other records of the same kind

/// sbix table: per strike (ppem, glyph records); a record is (graphic type, data) or None
fn sbix_table(strikes: &[(u16, Vec<Option<([u8; 4], Vec<u8>)>>)]) -> Vec<u8> {
    use crate::fontgen::buf::Buf;
    let mut bodies: Vec<Vec<u8>> = Vec::new();
    for (ppem, glyphs) in strikes {
        let mut b = Buf::new();
        b.u16(*ppem).u16(72);
        let mut off = 4 + 4 * (glyphs.len() as u32 + 1);
        let mut data = Buf::new();
        for g in glyphs {
            b.u32(off);
            if let Some((ty, d)) = g {
                data.i16(0).i16(0).tag(ty).bytes(d);
                off += 8 + d.len() as u32;
            }
        }
        b.u32(off);
        b.bytes(&data.0);
        bodies.push(b.into_vec());
    }
    let mut t = Buf::new();
    t.u16(1).u16(1).u32(strikes.len() as u32);
    let mut off = 8 + 4 * strikes.len();
    for b in &bodies {
        t.u32(off as u32);
        off += b.len();
    }
    for b in &bodies {
        t.bytes(b);
    }
    t.into_vec()
}

fn cycle_seeds(out: &mut Vec<GenSeed>) {
    use super::faults::{call_gsubr, cff_index, cff_table, glyf_composite, gvar_empty, rewire, wght_axis, with_cff};
    use crate::fontgen::buf::Buf;
    let plain = |name: &str, bytes: Vec<u8>, shape: bool| GenSeed { name: name.to_string(), bytes, tuples: vec![], shape };

    // sbix `dupe` records: 2-cycle, 3-cycle, chain to a bitmap, chain out of range, self, chain
    // to an empty record, truncated dupe data
    {
        let png: Vec<u8> = vec![0x89, b'P', b'N', b'G', 0x0D, 0x0A, 0x1A, 0x0A, 1, 2, 3, 4];
        let dupe = |g: u16| Some((*b"dupe", g.to_be_bytes().to_vec()));
        let glyphs = vec![
            None,
            Some((*b"png ", png.clone())),
            dupe(3),
            dupe(2),
            dupe(5),
            dupe(6),
            dupe(4),
            dupe(8),
            dupe(1),
            dupe(0xFFF0),
            dupe(10),
            dupe(12),
            None,
            Some((*b"dupe", vec![0])),
        ];
        let mut second = glyphs.clone();
        second[2] = dupe(4); // 2 -> 4 -> 5 -> 6 -> 4
        let mut f = BasicFont::with_glyphs(14);
        for i in 0..13u32 {
            f.cmap.insert(0x41 + i, (i + 1) as u16);
        }
        f.extra.push((*b"sbix", sbix_table(&[(20, glyphs), (40, second)])));
        out.push(plain("gen:sbix-dupe-cycles", f.build(), false));
    }

    // composite glyphs: 2- and 3-cycles, also reached only through a second-level component;
    // static and variable (instancing recomputes composite bounding boxes)
    for variable in [false, true] {
        let mut c = BasicFont::with_glyphs(12);
        c.cmap.insert(0x41, 11);
        c.glyph_records[2] = glyf_composite(&[(3, 0, 0)]);
        c.glyph_records[3] = glyf_composite(&[(1, 0, 0), (2, 1, 1)]);
        c.glyph_records[4] = glyf_composite(&[(5, 0, 0)]);
        c.glyph_records[5] = glyf_composite(&[(6, 0, 0)]);
        c.glyph_records[6] = glyf_composite(&[(1, 2, 2), (4, 0, 0)]);
        c.glyph_records[7] = glyf_composite(&[(8, 0, 0)]);
        c.glyph_records[8] = glyf_composite(&[(1, 0, 0), (2, 0, 0)]);
        c.glyph_records[9] = glyf_composite(&[(10, 0, 0)]);
        c.glyph_records[10] = glyf_composite(&[(4, 0, 0)]);
        c.glyph_records[11] = glyf_composite(&[(1, 0, 0), (7, 0, 0), (9, 3, 3)]);
        if variable {
            c.extra.push((*b"fvar", crate::fontgen::var::fvar_table(&wght_axis(), &[], 0)));
            c.extra.push((*b"gvar", gvar_empty(1, 12)));
        }
        out.push(plain(if variable { "gen:composite-cycles-var" } else { "gen:composite-cycles" }, c.build(), false));
    }

    if let Some(base) = crate::engine::fixtures::read("aots/base.otf") {
        // CFF: two seac glyphs naming each other (Standard Encoding 32 = space = glyph 1,
        // 33 = exclam = glyph 2 under the ISOAdobe charset)
        let notdef = vec![139 + 50, 139, 139, 21, 139 + 30, 139, 5, 14];
        let seac = |code: u8| vec![139, 139, 139 + code, 139 + code, 14];
        if let Some(b) = with_cff(&base, cff_table(&[], &[notdef.clone(), seac(33), seac(32), seac(34), seac(32)]), 5) {
            out.push(plain("gen:cff-seac-mutual", b, false));
        }
        // CFF: global subroutines calling each other (0 <-> 1, 2 -> 2)
        let g0 = [call_gsubr(1, 1), vec![11]].concat();
        let g1 = [call_gsubr(0, 1), vec![11]].concat();
        let g2 = [call_gsubr(2, 1), vec![11]].concat();
        let glyph = |i: i32| [vec![139, 139, 21], call_gsubr(i, 1), vec![14]].concat();
        if let Some(b) = with_cff(&base, cff_table(&[g0, g1, g2], &[notdef.clone(), glyph(0), glyph(2)]), 3) {
            out.push(plain("gen:cff-gsubr-cycle", b, false));
        }
        // CFF with a local subroutine calling a global one that calls it back: Private DICT
        // with a Subrs operator, Local Subr INDEX directly behind the Private DICT
        {
            let call_local = |idx: i32| vec![(idx - 107 + 139) as u8, 10];
            let gs = cff_index(&[[call_local(0), vec![11]].concat()]);
            let ls = cff_index(&[[call_gsubr(0, 1), vec![11]].concat(), vec![11]]);
            let cs = cff_index(&[notdef.clone(), [vec![139, 139, 21], call_local(0), vec![14]].concat(), [vec![139, 139, 21], call_local(1), vec![14]].concat()]);
            let name = cff_index(&[b"Gen".to_vec()]);
            let strings = cff_index(&[]);
            let int5 = |b: &mut Buf, v: i32| {
                b.u8(29).i32(v);
            };
            let cs_off = 4 + name.len() + (2 + 1 + 4 + 17) + strings.len() + gs.len();
            let private_off = cs_off + cs.len();
            let mut td = Buf::new();
            int5(&mut td, cs_off as i32);
            td.u8(17);
            int5(&mut td, 8);
            int5(&mut td, private_off as i32);
            td.u8(18);
            let mut t = Buf::new();
            t.u8(1).u8(0).u8(4).u8(2);
            t.bytes(&name).bytes(&cff_index(&[td.into_vec()])).bytes(&strings).bytes(&gs).bytes(&cs);
            // Private DICT (8 bytes): defaultWidthX 0, Subrs 8
            t.u8(139).u8(20);
            int5(&mut t, 8);
            t.u8(19);
            t.bytes(&ls);
            if let Some(b) = with_cff(&base, t.into_vec(), 3) {
                out.push(plain("gen:cff-local-global-cycle", b, false));
            }
        }
        // CFF2 with the same local <-> global cycle (no return / endchar operators in CFF2)
        {
            let index32 = |objs: &[Vec<u8>]| -> Vec<u8> {
                let mut b = Buf::new();
                b.u32(objs.len() as u32);
                if objs.is_empty() {
                    return b.into_vec();
                }
                b.u8(1);
                let mut off = 1u8;
                b.u8(off);
                for o in objs {
                    off += o.len() as u8;
                    b.u8(off);
                }
                for o in objs {
                    b.bytes(o);
                }
                b.into_vec()
            };
            let call_local = |idx: i32| vec![(idx - 107 + 139) as u8, 10];
            let gs = index32(&[call_local(0)]);
            let ls = index32(&[call_gsubr(0, 1), vec![139, 139, 21]]);
            let cs = index32(&[vec![139, 139, 21], [vec![139, 139, 21], call_local(0)].concat(), [vec![139, 139, 21], call_local(1)].concat()]);
            let int5 = |b: &mut Buf, v: i32| {
                b.u8(29).i32(v);
            };
            // layout: header(5) topdict(13) gsubrs charstrings fdarray privatedict localsubrs
            let top_len = 13usize;
            let cs_off = 5 + top_len + gs.len();
            let fda_off = cs_off + cs.len();
            // Font DICT: Private size(5) offset(5) op(1) = 11 bytes
            let fd_len = 11usize;
            let fda_len = 4 + 1 + 2 + fd_len;
            let priv_off = fda_off + fda_len;
            let mut fd = Buf::new();
            int5(&mut fd, 6);
            int5(&mut fd, priv_off as i32);
            fd.u8(18);
            let mut t = Buf::new();
            t.u8(2).u8(0).u8(5).u16(top_len as u16);
            int5(&mut t, cs_off as i32);
            t.u8(17);
            int5(&mut t, fda_off as i32);
            t.u8(12).u8(36);
            t.bytes(&gs).bytes(&cs).bytes(&index32(&[fd.into_vec()]));
            // Private DICT (6 bytes): Subrs 6
            int5(&mut t, 6);
            t.u8(19);
            t.bytes(&ls);
            if let Some(b) = otto_with(&base, &[b"CFF "], vec![(*b"CFF2", t.into_vec())], 3) {
                out.push(plain("gen:cff2-local-global-cycle", b, false));
            }
        }
    }

    // nested lookups naming each other: rewire the sequence lookup records of generated GSUB /
    // GPOS fonts (2-cycle, 3-cycle, self reference) with my own reader of the contextual formats
    let sources: Vec<(String, Vec<u8>)> = out
        .iter()
        .filter(|s| s.name.starts_with("gen:gsub-") || s.name.starts_with("gen:gpos-") || s.name.starts_with("gen:c02:"))
        .map(|s| (s.name.clone(), s.bytes.clone()))
        .collect();
    let mut made = 0;
    for (name, bytes) in sources {
        for (n, label) in [(2usize, "cycle2"), (3, "cycle3"), (1, "self")] {
            if made >= 12 {
                break;
            }
            let mut b = bytes.clone();
            // kinds are tried in turn until one rewires something
            let mut done = false;
            for kind_r in [0u32, 0x5555_5555, 0xAAAA_AAAA, 0xFFFF_FFFF] {
                let mut c = bytes.clone();
                let desc = rewire(&mut c, kind_r, &vec![0u32, 0x8000_0000, 0xFFFF_FFFF][..n], None);
                if (desc.starts_with("rewire gsub-lookup:") || desc.starts_with("rewire gpos-lookup:")) && desc.matches("->").count() == n && c != bytes {
                    b = c;
                    done = true;
                    break;
                }
            }
            if done {
                out.push(plain(&format!("gen:lookup-{}:{}", label, name.trim_start_matches("gen:")), b, true));
                made += 1;
            }
        }
    }
}

/// All generated seeds of this module, in a fixed order.
pub fn all() -> Vec<GenSeed> {
    let mut out = Vec::new();
    panics::set_quiet(true);
    for f in [cmap_seeds, glyf_seeds, variation_seeds, cff_seeds, layout_seeds, container_seeds, bitmap_seeds, cycle_seeds] {
        let before = out.len();
        if catch_unwind(AssertUnwindSafe(|| f(&mut out))).is_err() {
            out.truncate(before);
        }
        let _ = panics::take_last();
    }
    panics::set_quiet(false);
    crate::engine::alloc::disarm();
    out
}
