// (included into c15_tt.rs) deterministic field-width edge cases (relation (c)), fixtures, run()

fn s(len: u32, seed: u8) -> StrM {
    StrM { len, seed }
}
fn nrec(i: u16, len: u32) -> NameRecM {
    NameRecM { ids: [3, 1, 0x409, i], s: s(len, i as u8) }
}

/// the writer must refuse (`Err`); an `Ok` is reported as a truncation with the given signature
fn must_refuse(sig: &str, r: Result<Vec<u8>, WriteError>, what: &str) -> CaseResult {
    match r {
        Err(_) => Ok(()),
        Ok(b) => Err(fail(sig, format!("{} was written ({} bytes: {})", what, b.len(), hexs(&b)))),
    }
}

const N_EDGES: u64 = 30;

fn check_edge(i: u64, rec: &mut Rec) -> CaseResult {
    rec.nontrivial();
    rec.hash_u64(i);
    let name = |recs: Vec<NameRecM>, langs: Vec<StrM>, rec: &mut Rec| check_name_owned(&NameM { recs, langs, gap: 0, layout: 0 }, rec);
    match i {
        // ---- name (owned): string offsets and lengths around 64K
        0 => name(vec![nrec(1, 40000), nrec(2, 30000)], vec![], rec), // second offset 40000, data past 64K: representable
        1 => name(vec![nrec(1, 40000), nrec(2, 30000), nrec(3, 10)], vec![], rec), // third offset 70000
        2 => name(vec![nrec(1, 65536)], vec![], rec),
        3 => name(vec![nrec(1, 65535), nrec(2, 1)], vec![], rec), // second offset 65535: representable
        4 => name(vec![nrec(1, 65535), nrec(2, 1), nrec(3, 0)], vec![], rec), // third offset 65536
        5 => name((0..5460).map(|k| nrec(k as u16, 0)).collect(), vec![], rec), // header 65526
        6 => name((0..5461).map(|k| nrec(k as u16, 0)).collect(), vec![], rec), // header 65538 → stringOffset overflow
        7 => name((0..65536u32).map(|k| nrec(k as u16, 0)).collect(), vec![], rec),
        8 => name(vec![nrec(1, 65000)], vec![s(500, 1), s(100, 2)], rec), // lang tag offsets 65000, 65500
        9 => name(vec![nrec(1, 65000)], vec![s(600, 1), s(100, 2)], rec), // second lang tag offset 65600
        10 => name(vec![], vec![s(65536, 1)], rec),
        // ---- name (borrowed): stringOffset past 64K
        11 => {
            let m = NameM { recs: (0..5461).map(|k| nrec(k as u16, 0)).collect(), langs: vec![], gap: 0, layout: 0 };
            // build the records with my encoder; stringOffset does not fit, the table is read with a wrapped offset — only the writer matters here
            let raw = enc_name(&m);
            let t = ReadScope::new(&raw).read::<NameTable<'_>>().map_err(|e| fail("name:parse", format!("{:?}", e)))?;
            rec.class("edge:name-borrowed-stringOffset>64K");
            must_refuse("name:stringOffset-truncated", wb::<NameTable<'_>, _>(&t), "a name table whose string storage starts at 65538")
        }
        // ---- post
        12 => {
            let idx = vec![0u8; 2 * 65536];
            let v = PostTable {
                header: PostHeader { version: 0x0002_0000, italic_angle: 0, underline_position: 0, underline_thickness: 0, is_fixed_pitch: 0, min_mem_type_42: 0, max_mem_type_42: 0, min_mem_type_1: 0, max_mem_type_1: 0 },
                opt_sub_table: Some(SubTable { glyph_name_index: u16_array(&idx), names: vec![] }),
            };
            rec.class("edge:post-65536-glyphs");
            must_refuse("post:numGlyphs-truncated", wb::<PostTable<'_>, _>(&v), "a post table with 65536 glyph name indices")
        }
        // ---- loca (owned, short)
        13 => {
            for (offs, ok) in [(vec![0u32, 0x1FFFE], true), (vec![0, 0x20000], false), (vec![0, 3, 6], false), (vec![0x20000, 4], false), (vec![0, 0x1FFFF], false)] {
                let m = LocaM { offsets: offs, short: true };
                check_loca(&m, rec)?;
                let _ = ok;
            }
            Ok(())
        }
        // ---- cmap format 4 (owned): segment count and length
        14 | 15 | 16 | 17 => {
            let (nseg, ngia) = match i {
                14 => (32768usize, 0usize), // segCountX2 = 65536
                15 => (8190, 0),             // length 65536
                16 => (8189, 0),             // length 65528: representable
                _ => (3, 32768),             // glyphIdArray pushes the length past 64K
            };
            let segs: Vec<(u16, u16, i16, u16)> = (0..nseg).map(|k| if k + 1 == nseg { (0xFFFF, 0xFFFF, 1, 0) } else { ((2 * k) as u16, (2 * k) as u16, 1, 0) }).collect();
            let m = CmapSubM::F4 { lang: 0, segs, gia: vec![7; ngia] };
            rec.class(if sub_fits(&m) { "edge:cmap4-largest-representable" } else { "edge:cmap4-overflow" });
            let ov = owned_sub(&m);
            match wb::<ocmap::CmapSubtable, _>(ov) {
                Err(_) if !sub_fits(&m) => Ok(()),
                Err(e) => Err(fail("cmap-owned:refused-representable", format!("{:?} for {} segments", e, nseg))),
                Ok(b) => {
                    let (dec, _) = dec_cmap_sub(&b).map_err(|e| fail("cmap-owned:format4-truncated", format!("{} segments, {} glyph ids: written table undecodable: {}; header {}", nseg, ngia, e, hexs(&b[..b.len().min(16)]))))?;
                    if dec != m {
                        return Err(fail("cmap-owned:format4-truncated", format!("{} segments, {} glyph ids: written table differs (header {})", nseg, ngia, hexs(&b[..16]))));
                    }
                    Ok(())
                }
            }
        }
        // ---- cmap format 4 (borrowed) with zero segments: parses, must be writable and stable
        18 => {
            let m = CmapSubM::F4 { lang: 0, segs: vec![], gia: vec![] };
            let raw = enc_cmap_sub(&m);
            rec.class("edge:cmap4-zero-segments");
            let g2 = stable!("cmap", &raw, |d| ReadScope::new(d).read::<CmapSubtable<'_>>(), |t| wb::<CmapSubtable<'_>, _>(t), |a, b| if a.to_owned() == b.to_owned() { Ok(()) } else { Err("to_owned differs".to_string()) });
            let (dec, _) = dec_cmap_sub(&g2).map_err(|e| fail("cmap:written-undecodable", e))?;
            if dec != m {
                return Err(fail("cmap:written-differs", format!("{:?}", dec)));
            }
            Ok(())
        }
        // ---- cmap format 6 (owned)
        19 => check_cmap_sub(&CmapSubM::F6 { lang: 0, first: 0, gids: vec![1; 32762] }, rec), // length 65534
        20 => check_cmap_sub(&CmapSubM::F6 { lang: 0, first: 0, gids: vec![1; 32763] }, rec), // length 65536
        21 => check_cmap_sub(&CmapSubM::F6 { lang: 0, first: 0, gids: vec![1; 65536] }, rec),
        // ---- cmap with 65536 encoding records
        22 => {
            let sub = ocmap::CmapSubtable::Format6 { language: 0, first_code: 0, glyph_id_array: vec![] };
            let v = ocmap::Cmap { encoding_records: (0..65536u32).map(|k| ocmap::EncodingRecord { platform_id: PlatformId(0), encoding_id: EncodingId(k as u16), sub_table: sub.clone() }).collect() };
            rec.class("edge:cmap-65536-records");
            must_refuse("cmap-table:numTables-truncated", wb::<ocmap::Cmap, _>(v), "a cmap with 65536 encoding records")
        }
        // ---- glyph instruction length
        23 | 24 => {
            let n = if i == 23 { 65535usize } else { 65536 };
            let instr = vec![0x4Bu8; n];
            let sm = GlyphM::Simple(SimpleM { bbox: [0; 4], contours: vec![1], instr: instr.clone(), pts: vec![(1, 2, true)], enc: 0 });
            let cm = GlyphM::Composite(CompM {
                bbox: [0; 4],
                parts: vec![
                    CompPartM { gid: 1, args: ArgM::I8(0, 0), scale: ScaleM::None, extra: 0, instr: true, reserved: 0 },
                    CompPartM { gid: 2, args: ArgM::I8(0, 0), scale: ScaleM::None, extra: 0, instr: false, reserved: 0 },
                ],
                instr,
            });
            rec.class(if n == 65535 { "edge:glyph-65535-instruction-bytes" } else { "edge:glyph-65536-instruction-bytes" });
            for m in [sm, cm] {
                let r = wb::<Glyph<'_>, _>(glyph_value(&m));
                if n == 65536 {
                    must_refuse("glyph:instructionLength-truncated", r, "a glyph with 65536 instruction bytes")?;
                } else {
                    let b = r.map_err(|e| fail("glyph:refused-representable", format!("{:?} for 65535 instruction bytes", e)))?;
                    if dec_glyph(&b).ok() != Some(normal(&m)) {
                        return Err(fail("glyph:written-differs", "glyph with 65535 instruction bytes".into()));
                    }
                }
            }
            Ok(())
        }
        // ---- glyph contour count
        25 | 26 => {
            let n = if i == 25 { 32767u32 } else { 32768 };
            let m = GlyphM::Simple(SimpleM { bbox: [0; 4], contours: vec![1; n as usize], instr: vec![], pts: (0..n).map(|k| ((k % 100) as i16, 0, true)).collect(), enc: 0 });
            rec.class(if n == 32767 { "edge:glyph-32767-contours" } else { "edge:glyph-32768-contours" });
            let r = wb::<Glyph<'_>, _>(glyph_value(&m));
            if n == 32768 {
                must_refuse("glyph:numberOfContours-truncated", r, "a simple glyph with 32768 contours (numberOfContours is an int16)")
            } else {
                let b = r.map_err(|e| fail("glyph:refused-representable", format!("{:?} for 32767 contours", e)))?;
                if dec_glyph(&b).ok() != Some(normal(&m)) {
                    return Err(fail("glyph:written-differs", "glyph with 32767 contours".into()));
                }
                Ok(())
            }
        }
        // ---- glyf table record count
        27 => {
            rec.class("edge:glyf-65536-records");
            match GlyfTable::new((0..65536).map(|_| GlyfRecord::empty()).collect()) {
                Err(_) => Ok(()),
                Ok(t) => {
                    let r = wbd::<GlyfTable<'_>, _>(t, IndexToLocFormat::Long).map(|(l, _)| l.offsets.len());
                    Err(fail("glyf:65536-records-accepted", format!("GlyfTable::new accepted 65536 records; write gave {:?}", r)))
                }
            }
        }
        // ---- post Pascal strings at 255 / 256
        28 => {
            for len in [255u32, 256] {
                let m = PostM { version: 0x0002_0000, italic: 0, upos: 0, uthick: 0, mem: [0; 5], v2: Some((vec![258], vec![s(len, 0x41)])), unused_names: vec![] };
                check_post(&m, rec)?;
            }
            Ok(())
        }
        // ---- short loca produced by GlyfTable::write_dep when glyf exceeds 0x1FFFE bytes
        29 => {
            let big = enc_simple_long(&SimpleM { bbox: [0; 4], contours: vec![1], instr: vec![0; 65000], pts: vec![(0, 0, true)], enc: 0 });
            let glyphs = vec![big.clone(), big.clone(), big];
            let (glyf, loca) = crate::fontgen::basic::glyf_loca(&glyphs, true);
            rec.class("edge:glyf>128K-as-short-loca");
            match write_glyf(&glyf, &loca, 3, IndexToLocFormat::Long, 0).map_err(|e| fail("glyf:parse", format!("{:?}", e)))? {
                Ok(_) => {}
                Err(e) => return Err(fail("glyf:write-of-parsed-refused", format!("{:?}", e))),
            }
            // now as short: glyf writes fine, the loca writer must refuse
            let l = ReadScope::new(&loca).read_dep::<LocaTable<'_>>((3, IndexToLocFormat::Long)).map_err(|e| fail("glyf:loca-parse", format!("{:?}", e)))?;
            let t = ReadScope::new(&glyf).read_dep::<GlyfTable<'_>>(&l).map_err(|e| fail("glyf:parse", format!("{:?}", e)))?;
            let (ol, _) = wbd::<GlyfTable<'_>, _>(t, IndexToLocFormat::Short).map_err(|e| fail("glyf:write", format!("{:?}", e)))?;
            must_refuse("loca:short-offset-truncated", wbd::<OwnedLoca, _>(ol, IndexToLocFormat::Short).map(|(_, b)| b), "a short loca for 195 KB of glyph data")
        }
        _ => Ok(()),
    }
}

// ------------------------------------------------------------------ fixtures

fn fixture_list() -> Vec<String> {
    let mut v = fixtures::list("fonts", &["ttf", "otf"], 700_000);
    v.extend(fixtures::list("aots", &["ttf", "otf"], 100_000));
    v
}

fn check_fixture(path: &str, rec: &mut Rec) -> CaseResult {
    let Some(data) = fixtures::read(path) else {
        rec.class("fixture:unavailable");
        return Ok(());
    };
    let mut tables = 0u64;
    let tag = |t: &[u8; 4]| find_table(&data, t);
    let ctx = |sig: crate::engine::Fail| crate::engine::Fail::new(sig.sig, format!("{}: {}", path, sig.msg));
    let mut body = || -> CaseResult {
        let head = match tag(b"head") {
            Some(d) => {
                tables += 1;
                stable!("fx-head", d, |d| ReadScope::new(d).read::<HeadTable>(), |t| write_head(t), |a, b| if a == b { Ok(()) } else { Err(format!("{:?} vs {:?}", a, b)) });
                ReadScope::new(d).read::<HeadTable>().ok()
            }
            None => None,
        };
        let maxp = match tag(b"maxp") {
            Some(d) => {
                tables += 1;
                stable!("fx-maxp", d, |d| ReadScope::new(d).read::<MaxpTable>(), |t| wb::<MaxpTable, _>(t), |a, b| if a == b { Ok(()) } else { Err(format!("{:?} vs {:?}", a, b)) });
                ReadScope::new(d).read::<MaxpTable>().ok()
            }
            None => None,
        };
        let hhea = match tag(b"hhea") {
            Some(d) => {
                tables += 1;
                stable!("fx-hhea", d, |d| ReadScope::new(d).read::<HheaTable>(), |t| wb::<HheaTable, _>(t), |a, b| if a == b { Ok(()) } else { Err(format!("{:?} vs {:?}", a, b)) });
                ReadScope::new(d).read::<HheaTable>().ok()
            }
            None => None,
        };
        if let (Some(d), Some(m), Some(h)) = (tag(b"hmtx"), &maxp, &hhea) {
            let (n, nhm) = (m.num_glyphs as usize, h.num_h_metrics as usize);
            if ReadScope::new(d).read_dep::<HmtxTable<'_>>((n, nhm)).is_ok() {
                tables += 1;
                let g2 = stable!(
                    "fx-hmtx",
                    d,
                    |d| ReadScope::new(d).read_dep::<HmtxTable<'_>>((n, nhm)),
                    |t| wb::<HmtxTable<'_>, _>(t),
                    |a, b| {
                        for g in 0..n.min(0x10000) {
                            if a.metric(g as u16).ok() != b.metric(g as u16).ok() {
                                return Err(format!("metric({}) {:?} vs {:?}", g, a.metric(g as u16), b.metric(g as u16)));
                            }
                        }
                        Ok(())
                    }
                );
                if g2.as_slice() != &d[..g2.len().min(d.len())] {
                    return Err(fail("fx-hmtx:bytes", diff(&g2, d)));
                }
            }
        }
        if let Some(d) = tag(b"OS/2") {
            if ReadScope::new(d).read_dep::<Os2>(d.len()).map_or(false, |o| o.version <= 5) {
                tables += 1;
                stable!("fx-os2", d, |d| ReadScope::new(d).read_dep::<Os2>(d.len()), |t| wb::<Os2, _>(t), |a, b| super::os2_same(a, b));
            }
        }
        if let Some(d) = tag(b"post") {
            if ReadScope::new(d).read::<PostTable<'_>>().is_ok() {
                tables += 1;
                stable!("fx-post", d, |d| ReadScope::new(d).read::<PostTable<'_>>(), |t| wb::<PostTable<'_>, _>(t), |a, b| {
                    let n = maxp.as_ref().map_or(0, |m| m.num_glyphs);
                    for g in 0..n {
                        if a.glyph_name(g).ok() != b.glyph_name(g).ok() {
                            return Err(format!("glyph_name({})", g));
                        }
                    }
                    eqf!(a, b, header.version);
                    eqf!(a, b, header.italic_angle);
                    eqf!(a, b, header.underline_position);
                    eqf!(a, b, header.underline_thickness);
                    eqf!(a, b, header.is_fixed_pitch);
                    eqf!(a, b, header.min_mem_type_42);
                    eqf!(a, b, header.max_mem_type_1);
                    Ok(())
                });
            }
        }
        if let Some(d) = tag(b"name") {
            if let Ok(exp) = dec_name(d) {
                tables += 1;
                let exp = (exp.1, exp.2);
                stable!("fx-name", d, |d| ReadScope::new(d).read::<NameTable<'_>>(), |t| wb::<NameTable<'_>, _>(t), |a, b| name_borrowed_matches(a, &exp).and_then(|_| name_borrowed_matches(b, &exp)));
                let g2 = stable!(
                    "fx-name-owned",
                    d,
                    |d| ReadScope::new(d).read::<NameTable<'_>>(),
                    |t| ONameTable::try_from(t).map_err(|_| WriteError::BadValue).and_then(|o| wb::<ONameTable<'_>, _>(&o)),
                    |a, b| name_borrowed_matches(a, &exp).and_then(|_| name_borrowed_matches(b, &exp))
                );
                let dec = dec_name(&g2).map_err(|e| fail("fx-name-owned:written-undecodable", e))?;
                if (dec.1, dec.2) != exp {
                    return Err(fail("fx-name-owned:written-differs", "owned name table written differently".into()));
                }
            }
        }
        if let Some(d) = tag(b"cvt ") {
            if d.len() % 2 == 0 {
                tables += 1;
                let g2 = stable!("fx-cvt", d, |d| ReadScope::new(d).read_dep::<CvtTable<'_>>(d.len() as u32), |t| wb::<CvtTable<'_>, _>(t), |a, b| if a.values.iter().eq(b.values.iter()) { Ok(()) } else { Err("values".to_string()) });
                if g2 != d {
                    return Err(fail("fx-cvt:bytes", diff(&g2, d)));
                }
            }
        }
        if let Some(d) = tag(b"cmap") {
            if let Ok(c) = ReadScope::new(d).read::<Cmap<'_>>() {
                for r in c.encoding_records() {
                    let Some(sd) = d.get(r.offset as usize..) else { continue };
                    match ReadScope::new(sd).read::<CmapSubtable<'_>>() {
                        Ok(CmapSubtable::Format2 { .. }) => {
                            let t = ReadScope::new(sd).read::<CmapSubtable<'_>>().map_err(|e| fail("fx-cmap:parse", format!("{:?}", e)))?;
                            if !matches!(wb::<CmapSubtable<'_>, _>(&t), Err(WriteError::NotImplemented)) {
                                return Err(fail("fx-cmap:format2-not-refused", "format 2 writing is documented as NotImplemented".into()));
                            }
                            rec.class("fixture:cmap-format2-NotImplemented");
                        }
                        Ok(_) => {
                            tables += 1;
                            stable!("fx-cmap", sd, |d| ReadScope::new(d).read::<CmapSubtable<'_>>(), |t| wb::<CmapSubtable<'_>, _>(t), |a, b| {
                                if a.to_owned() != b.to_owned() {
                                    return Err("to_owned differs".to_string());
                                }
                                let (ma, mb) = (a.mappings().map_err(|e| format!("{:?}", e)), b.mappings().map_err(|e| format!("{:?}", e)));
                                if ma != mb {
                                    return Err("mappings differ".to_string());
                                }
                                Ok(())
                            });
                        }
                        Err(_) => rec.class("fixture:cmap-subtable-unsupported"),
                    }
                }
            }
        }
        if let (Some(g), Some(l), Some(h), Some(m)) = (tag(b"glyf"), tag(b"loca"), &head, &maxp) {
            let (n, fmt) = (m.num_glyphs as usize, h.index_to_loc_format);
            match write_glyf(g, l, n, fmt, 0x5555_5555) {
                Err(_) => rec.class("fixture:glyf-unreadable"),
                Ok(r) => {
                    tables += 1;
                    let (g2, l2) = r.map_err(|e| fail("fx-glyf:write-of-parsed-refused", format!("{:?}", e)))?;
                    let short = fmt == IndexToLocFormat::Short;
                    let s1 = slices(g, l, short).ok();
                    let s2 = slices(&g2, &l2, short).map_err(|e| fail("fx-glyf:written-loca-inconsistent", e))?;
                    if let Some(s1) = s1 {
                        if s1.len() != s2.len() {
                            return Err(fail("fx-glyf:glyph-count", format!("{} vs {}", s1.len(), s2.len())));
                        }
                        for k in 0..s1.len() {
                            if s1[k].len() < 10 && s2[k].is_empty() {
                                continue;
                            }
                            let (a, b) = (dec_glyph(s1[k]), dec_glyph(s2[k]));
                            if let (Ok(a), Ok(b)) = (&a, &b) {
                                if normal(a) != normal(b) {
                                    return Err(fail("fx-glyf:glyph-differs", format!("glyph {}: {:?} vs {:?}", k, a, b)));
                                }
                            } else if a.is_ok() != b.is_ok() {
                                return Err(fail("fx-glyf:glyph-differs", format!("glyph {}: {:?} vs {:?}", k, a.err(), b.err())));
                            }
                        }
                    }
                    let (g3, l3) = write_glyf(&g2, &l2, n, fmt, u32::MAX).map_err(|e| fail("fx-glyf:reparse", format!("{:?}", e)))?.map_err(|e| fail("fx-glyf:rewrite-refused", format!("{:?}", e)))?;
                    let (g4, l4) = write_glyf(&g3, &l3, n, fmt, 0).map_err(|e| fail("fx-glyf:reparse", format!("{:?}", e)))?.map_err(|e| fail("fx-glyf:rewrite-refused", format!("{:?}", e)))?;
                    if g3 != g4 || l3 != l4 {
                        return Err(fail("fx-glyf:unstable", format!("glyf {}; loca {}", diff(&g3, &g4), diff(&l3, &l4))));
                    }
                }
            }
        }
        Ok(())
    };
    let r = body();
    r.map_err(ctx)?;
    rec.evaluations(tables.saturating_sub(1));
    rec.set_nontrivial(tables >= 2);
    rec.class("fixture:sfnt-tables");
    rec.hash_bytes(path.as_bytes());
    Ok(())
}

pub fn run(ctx: &mut Ctx) {
    ctx.section("post", ctx.cases(36_000, 1_200_000), post_strategy(), |m, rec| check_post(m, rec));
    ctx.section("name-owned", ctx.cases(36_000, 1_200_000), name_strategy(false), |m, rec| check_name_owned(m, rec));
    ctx.section("name-owned-64K", ctx.cases(7_200, 120_000), name_strategy(true), |m, rec| check_name_owned(m, rec));
    ctx.section("name-borrowed", ctx.cases(24_000, 720_000), name_strategy(false), |m, rec| check_name_borrowed(m, rec));
    ctx.section("loca", ctx.cases(24_000, 720_000), loca_strategy(), |m, rec| check_loca(m, rec));
    ctx.section("glyph", ctx.cases(72_000, 2_400_000), glyph_strategy(), |m, rec| check_glyph(m, rec));
    ctx.section("glyph-extreme", ctx.cases(12_000, 360_000), extreme_strategy(), |m, rec| check_glyph_extreme(m, rec));
    ctx.section("glyf-loca", ctx.cases(36_000, 1_200_000), glyf_strategy(), |m, rec| check_glyf(m, rec));
    ctx.section("cmap-subtable", ctx.cases(60_000, 1_800_000), cmap_sub_strategy(), |m, rec| check_cmap_sub(m, rec));
    ctx.section(
        "cmap-table",
        ctx.cases(18_000, 600_000),
        proptest::collection::vec((prop_oneof![Just(0u16), Just(1), Just(3), bu16()], bu16(), cmap_sub_strategy(), proptest::bool::weighted(0.4)), 0..4).prop_map(|v| {
            // some records repeat the sub-table of their predecessor (fonts share one sub-table between (0,3) and (3,1))
            let mut out: Vec<(u16, u16, CmapSubM)> = Vec::new();
            for (p, e, s, dup) in v {
                let s = if dup && !out.is_empty() { out[out.len() - 1].2.clone() } else { s };
                out.push((p, e, s));
            }
            out
        }),
        |m, rec| check_cmap_table(m, rec),
    );
    ctx.enumerate("edges-truetype", N_EDGES, true, |i, rec| check_edge(i, rec));
    let fx = fixture_list();
    let n = if ctx.thorough() { fx.len() } else { fx.len().min(140) };
    // quick: an evenly spread subset (the AOTS fonts are near-duplicates of each other)
    let step = if n == 0 { 1.0 } else { (fx.len() as f64 / n as f64).max(1.0) };
    ctx.enumerate("fixtures-sfnt", n as u64, false, |i, rec| {
        let k = ((i as f64) * step) as usize;
        check_fixture(&fx[k.min(fx.len() - 1)], rec)
    });
}
