//! C15, TrueType side: post, name (owned and borrowed), loca, glyphs, glyf+loca, cmap, the
//! deterministic field-width edge cases, and the fixture tables.

use super::{bi16, bi32, bu16, bu32, diff, fail, hexs, is_b16, wb, wbd, with_tail, write_head};
use crate::engine::{fixtures, CaseResult, Ctx, Rec};
use crate::fontgen::buf::Buf;
use crate::fontgen::sfnt::find_table;
use allsorts::binary::read::{ReadArray, ReadScope};
use allsorts::binary::U16Be;
use allsorts::error::{ParseError, WriteError};
use allsorts::post::{Header as PostHeader, PascalString, PostTable, SubTable};
use allsorts::tables::cmap::owned as ocmap;
use allsorts::tables::cmap::{Cmap, CmapSubtable, EncodingId, PlatformId, SequentialMapGroup};
use allsorts::tables::glyf::{
    BoundingBox, CompositeGlyph, CompositeGlyphArgument, CompositeGlyphComponent, CompositeGlyphFlag, CompositeGlyphScale, GlyfRecord,
    GlyfTable, Glyph, Point, SimpleGlyph, SimpleGlyphFlag,
};
use allsorts::tables::loca::{owned::LocaTable as OwnedLoca, LocaTable};
use allsorts::tables::os2::Os2;
use allsorts::tables::owned::{NameRecord as ONameRecord, NameTable as ONameTable};
use allsorts::tables::{CvtTable, F2Dot14, HeadTable, HheaTable, HmtxTable, IndexToLocFormat, MaxpTable, NameTable};
use proptest::prelude::*;
use std::borrow::Cow;
use std::convert::TryFrom;

fn u16_array<'a>(bytes: &'a [u8]) -> ReadArray<'a, U16Be> {
    match ReadScope::new(bytes).ctxt().read_array::<U16Be>(bytes.len() / 2) {
        Ok(a) => a,
        Err(_) => ReadArray::empty(),
    }
}

fn be16(v: &[u16]) -> Vec<u8> {
    v.iter().flat_map(|x| x.to_be_bytes()).collect()
}

/// compact description of a byte string: `len` bytes seed, seed+1, …
#[derive(Clone, Debug, PartialEq)]
pub struct StrM {
    len: u32,
    seed: u8,
}
impl StrM {
    fn bytes(&self) -> Vec<u8> {
        (0..self.len).map(|i| (self.seed as u32).wrapping_add(i.wrapping_mul(7)) as u8).collect()
    }
}

/// is the writer's refusal justified? `refusable` says whether some count/length/offset of the
/// sequential layout overflows its field
fn judge(name: &str, r: Result<Vec<u8>, WriteError>, refusable: bool, what: impl Fn() -> String) -> Result<Option<Vec<u8>>, crate::engine::Fail> {
    match r {
        Ok(b) => Ok(Some(b)),
        Err(_) if refusable => Ok(None),
        Err(e) => Err(fail(&format!("{}:refused-representable", name), format!("{:?} for a value that fits its fields: {}", e, what()))),
    }
}

// ================================================================== post

#[derive(Clone, Debug)]
pub struct PostM {
    version: i32,
    italic: i32,
    upos: i16,
    uthick: i16,
    mem: [u32; 5],
    /// (glyph name indices, custom names) for version 2.0
    v2: Option<(Vec<u16>, Vec<StrM>)>,
    /// byte encoder only: further Pascal strings after the names the indices need (the reader
    /// derives the number of names from the largest index and ignores the rest)
    unused_names: Vec<StrM>,
}

fn post_strategy() -> impl Strategy<Value = PostM> {
    let names = proptest::collection::vec(
        (prop_oneof![3 => 0u32..12, 1 => Just(0u32), 1 => Just(255u32), 1 => Just(254u32), 1 => Just(256u32), 1 => 200u32..256], 0x21u8..0x60).prop_map(|(len, seed)| StrM { len, seed }),
        0..6,
    );
    let v2 = (names, proptest::collection::vec(any::<u16>(), 0..20)).prop_map(|(names, raw)| {
        let k = names.len() as u32;
        let mut idx: Vec<u16> = raw.iter().map(|r| ((*r as u32 * (258 + k)) >> 16) as u16).collect();
        if k > 0 {
            idx.push((257 + k) as u16);
        }
        (idx, names)
    });
    (
        prop_oneof![Just(0x0001_0000i32), Just(0x0002_5000), Just(0x0003_0000), Just(0x0002_0000), Just(0x0002_0000), Just(0x0002_0000)],
        bi32(),
        bi16(),
        bi16(),
        [bu32(), bu32(), bu32(), bu32(), bu32()],
        v2,
        prop_oneof![3 => Just(Vec::new()).boxed(), 1 => proptest::collection::vec((0u32..9, 0x21u8..0x60).prop_map(|(len, seed)| StrM { len, seed }), 1..3).boxed()],
    )
        .prop_map(|(version, italic, upos, uthick, mem, v2, unused_names)| PostM { version, italic, upos, uthick, mem, v2: if version == 0x0002_0000 { Some(v2) } else { None }, unused_names })
}

fn enc_post(m: &PostM) -> Vec<u8> {
    let mut b = Buf::new();
    b.i32(m.version).i32(m.italic).i16(m.upos).i16(m.uthick);
    for v in m.mem {
        b.u32(v);
    }
    if let Some((idx, names)) = &m.v2 {
        b.u16(idx.len() as u16);
        for i in idx {
            b.u16(*i);
        }
        for n in names {
            b.u8(n.len as u8).bytes(&n.bytes());
        }
    }
    b.into_vec()
}

fn post_matches(t: &PostTable<'_>, m: &PostM) -> Result<(), String> {
    let h = &t.header;
    let got = (h.version, h.italic_angle, h.underline_position, h.underline_thickness, [h.is_fixed_pitch, h.min_mem_type_42, h.max_mem_type_42, h.min_mem_type_1, h.max_mem_type_1]);
    let exp = (m.version, m.italic, m.upos, m.uthick, m.mem);
    if got != exp {
        return Err(format!("header {:?} vs {:?}", got, exp));
    }
    match (&t.opt_sub_table, &m.v2) {
        (None, None) => Ok(()),
        (Some(s), Some((idx, names))) => {
            if &s.glyph_name_index.to_vec() != idx {
                return Err(format!("glyph_name_index {:?} vs {:?}", s.glyph_name_index.to_vec(), idx));
            }
            if s.names.len() != names.len() {
                return Err(format!("{} names vs {}", s.names.len(), names.len()));
            }
            for (i, n) in names.iter().enumerate() {
                if s.names[i].bytes != n.bytes().as_slice() {
                    return Err(format!("name {}: {} vs {}", i, hexs(s.names[i].bytes), hexs(&n.bytes())));
                }
            }
            // accessor: custom names
            for (gid, ix) in idx.iter().enumerate().take(40) {
                if *ix >= 258 {
                    let exp = names[*ix as usize - 258].bytes();
                    let exp = std::str::from_utf8(&exp).ok().map(|s| s.to_string());
                    match (t.glyph_name(gid as u16), exp) {
                        (Ok(Some(g)), Some(e)) if g == e => {}
                        (Err(_), None) => {}
                        (g, e) => return Err(format!("glyph_name({}) = {:?}, expected {:?}", gid, g, e)),
                    }
                }
            }
            Ok(())
        }
        (a, b) => Err(format!("sub-table present {} vs model {}", a.is_some(), b.is_some())),
    }
}

fn check_post(m: &PostM, rec: &mut Rec) -> CaseResult {
    let oversize = m.v2.as_ref().map_or(false, |(_, n)| n.iter().any(|s| s.len > 255));
    let (idx_bytes, name_bytes): (Vec<u8>, Vec<Vec<u8>>) = match &m.v2 {
        Some((idx, names)) => (be16(idx), names.iter().map(|n| n.bytes()).collect()),
        None => (Vec::new(), Vec::new()),
    };
    let v = PostTable {
        header: PostHeader {
            version: m.version,
            italic_angle: m.italic,
            underline_position: m.upos,
            underline_thickness: m.uthick,
            is_fixed_pitch: m.mem[0],
            min_mem_type_42: m.mem[1],
            max_mem_type_42: m.mem[2],
            min_mem_type_1: m.mem[3],
            max_mem_type_1: m.mem[4],
        },
        opt_sub_table: m.v2.as_ref().map(|_| SubTable { glyph_name_index: u16_array(&idx_bytes), names: name_bytes.iter().map(|b| PascalString { bytes: b }).collect() }),
    };
    let r = wb::<PostTable<'_>, _>(&v);
    if oversize {
        // (c) a Pascal string cannot hold more than 255 bytes
        if let Ok(b) = r {
            return Err(fail("post:oversize-name-written", format!("a 256-byte glyph name was written: {}", hexs(&b))));
        }
        rec.class("post:256-byte-name-refused");
        rec.nontrivial();
        return Ok(());
    }
    let got = r.map_err(|e| fail("post:write", format!("{:?} for {:?}", e, m)))?;
    let expect = enc_post(m);
    if got != expect {
        return Err(fail("post:written-bytes", diff(&got, &expect)));
    }
    // the byte string may carry names nobody refers to (version 2) or trailing bytes (other versions)
    let mut raw = expect.clone();
    if m.v2.is_some() {
        for n in &m.unused_names {
            raw.push(n.len as u8);
            raw.extend(n.bytes());
        }
        rec.class_if(!m.unused_names.is_empty(), "post:unused-trailing-names");
    } else {
        raw = with_tail(&raw, 8);
    }
    let g2 = stable!("post", &raw, |d| ReadScope::new(d).read::<PostTable<'_>>(), |t| wb::<PostTable<'_>, _>(t), |a, b| post_matches(a, m).and_then(|_| post_matches(b, m)));
    if g2 != expect {
        return Err(fail("post:gen2-bytes", diff(&g2, &expect)));
    }
    rec.set_nontrivial(m.v2.as_ref().map_or(is_b16(m.upos as u16), |(i, n)| i.len() >= 2 || n.iter().any(|s| s.len == 0 || s.len >= 254)));
    rec.class(match m.version {
        0x0001_0000 => "post:1.0",
        0x0002_0000 => "post:2.0",
        0x0002_5000 => "post:2.5",
        _ => "post:3.0",
    });
    rec.class_if(m.v2.as_ref().map_or(false, |(_, n)| n.iter().any(|s| s.len == 255)), "post:255-byte-name");
    rec.hash_bytes(&expect);
    Ok(())
}

// ================================================================== name

#[derive(Clone, Debug, PartialEq)]
pub struct NameRecM {
    ids: [u16; 4],
    s: StrM,
}

#[derive(Clone, Debug)]
pub struct NameM {
    recs: Vec<NameRecM>,
    langs: Vec<StrM>,
    /// borrowed form only: bytes between the records and the string storage
    gap: u16,
    /// borrowed form only: 0 strings in record order, 1 identical strings stored once and shared,
    /// 2 strings stored in reverse order
    layout: u8,
}

type DecName = (u16, Vec<([u16; 4], Vec<u8>)>, Vec<Vec<u8>>);

/// my reader of a name table (OpenType spec), independent of allsorts
pub(crate) fn dec_name(d: &[u8]) -> Result<DecName, String> {
    let r16 = |o: usize| -> Result<u16, String> { d.get(o..o + 2).map(|b| u16::from_be_bytes([b[0], b[1]])).ok_or_else(|| format!("short read at {}", o)) };
    let format = r16(0)?;
    let count = r16(2)? as usize;
    let so = r16(4)? as usize;
    let mut recs = Vec::new();
    let get = |off: usize, len: usize| -> Result<Vec<u8>, String> { d.get(so + off..so + off + len).map(|b| b.to_vec()).ok_or_else(|| format!("string {}+{} outside the table ({} bytes, storage at {})", off, len, d.len(), so)) };
    for i in 0..count {
        let o = 6 + 12 * i;
        recs.push(([r16(o)?, r16(o + 2)?, r16(o + 4)?, r16(o + 6)?], get(r16(o + 10)? as usize, r16(o + 8)? as usize)?));
    }
    let mut langs = Vec::new();
    let mut end = 6 + 12 * count;
    if format == 1 {
        let lc = r16(end)? as usize;
        for i in 0..lc {
            let o = end + 2 + 4 * i;
            langs.push(get(r16(o + 2)? as usize, r16(o)? as usize)?);
        }
        end += 2 + 4 * lc;
    } else if format != 0 {
        return Err(format!("format {}", format));
    }
    if so < end {
        return Err(format!("string storage at {} overlaps the records ending at {}", so, end));
    }
    Ok((format, recs, langs))
}

fn name_model_dec(m: &NameM) -> (Vec<([u16; 4], Vec<u8>)>, Vec<Vec<u8>>) {
    (m.recs.iter().map(|r| (r.ids, r.s.bytes())).collect(), m.langs.iter().map(|s| s.bytes()).collect())
}

/// does the plain sequential layout (records, lang tags, strings in order) overflow a field?
fn name_overflows(m: &NameM) -> bool {
    if m.recs.len() > 0xFFFF || m.langs.len() > 0xFFFF {
        return true;
    }
    let header = 6 + 12 * m.recs.len() + if m.langs.is_empty() { 0 } else { 2 + 4 * m.langs.len() };
    if header > 0xFFFF {
        return true;
    }
    let mut off = 0u64;
    for s in m.recs.iter().map(|r| &r.s).chain(m.langs.iter()) {
        if s.len > 0xFFFF || off > 0xFFFF {
            return true;
        }
        off += s.len as u64;
    }
    false
}

fn check_name_owned(m: &NameM, rec: &mut Rec) -> CaseResult {
    let strings: Vec<Vec<u8>> = m.recs.iter().map(|r| r.s.bytes()).collect();
    let langs: Vec<Vec<u8>> = m.langs.iter().map(|s| s.bytes()).collect();
    let v = ONameTable {
        name_records: m
            .recs
            .iter()
            .zip(strings.iter())
            .map(|(r, s)| ONameRecord { platform_id: r.ids[0], encoding_id: r.ids[1], language_id: r.ids[2], name_id: r.ids[3], string: Cow::Borrowed(s.as_slice()) })
            .collect(),
        langtag_records: langs.iter().map(|l| Cow::Borrowed(l.as_slice())).collect(),
    };
    let over = name_overflows(m);
    let total: u64 = m.recs.iter().map(|r| r.s.len as u64).chain(m.langs.iter().map(|s| s.len as u64)).sum();
    let Some(bytes) = judge("name-owned", wb::<ONameTable<'_>, _>(&v), over, || format!("{} records, {} lang tags, {} string bytes", m.recs.len(), m.langs.len(), total))? else {
        rec.class("name-owned:refused(overflow)");
        rec.nontrivial();
        return Ok(());
    };
    // my decoder on the written bytes
    let dec = dec_name(&bytes).map_err(|e| fail("name-owned:written-undecodable", format!("{} — {} records, {} string bytes; written {}", e, m.recs.len(), total, hexs(&bytes))))?;
    let exp = name_model_dec(m);
    if dec.1 != exp.0 || dec.2 != exp.1 {
        let i = dec.1.iter().zip(exp.0.iter()).position(|(a, b)| a != b);
        return Err(fail(
            "name-owned:written-differs",
            format!("decoded {} records / {} lang tags, model {} / {}; first differing record {:?}; total string bytes {}", dec.1.len(), dec.2.len(), exp.0.len(), exp.1.len(), i, total),
        ));
    }
    if dec.0 != if m.langs.is_empty() { 0 } else { 1 } {
        return Err(fail("name-owned:format", format!("format {} with {} lang tags", dec.0, m.langs.len())));
    }
    // allsorts reads it back
    let owned_matches = |t: &NameTable<'_>| -> Result<(), String> {
        let o = ONameTable::try_from(t).map_err(|e| format!("owned::NameTable::try_from: {:?}", e))?;
        let got: Vec<([u16; 4], Vec<u8>)> = o.name_records.iter().map(|r| ([r.platform_id, r.encoding_id, r.language_id, r.name_id], r.string.to_vec())).collect();
        let gl: Vec<Vec<u8>> = o.langtag_records.iter().map(|l| l.to_vec()).collect();
        if got != exp.0 || gl != exp.1 {
            return Err(format!("{} records / {} lang tags read, model {} / {}", got.len(), gl.len(), exp.0.len(), exp.1.len()));
        }
        Ok(())
    };
    let _ = stable!(
        "name-owned",
        &bytes,
        |d| ReadScope::new(d).read::<NameTable<'_>>(),
        |t| ONameTable::try_from(t).map_err(|_| WriteError::BadValue).and_then(|o| wb::<ONameTable<'_>, _>(&o)),
        |a, b| owned_matches(a).and_then(|_| owned_matches(b))
    );
    rec.set_nontrivial(m.recs.len() + m.langs.len() >= 2);
    rec.class(if m.langs.is_empty() { "name-owned:format0" } else { "name-owned:format1" });
    rec.class_if(total > 0xFFFF, "name-owned:strings>64K-written");
    rec.hash_bytes(&bytes[..bytes.len().min(4096)]);
    rec.hash_u64(total);
    Ok(())
}

/// my encoder of a (borrowed-form) name table: the string storage can be laid out in several ways
/// that all mean the same (see `NameM::layout`), with an optional gap before it
fn enc_name(m: &NameM) -> Vec<u8> {
    let all: Vec<Vec<u8>> = m.recs.iter().map(|r| r.s.bytes()).chain(m.langs.iter().map(|l| l.bytes())).collect();
    // storage and the offset of every string
    let mut storage: Vec<u8> = Vec::new();
    let mut offs = vec![0usize; all.len()];
    let order: Vec<usize> = if m.layout == 2 { (0..all.len()).rev().collect() } else { (0..all.len()).collect() };
    for &i in &order {
        if m.layout == 1 && !all[i].is_empty() {
            if let Some(j) = order.iter().take_while(|j| **j != i).find(|j| all[**j] == all[i]) {
                offs[i] = offs[*j];
                continue;
            }
        }
        offs[i] = storage.len();
        storage.extend(&all[i]);
    }
    let mut b = Buf::new();
    let format = if m.langs.is_empty() { 0 } else { 1 };
    let header = 6 + 12 * m.recs.len() + if format == 1 { 2 + 4 * m.langs.len() } else { 0 };
    b.u16(format).u16(m.recs.len() as u16).u16(header as u16 + m.gap);
    for (i, r) in m.recs.iter().enumerate() {
        b.u16(r.ids[0]).u16(r.ids[1]).u16(r.ids[2]).u16(r.ids[3]).u16(r.s.len as u16).u16(offs[i] as u16);
    }
    if format == 1 {
        b.u16(m.langs.len() as u16);
        for (k, l) in m.langs.iter().enumerate() {
            b.u16(l.len as u16).u16(offs[m.recs.len() + k] as u16);
        }
    }
    b.zeros(m.gap as usize);
    b.bytes(&storage);
    b.into_vec()
}

fn name_borrowed_matches(t: &NameTable<'_>, exp: &(Vec<([u16; 4], Vec<u8>)>, Vec<Vec<u8>>)) -> Result<(), String> {
    if t.name_records.len() != exp.0.len() {
        return Err(format!("{} records vs {}", t.name_records.len(), exp.0.len()));
    }
    for (i, r) in t.name_records.iter().enumerate() {
        let s = t.string_storage.offset_length(r.offset as usize, r.length as usize).map_err(|e| format!("record {} string: {:?}", i, e))?.data();
        if [r.platform_id, r.encoding_id, r.language_id, r.name_id] != exp.0[i].0 || s != exp.0[i].1.as_slice() {
            return Err(format!("record {} differs", i));
        }
    }
    match &t.opt_langtag_records {
        None if exp.1.is_empty() => {}
        Some(l) if l.len() == exp.1.len() => {
            for (i, r) in l.iter().enumerate() {
                let s = t.string_storage.offset_length(r.offset as usize, r.length as usize).map_err(|e| format!("lang tag {}: {:?}", i, e))?.data();
                if s != exp.1[i].as_slice() {
                    return Err(format!("lang tag {} differs", i));
                }
            }
        }
        other => return Err(format!("lang tags {:?} vs {}", other.as_ref().map(|l| l.len()), exp.1.len())),
    }
    Ok(())
}

fn check_name_borrowed(m: &NameM, rec: &mut Rec) -> CaseResult {
    // only models whose sequential layout fits (construction, not rejection: sizes are small)
    let raw = enc_name(m);
    let exp = name_model_dec(m);
    let g2 = stable!("name", &raw, |d| ReadScope::new(d).read::<NameTable<'_>>(), |t| wb::<NameTable<'_>, _>(t), |a, b| name_borrowed_matches(a, &exp).and_then(|_| name_borrowed_matches(b, &exp)));
    let dec = dec_name(&g2).map_err(|e| fail("name:written-undecodable", e))?;
    if dec.1 != exp.0 || dec.2 != exp.1 {
        return Err(fail("name:written-differs", format!("decoded {} records, model {}", dec.1.len(), exp.0.len())));
    }
    rec.set_nontrivial(m.recs.len() + m.langs.len() >= 2);
    rec.class(if m.langs.is_empty() { "name:format0" } else { "name:format1" });
    rec.class_if(m.gap > 0, "name:gap-before-strings");
    rec.class_if(m.layout == 1, "name:shared-strings");
    rec.class_if(m.layout == 2, "name:strings-in-reverse-order");
    rec.hash_bytes(&raw);
    Ok(())
}

fn name_strategy(big: bool) -> impl Strategy<Value = NameM> {
    let len = if big {
        prop_oneof![3 => 0u32..40, 2 => proptest::sample::select(vec![0u32, 1, 20000, 32767, 32768, 40000, 65534, 65535, 65536]), 1 => 10000u32..30000].boxed()
    } else {
        prop_oneof![4 => 0u32..40, 1 => Just(0u32), 1 => 200u32..600].boxed()
    };
    let s = (len, any::<u8>()).prop_map(|(len, seed)| StrM { len, seed });
    let rec = ([bu16(), bu16(), bu16(), bu16()], s.clone()).prop_map(|(ids, s)| NameRecM { ids, s });
    (proptest::collection::vec(rec, 0..7), prop_oneof![2 => Just(Vec::new()).boxed(), 1 => proptest::collection::vec(s, 1..4).boxed()], 0u16..12)
        .prop_map(|(mut recs, langs, gap): (Vec<NameRecM>, Vec<StrM>, u16)| {
            // layouts derived from the gap draw keep the strategy shape; duplicates make sharing bite
            let layout = (gap as usize + recs.len()) as u8 % 3;
            if layout == 1 && recs.len() >= 2 {
                let s0 = recs[0].s.clone();
                let last = recs.len() - 1;
                recs[last].s = s0;
            }
            NameM { recs, langs, gap: if gap > 4 { 0 } else { gap }, layout }
        })
}

// ================================================================== loca

#[derive(Clone, Debug)]
pub struct LocaM {
    offsets: Vec<u32>,
    short: bool,
}

fn loca_strategy() -> impl Strategy<Value = LocaM> {
    let off = prop_oneof![
        4 => (0u32..0x10000).prop_map(|v| v * 2),
        1 => proptest::sample::select(vec![0u32, 2, 0x1FFFC, 0x1FFFE, 0x20000, 0x20002, 0x1FFFF, 1, 3, 0xFFFF_FFFE, 0xFFFF_FFFF, 0x10000, 0xFFFE]),
        1 => any::<u32>(),
    ];
    (proptest::collection::vec(off, 0..10), any::<bool>(), any::<bool>()).prop_map(|(mut offsets, short, sorted)| {
        if sorted {
            offsets.sort();
        }
        LocaM { offsets, short }
    })
}

fn check_loca(m: &LocaM, rec: &mut Rec) -> CaseResult {
    let fmt = if m.short { IndexToLocFormat::Short } else { IndexToLocFormat::Long };
    let representable = !m.short || m.offsets.iter().all(|o| o % 2 == 0 && *o <= 0x1FFFE);
    let r = wbd::<OwnedLoca, _>(OwnedLoca { offsets: m.offsets.clone() }, fmt).map(|(_, b)| b);
    let mut e = Buf::new();
    for o in &m.offsets {
        if m.short {
            e.u16((*o / 2) as u16);
        } else {
            e.u32(*o);
        }
    }
    match r {
        Ok(b) if representable => {
            if b != e.0 {
                return Err(fail("loca:written-bytes", format!("{:?}: {}", m, diff(&b, &e.0))));
            }
            if !m.offsets.is_empty() {
                let n = m.offsets.len() - 1;
                let g2 = stable!(
                    "loca",
                    &b,
                    |d| ReadScope::new(d).read_dep::<LocaTable<'_>>((n, fmt)),
                    |t| wb::<LocaTable<'_>, _>(t.clone()),
                    |a, bb| {
                        let ga: Vec<u32> = a.offsets.iter().collect();
                        let gb: Vec<u32> = bb.offsets.iter().collect();
                        if ga == m.offsets && gb == m.offsets {
                            Ok(())
                        } else {
                            Err(format!("{:?} / {:?} vs {:?}", ga, gb, m.offsets))
                        }
                    }
                );
                if g2 != b {
                    return Err(fail("loca:gen2-bytes", diff(&g2, &b)));
                }
            }
            rec.class(if m.short { "loca:short-ok" } else { "loca:long" });
        }
        Ok(b) => {
            return Err(fail("loca:short-offset-truncated", format!("offsets {:?} cannot be stored as Offset16/2 but were written as {}", m.offsets, hexs(&b))));
        }
        Err(_) if !representable => {
            rec.class("loca:short-refused(odd or > 0x1FFFE)");
        }
        Err(e) => return Err(fail("loca:refused-representable", format!("{:?} for {:?}", e, m))),
    }
    rec.set_nontrivial(m.offsets.len() >= 2);
    Ok(())
}

include!("c15_tt_glyf.rs");
include!("c15_tt_cmap.rs");
include!("c15_tt_edges.rs");
include!("c15_tt_fuzz.rs");
