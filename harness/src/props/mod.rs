//! One module per property: generator + oracle + classification.
use crate::engine::Property;

pub mod c01;
pub mod c02;
pub mod c03;
pub mod c04;
pub mod c05;
pub mod c06;
pub mod c07;
pub mod c08;
pub mod c09;
pub mod c10;
pub mod c11;
pub mod c12;
pub mod c13;
pub mod c14;
pub mod c15;
pub mod c16;
pub mod c17;
pub mod c18;
pub mod engtest;
pub mod smoke;

pub fn all() -> Vec<&'static dyn Property> {
    vec![
        &c01::C01, &c02::C02, &c03::C03, &c04::C04, &c05::C05, &c06::C06, &c07::C07, &c08::C08,
        &c09::C09, &c10::C10, &c11::C11, &c12::C12, &c13::C13, &c14::C14, &c15::C15, &c16::C16,
        &c17::C17, &c18::C18, &smoke::SMOKE, &engtest::ENGTEST,
    ]
}

pub fn find(id: &str) -> Option<&'static dyn Property> {
    all().into_iter().find(|p| p.id().eq_ignore_ascii_case(id))
}

/// Evaluate the bytes of a libFuzzer input for `target` in-process (strict; no tolerance).
/// Returns None for an unknown target or undecodable input.
pub fn fuzz_eval(target: &str, data: &[u8]) -> Option<crate::engine::CaseResult> {
    match target {
        "c14_reader" => {
            let case = c14::case_from_bytes(data).ok()?;
            Some(crate::engine::fuzz::eval_case(|rec| c14::check_case(&case, rec)))
        }
        "c01_bytes" => Some(crate::engine::fuzz::eval_case(|rec| c01::check_bytes(data, rec))),
        "c05_tape" => {
            let tape = c05::tape_from_bytes(data);
            Some(crate::engine::fuzz::eval_case(|rec| c05::check_case(&tape, rec)))
        }
        "c02_shape" => {
            let case = c02::case_from_bytes(data).ok()?;
            Some(crate::engine::fuzz::eval_case(|rec| c02::check_case(&case, rec)))
        }
        "c04_gsub" => {
            let case = c04::case_from_bytes(data).ok()?;
            Some(crate::engine::fuzz::eval_case(|rec| c04::check_case(&case, rec)))
        }
        "c18_type2" => {
            let case = c18::case_from_bytes(data).ok()?;
            Some(crate::engine::fuzz::eval_case(|rec| c18::check_fuzz_case(&case, rec)))
        }
        "c11_woff2" => {
            let case = c11::case_from_bytes(data).ok()?;
            Some(crate::engine::fuzz::eval_case(|rec| c11::check_case(&case, rec)))
        }
        "c06_cmap" => {
            let case = c06::case_from_bytes(data).ok()?;
            Some(crate::engine::fuzz::eval_case(|rec| c06::check_case(&case, rec)))
        }
        "c10_container" => {
            let case = c10::case_from_bytes(data).ok()?;
            Some(crate::engine::fuzz::eval_case(|rec| c10::check_case(&case, rec)))
        }
        "c15_roundtrip" => Some(crate::engine::fuzz::eval_case(|rec| c15::fuzz_check(data, rec))),
        "c16_glyf" => {
            let case = c16::case_from_bytes(data).ok()?;
            Some(crate::engine::fuzz::eval_case(|rec| c16::check_case(&case, rec)))
        }
        "c13_norm" => {
            let case = c13::case_from_bytes(data).ok()?;
            Some(crate::engine::fuzz::eval_case(|rec| c13::check_case(&case, rec)))
        }
        "c17_text" => {
            let case = c17::case_from_bytes(data).ok()?;
            Some(crate::engine::fuzz::eval_case(|rec| c17::check_case(&case, rec)))
        }
        "c12_instance" => {
            let case = c12::case_from_bytes(data).ok()?;
            Some(crate::engine::fuzz::eval_case(|rec| c12::check_case(&case, rec)))
        }
        "c08_subset_cmap" => {
            let case = c08::case_from_bytes(data).ok()?;
            Some(crate::engine::fuzz::eval_case(|rec| c08::check_gen(&case, rec)))
        }
        _ => None,
    }
}

pub fn fuzz_target_property(target: &str) -> Option<&'static str> {
    match target {
        "c14_reader" => Some("C14"),
        "c01_bytes" | "c01_ops" => Some("C01"),
        "c02_shape" => Some("C02"),
        "c05_tape" => Some("C05"),
        "c04_gsub" => Some("C04"),
        "c18_type2" => Some("C18"),
        "c11_woff2" => Some("C11"),
        "c15_roundtrip" => Some("C15"),
        "c16_glyf" => Some("C16"),
        "c06_cmap" => Some("C06"),
        "c10_container" => Some("C10"),
        "c17_text" => Some("C17"),
        "c13_norm" => Some("C13"),
        "c12_instance" => Some("C12"),
        "c08_subset_cmap" => Some("C08"),
        _ => None,
    }
}
