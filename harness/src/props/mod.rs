//! One module per property: generator + oracle + classification.
use crate::engine::Property;

pub mod c13;
pub mod c14;

pub fn all() -> Vec<&'static dyn Property> {
    vec![&c13::C13, &c14::C14]
}

pub fn find(id: &str) -> Option<&'static dyn Property> {
    all().into_iter().find(|p| p.id().eq_ignore_ascii_case(id))
}
